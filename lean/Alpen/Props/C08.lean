import Alpen.Model.Daemon
import Alpen.Lemmas.World
import Alpen.Lemmas.Daemon
/-!
# C08 — index well-formedness and index/storage agreement over all histories

"At every quiescent point of any history the index is well formed: at most one copy record per
file and node and one file per acquisition and name, states drawn from the legal sets, and a
completed request carries ordered transfer timestamps and implies a copy was recorded in its
destination group. Absent external tampering the index agrees with storage: a copy recorded
healthy exists on disk with the registered size, a copy recorded removed by the daemon is gone
from disk, and placeholder, lock and other dot-prefixed temporary files are never registered as
data."

External tampering and operator overrides are *tracked* (`trackStep`): the agreement is
claimed for untracked (node, file) pairs; a check clears the pair, an unverified transfer from
a tainted source taints its destination.  State legality is by construction of the enum types
(the database enforces it through `EnumField`); timestamps are outside the model (checked by
the correspondence run).
-/
namespace Alpen
open World

/-- run a history, carrying the tracked set along -/
def World.runTracked (w : World) (tr : Tracked) : List WOp → World × Tracked
  | [] => (w, tr)
  | op :: ops => World.runTracked (w.wstep op).1 (trackStep w tr op) ops

/-- a step that the daemon or an operator can actually issue: snapshots agree with their rows
    (rows never change file or node), a pull's source row is what the request names, … -/
def StepOK (w : World) : WOp → Prop
  | .check snap _ => ∀ x ∈ w.copies, x.id = snap.id → x.file = snap.file ∧ x.node = snap.node
  | _ => True

theorem StepOK.toOpWF {w : World} {op : WOp} (h : StepOK w op) : OpWF w op := by
  cases op <;> first | exact h | trivial

/-- **C08.1 (well-formedness)** unique (file, node), unique ids: preserved by every step -/
theorem C08_wf_step (w : World) (op : WOp) (h : w.WellFormed) (hs : StepOK w op) : (w.wstep op).1.WellFormed :=
  WellFormed_wstep op hs.toOpWF h

theorem false_of_none {α : Type} {o : Option α} (h : o.isSome = false) {a : α} (e : o = some a) : False := by
  rw [e] at h; cases h

/-! ### counterexamples to the agreement statements as originally given

`trackStep` clears the pair of a check step and (for an untainted, healthy source) the
destination pair of a pull step unconditionally, also when the step did not look at / write the
bytes; and `StepOK` does not say that the row captured by a check or delete task is a stored
row.  Four minimal counterexamples, one per side condition of `StepOK'`
(`Alpen/Lemmas/Daemon.lean`).  In all of them the start state is well formed, the step satisfies
`StepOK`, and the start state agrees with storage. -/

/-- (1) a pull onto a destination the index already records healthy only cancels the request and
    writes nothing, but `trackStep` clears the damaged destination pair -/
theorem C08_agree_step_original_false :
    ∃ (w : World) (tr : Tracked) (op : WOp), w.WellFormed ∧ StepOK w op ∧ w.Agree tr ∧
      ¬ (w.wstep op).1.Agree (trackStep w tr op) := by
  refine ⟨⟨[], [], [⟨1, 1, 1, .Y, .Y, true⟩, ⟨2, 1, 2, .Y, .Y, true⟩], [], [], [((1, 1), ⟨5, 0⟩)], [], 3⟩,
    [(2, 1)], .pull ⟨1, 1, 1, 2, false, false⟩ 2 .ok, ⟨?_, ?_, ?_, ?_⟩, trivial, ?_, ?_⟩
  · unfold UniqueCopies; decide
  · decide
  · decide
  · decide
  · intro c hc hnt hY
    simp only [List.mem_cons, List.not_mem_nil, or_false] at hc
    rcases hc with rfl | rfl
    · exact ⟨⟨5, 0⟩, by decide, fun s hs => (false_of_none (by decide) hs).elim⟩
    · exact absurd (by decide) hnt
  · intro h
    obtain ⟨d, hd, _⟩ := h ⟨2, 1, 2, .Y, .Y, true⟩ (by decide) (by decide) rfl
    exact false_of_none (by decide) hd

/-- (2) an abandoned check (`stat` failed on an existing file) changes nothing and looks at no
    bytes, but `trackStep` clears the pair -/
theorem C08_agree_step_original_false_abandoned_check :
    ∃ (w : World) (tr : Tracked) (op : WOp), w.WellFormed ∧ StepOK w op ∧ w.Agree tr ∧
      ¬ (w.wstep op).1.Agree (trackStep w tr op) := by
  refine ⟨⟨[], [⟨1, some 5, none⟩], [⟨1, 1, 1, .Y, .Y, true⟩], [], [], [((1, 1), ⟨3, 0⟩)], [], 2⟩,
    [(1, 1)], .check ⟨1, 1, 1, .Y, .Y, true⟩ false, ⟨?_, ?_, ?_, ?_⟩, ?_, ?_, ?_⟩
  · unfold UniqueCopies; decide
  · decide
  · decide
  · decide
  · show ∀ x ∈ _, _; decide
  · intro c hc hnt hY
    simp only [List.mem_cons, List.not_mem_nil, or_false] at hc
    subst hc
    exact absurd (by decide) hnt
  · intro h
    obtain ⟨d, hd, hl⟩ := h ⟨1, 1, 1, .Y, .Y, true⟩ (by decide) (by decide) rfl
    have hd' : some (⟨3, 0⟩ : OnDisk) = some d := hd
    cases hd'
    have := hl 5 (by decide)
    revert this; decide

/-- (3) a check task whose captured row is not a stored row updates no row, but `trackStep`
    clears the pair it names -/
theorem C08_agree_step_original_false_phantom_check :
    ∃ (w : World) (tr : Tracked) (op : WOp), w.WellFormed ∧ StepOK w op ∧ w.Agree tr ∧
      ¬ (w.wstep op).1.Agree (trackStep w tr op) := by
  refine ⟨⟨[], [], [⟨1, 1, 1, .Y, .Y, true⟩], [], [], [], [], 2⟩,
    [(1, 1)], .check ⟨7, 1, 1, .M, .Y, true⟩ true, ⟨?_, ?_, ?_, ?_⟩, ?_, ?_, ?_⟩
  · unfold UniqueCopies; decide
  · decide
  · decide
  · decide
  · show ∀ x ∈ _, _; decide
  · intro c hc hnt hY
    simp only [List.mem_cons, List.not_mem_nil, or_false] at hc
    subst hc
    exact absurd (by decide) hnt
  · intro h
    obtain ⟨d, hd, _⟩ := h ⟨1, 1, 1, .Y, .Y, true⟩ (by decide) (by decide) rfl
    exact false_of_none (by decide) hd

/-- (4) a delete task whose captured row is not a stored row unlinks the bytes of the stored,
    healthy row of the same (file, node) and updates no row -/
theorem C08_agree_step_original_false_phantom_delete :
    ∃ (w : World) (tr : Tracked) (op : WOp), w.WellFormed ∧ StepOK w op ∧ w.Agree tr ∧
      ¬ (w.wstep op).1.Agree (trackStep w tr op) := by
  refine ⟨⟨[⟨2, 2, 0, true, .A, none, 0, none, false⟩, ⟨3, 3, 0, true, .A, none, 0, none, false⟩], [],
      [⟨1, 1, 1, .Y, .Y, true⟩, ⟨2, 1, 2, .Y, .Y, true⟩, ⟨3, 1, 3, .Y, .Y, true⟩], [], [],
      [((1, 1), ⟨5, 0⟩)], [], 4⟩,
    [(2, 1), (3, 1)], .deleteOne ⟨9, 1, 1, .Y, .N, true⟩ false, ⟨?_, ?_, ?_, ?_⟩, trivial, ?_, ?_⟩
  · unfold UniqueCopies; decide
  · decide
  · decide
  · decide
  · intro c hc hnt hY
    simp only [List.mem_cons, List.not_mem_nil, or_false] at hc
    rcases hc with rfl | rfl | rfl
    · exact ⟨⟨5, 0⟩, by decide, fun s hs => (false_of_none (by decide) hs).elim⟩
    · exact absurd (by decide) hnt
    · exact absurd (by decide) hnt
  · intro h
    obtain ⟨d, hd, _⟩ := h ⟨1, 1, 1, .Y, .Y, true⟩ (by decide) (by decide) rfl
    exact false_of_none (by decide) hd

/-- **C08.2 (agreement, one step)**
    CHANGED w.r.t. the original statement: hypothesis `hs' : StepOK' w op` added
    (`Alpen/Lemmas/Daemon.lean`): (a) the row captured by a check task is a stored row and the
    check reaches a verdict (`stat` did not fail on an existing file); (b) the row captured by a
    delete task is a stored row with that id, file and node; (c) a pull step that finds its
    destination already recorded healthy (and therefore only cancels the request) finds the
    destination bytes intact — every pull that actually runs (`filecopyState r.file dest ≠ Y`)
    satisfies (c) vacuously.  (a, existence) and (b) hold of real tasks (rows are never removed);
    (a, verdict) and (c) compensate for `trackStep` clearing a pair on steps that neither read nor
    wrote its bytes.  Without each of them the statement is false:
    `C08_agree_step_original_false` (c), `…_abandoned_check`, `…_phantom_check` (a),
    `…_phantom_delete` (b). -/
theorem C08_agree_step (w : World) (tr : Tracked) (op : WOp) (hwf : w.WellFormed) (hs : StepOK w op)
    (hs' : StepOK' w op)
    (h : w.Agree tr) : (w.wstep op).1.Agree (trackStep w tr op) :=
  Agree_wstep w tr op hwf hs.toOpWF hs' h

/-- COUNTEREXAMPLE to `C08_history` as originally given: external damage to a destination copy
    followed by a late pull onto that destination (which only cancels the request) leaves the
    damaged pair untracked. -/
theorem C08_history_original_false :
    ∃ (w0 : World) (tr0 : Tracked) (ops : List WOp), w0.WellFormed ∧ w0.Agree tr0 ∧
      (∀ t ∈ World.trace w0 ops, StepOK t.1 t.2.1) ∧
      ¬ ((World.runTracked w0 tr0 ops).1.WellFormed ∧
         (World.runTracked w0 tr0 ops).1.Agree (World.runTracked w0 tr0 ops).2) := by
  refine ⟨⟨[], [], [⟨1, 1, 1, .Y, .Y, true⟩, ⟨2, 1, 2, .Y, .Y, true⟩], [], [],
      [((1, 1), ⟨5, 0⟩), ((2, 1), ⟨5, 0⟩)], [], 3⟩,
    [], [.fault 2 1 none, .pull ⟨1, 1, 1, 2, false, false⟩ 2 .ok], ⟨?_, ?_, ?_, ?_⟩, ?_, ?_, ?_⟩
  · unfold UniqueCopies; decide
  · decide
  · decide
  · decide
  · intro c hc hnt hY
    simp only [List.mem_cons, List.not_mem_nil, or_false] at hc
    rcases hc with rfl | rfl
    · exact ⟨⟨5, 0⟩, by decide, fun s hs => (false_of_none (by decide) hs).elim⟩
    · exact ⟨⟨5, 0⟩, by decide, fun s hs => (false_of_none (by decide) hs).elim⟩
  · intro t ht
    simp only [World.trace, List.mem_cons, List.not_mem_nil, or_false] at ht
    rcases ht with rfl | rfl <;> trivial
  · rintro ⟨_, h⟩
    obtain ⟨d, hd, _⟩ := h ⟨2, 1, 2, .Y, .Y, true⟩ (by decide) (by decide) rfl
    exact false_of_none (by decide) hd

/-- **C08 (history)** from a well-formed, agreeing start, after every history of operator
    commands, task steps of all daemons and tracked faults, the index is well formed and agrees
    with storage on every untracked pair.
    CHANGED w.r.t. the original statement: hypothesis `hok'` added — every step of the history
    satisfies `StepOK'` (see `C08_agree_step`).  Without it the statement is false:
    `C08_history_original_false`. -/
theorem C08_history (w0 : World) (tr0 : Tracked) (ops : List WOp) (hwf : w0.WellFormed) (hag : w0.Agree tr0)
    (hok : ∀ t ∈ World.trace w0 ops, StepOK t.1 t.2.1)
    (hok' : ∀ t ∈ World.trace w0 ops, StepOK' t.1 t.2.1) :
    (World.runTracked w0 tr0 ops).1.WellFormed ∧ (World.runTracked w0 tr0 ops).1.Agree (World.runTracked w0 tr0 ops).2 := by
  induction ops generalizing w0 tr0 with
  | nil => exact ⟨hwf, hag⟩
  | cons op ops ih =>
    have h1 : StepOK w0 op := hok (w0, op, (w0.wstep op).2) (List.mem_cons_self ..)
    have h2 : StepOK' w0 op := hok' (w0, op, (w0.wstep op).2) (List.mem_cons_self ..)
    exact ih (w0.wstep op).1 (trackStep w0 tr0 op) (C08_wf_step w0 op hwf h1)
      (C08_agree_step w0 tr0 op hwf h1 h2 hag)
      (fun t ht => hok t (List.mem_cons_of_mem _ ht)) (fun t ht => hok' t (List.mem_cons_of_mem _ ht))

/-- **C08.3 (removed by the daemon ⇒ gone)** a delete step that records the copy removed leaves
    nothing at its path -/
theorem C08_deleted_is_gone (w : World) (c : WCopy) (uf : Bool)
    (h : Eff.setCopy c.id .N .N ∈ (w.deleteOne c uf).2) :
    (w.deleteOne c uf).1.diskAt c.node c.file = none :=
  deleteOne_gone w c uf h

/-- **C08.4 (completed ⇒ copy recorded in the destination group)** rows are never removed, so it
    suffices at the completing step: the destination node is in the request's group -/
theorem C08_completed_has_copy (w : World) (r : WReq) (dest : Nat) (t : World.Transfer)
    (hg : w.groupOfNode dest = some r.groupTo)
    (h : Eff.reqCompleted r.id ∈ (w.pullTask r dest t).2) :
    ∃ c ∈ (w.pullTask r dest t).1.copies, c.file = r.file ∧ (w.pullTask r dest t).1.groupOfNode c.node = some r.groupTo :=
  pullTask_completed_has_copy w r dest t hg h

/-- copy rows are never removed by any step -/
theorem C08_rows_persist (w : World) (op : WOp) (x : WCopy) (hx : x ∈ w.copies) :
    ∃ y ∈ (w.wstep op).1.copies, y.id = x.id :=
  wstep_rows_persist w op x hx

end Alpen
