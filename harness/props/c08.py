"""C08 — index well-formedness and index/storage agreement over real multi-daemon histories (runner shared with C07)."""
import json
import random

import common
import env as envmod
from props import c07

MODULE = "Alpen.Props.C08"


def run(ctx):
    ok = common.proof_stage(ctx, MODULE)
    rng = ctx.rng
    nh = 60 if ctx.quick() else 2000
    with envmod.Env(dbfile=True) as e:     # file database: persistent daemon loops and two-worker passes need threads
        for i in range(nh):
            hseed = f"{ctx.prop}-{ctx.seed}-h{i}"
            hr = random.Random(hseed)
            case, p7, p8, log = c07.run_history(ctx, e, hr, hr.randint(10, 35), conc=True)
            ctx.case(tuple(log), nontrivial=len(log) > 5, sample={"history": log[:25], "tracked_pairs": sorted(case.tracked)} if i == 0 else None)
            ctx.count("history:steps", len(log))
            ctx.count("history:tasks", sum(1 for l in log if l.startswith("task")))
            for item in p8:
                p, ctxlog = item if isinstance(item, tuple) else (item, log[-6:])
                ctx.violation("index:" + p[:40].replace(" ", "_"), p, {"kind": "dhistory", "hseed": hseed, "last_steps": ctxlog, "history": log})
    ctx.coverage["rule"] = ("same multi-daemon histories as C07; after every step the real index and all node trees are checked: unique "
                            "(file,node) and (acq,name), legal states, completed request => ordered timestamps and a copy in its group, "
                            "healthy untracked copy => bytes present with the registered length, no dot-prefixed name registered; external "
                            "damage and operator overrides are tracked, a check clears, an unverified transfer from a tainted source taints. "
                            "distinct = history log")
    from props.c06 import finish_search
    finish_search(ctx, ok)


def replay(ctx, path):
    """re-run the recorded history (same per-history seed) on the current tree and report what the oracle says now"""
    d = json.load(open(path))
    print(json.dumps({k: d[k] for k in d if k != "history"}, indent=1)[:3000])
    if "hseed" not in d:
        return 1
    with envmod.Env(dbfile=True) as e:
        hr = random.Random(d["hseed"])
        case, p7, p8, log = c07.run_history(ctx, e, hr, hr.randint(10, 35), conc=True)
    for l in log:
        print("  ", l[:200])
    for item in p8:
        print("VIOLATION-REPRODUCED:", item[0] if isinstance(item, tuple) else item)
    return 1 if p8 else 0
