"""C02 — transfers: real update_pull / pre-pull search / pull_async with scripted transports and DB faults vs the Lean World model."""
import json
import os

import common
import env as envmod
import wharness
import world as worldmod
from props import c01

MODULE = "Alpen.Props.C02"
WEIGHTS = {"transfer": 7, "pull": 1, "search": 1, "decide": 1, "check": 1, "op": 3, "fault": 0.8, "delete": 0.7}


def judge_pull(d, copies_before, req_before):
    """oracle from the property text for one real pull step"""
    probs = []
    if d.get("raised"):
        probs.append(f"the pull task raised {d['raised']} (an uncaught exception in a task aborts the daemon)")
    newly_completed = d["completed"] and not req_before[0]
    dest_state_before = copies_before.get((d["file"], d["dest"]), "N")
    if newly_completed:
        if d["dst_after"] is None or d["dst_after"] != d["src"]:
            probs.append("request completed but the destination bytes differ from the source's")
        if d["route"] in ("bbcp-only", "both") or d["transfer"] == "digestMismatch":
            pass
    already = dest_state_before == "Y"
    if not d["completed"] and not already and d["transfer"] != "noRoute":
        if d["dst_after"] is not None:
            probs.append(f"transfer failed ({d['transfer']}) but a file remains at the destination path")
    if d["leftovers"]:
        probs.append(f"leftover temporary/placeholder files after the pull: {d['leftovers']}")
    if d["reserved_after"] != 0:
        probs.append(f"{d['reserved_after']} bytes still reserved after the pull task ended")
    return probs


def stage_group_queries(ctx, drv, rng, n):
    """`StorageGroup.state_on_node` (what decides `force`) vs Lean `groupState`, and the real `update_pull` decision vs
    `updatePull`, on groups with SEVERAL nodes and copy rows in random insertion order"""
    import world as worldmod
    import alpenhorn.daemon.update as upd
    from alpenhorn.scheduler import FairMultiFIFOQueue
    with envmod.Env() as e:
        lines, metas = [], []
        for i in range(n):
            w = worldmod.World(e)
            db = w.db
            for m in (db.StorageTransferAction, db.ArchiveFileCopyRequest, db.ArchiveFileImportRequest, db.ArchiveFileCopy,
                      db.ArchiveFile, db.ArchiveAcq, db.StorageNode, db.StorageGroup):
                m.delete().execute()
            import shutil
            shutil.rmtree(os.path.join(e.tmp, "roots"), ignore_errors=True)
            groups = [w.group(f"g{k}") for k in range(rng.randint(1, 3))]
            nodes = []
            for g in groups:
                for k in range(rng.randint(1, 3)):
                    nodes.append(w.node(f"{g.name}n{k}", g, host="h1", stype=rng.choice("AAF")))
            acq = w.acq("acq")
            files = [w.file(acq, f"f{k}.dat", b"x" * (k + 1)) for k in range(rng.randint(1, 2))]
            pairs = [(f, nd) for f in files for nd in nodes]
            rng.shuffle(pairs)                      # insertion order = row order of the unordered SELECT
            for f, nd in pairs:
                if rng.random() < 0.7:
                    w.copy(f, nd, has=rng.choice("YMXN"), wants=rng.choice("YYN"), on_disk=None)
            L = ["w.reset"]
            for nd in nodes:
                L.append(f"w.node {nd.id} {nd.group_id} 1 1 {nd.storage_type} - 0 - 0")
            for f in files:
                L.append(f"w.file {f.id} {f.size_b} 1")
            for c in db.ArchiveFileCopy.select().order_by(db.ArchiveFileCopy.id):
                L.append(f"w.copy {c.id} {c.file_id} {c.node_id} {c.has_file} {c.wants_file} 1")
            lines += L
            for g in groups:
                for f in files:
                    real, _node = db.StorageGroup.get(id=g.id).state_on_node(db.ArchiveFile.get(id=f.id))
                    lines.append(f"w.q groupState {g.id} {f.id}")
                    states = sorted(c.has_file for c in db.ArchiveFileCopy.select().join(db.StorageNode)
                                    .where(db.StorageNode.group == g.id, db.ArchiveFileCopy.file == f.id))
                    metas.append((len(lines) - 1, real, states, [l for l in L if l.startswith("w.copy")]))
        outs = drv.batch(lines)
        for idx, real, states, rows in metas:
            ctx.case(("groupState", tuple(rows), idx), nontrivial=len(states) > 1,
                     sample={"copy_states_in_group": states, "state_on_node": real, "model": outs[idx]} if len(states) > 2 and len(ctx.samples) < 4 else None)
            ctx.count(f"groupState:{len(states)}-rows")
            # independent oracle: precedence Y > M > X > N over all rows
            want = "Y" if "Y" in states else "M" if "M" in states else "X" if "X" in states else "N"
            if real != want:
                ctx.violation("group-state:precedence", f"StorageGroup.state_on_node gives {real!r} for a group whose copies of the file "
                              f"are {states} (expected {want!r}: healthy, then awaiting-check, then corrupt): a state of 'X' makes the "
                              f"next pull overwrite the destination", {"kind": "group-state", "copy_rows_in_insertion_order": rows})
            if outs[idx].strip() != real and len(ctx.corr_broken) < 5:
                ctx.corr_broken.append({"stream": "state_on_node-vs-groupState", "rows": rows, "real": real, "model": outs[idx]})


def corpus_transport_force(ctx):
    """regression corpus (known finding F11): a Transport group, a copy recorded corrupt on a node that is short of space,
    and a never-verified file at the same path on another node of the group; the forced re-pull goes to the other node"""
    import world as worldmod
    with envmod.Env() as e:
        w = worldmod.World(e)
        gs, gt = w.group("gs"), w.group("gt", io_class="Transport")
        src = w.node("src", gs, stype="F")
        t1 = w.node("t1", gt, stype="T", min_kib=2 ** 40)      # hopelessly below its minimum free space
        t2 = w.node("t2", gt, stype="T")
        f = w.file(w.acq("acq"), "f.dat", b"good-bytes")
        w.copy(f, src, has="Y")
        w.copy(f, t1, has="X", on_disk=b"corrupt!!!")
        stray = b"unregistered, never verified"
        w.put_bytes(t2, f, stray)
        w.req(f, src, gt)
        os.environ["PATH"] = os.path.join(wharness.FAKE, "none")
        try:
            d = worldmod.Daemon(e, "h1")
            for _ in range(3):
                d.iterate()
                d.drain()
        finally:
            os.environ["PATH"] = "/usr/local/bin:/usr/bin:/bin"
        now = w.file_on(t2, f)
        c2 = w.db.ArchiveFileCopy.get_or_none(file=f.id, node=t2.id)
        ctx.case(("corpus", "transport-force"), nontrivial=True)
        if now != stray:
            return [f"forced pull into Transport group gt (copy recorded corrupt on t1, which is below its minimum free space) went to node "
                    f"t2 and overwrote the file already at that path there ({stray!r} -> {now!r}), which no check had verified corrupt "
                    f"(its copy row before: none; now {c2.has_file if c2 else None})"]
    return []


def corpus_transport_exists(ctx):
    """Transport destination groups, enumerated: 2-3 transport nodes, which of them is the fullest (the one a pull is handed
    to), on which of them a file already sits at the request's path (never registered; right or wrong bytes) or is recorded
    corrupt / suspect / healthy; the real daemon runs passes and tasks one by one.  Oracle (last sentence of the property):
    a file that was at the destination path before a task and has other bytes after it had been recorded corrupt first."""
    import itertools
    import shutil
    import world as worldmod
    probs = []
    with envmod.Env() as e:
        for k, full, at, pre in itertools.product([2, 3], [0, 1, 2], [0, 1, 2], ["stray-bad", "stray-good", "M-bad", "X", "Y-bad"]):
            if full >= k or at >= k:
                continue
            w = worldmod.World(e)
            db = w.db
            for m in (db.StorageTransferAction, db.ArchiveFileCopyRequest, db.ArchiveFileImportRequest, db.ArchiveFileCopy,
                      db.ArchiveFile, db.ArchiveAcq, db.StorageNode, db.StorageGroup):
                m.delete().execute()
            shutil.rmtree(os.path.join(e.tmp, "roots"), ignore_errors=True)
            gs, gt = w.group("gs"), w.group("gt", io_class="Transport")
            src = w.node("src", gs, stype="F")
            ts = [w.node(f"t{i}", gt, stype="T", avail_kib=(10 if i == full else 1000 + i) * 2 ** 10) for i in range(k)]
            good = b"the registered content"
            f = w.file(w.acq("acq"), "f.dat", good)
            w.copy(f, src, has="Y")
            bad = b"something else entirely"
            if pre.startswith("stray"):
                w.put_bytes(ts[at], f, bad if pre == "stray-bad" else good)
            else:
                w.copy(f, ts[at], has=pre[0], on_disk=good if pre == "X" and False else bad)
            w.req(f, src, gt)
            os.environ["PATH"] = os.path.join(wharness.FAKE, "none")
            log = [f"{k} transport nodes, fullest t{full}; at the path on t{at}: {pre}"]
            # the main loop measures free space itself: scripted per root
            real_statvfs = os.statvfs
            free = {n.root: (10 if i == full else 1000 + i) * 2 ** 20 for i, n in enumerate(ts)}

            class SV:
                def __init__(self, b):
                    self.f_bavail, self.f_bsize = b, 1
            os.statvfs = lambda path, _f=free: SV(_f[str(path)]) if str(path) in _f else real_statvfs(path)
            try:
                d = worldmod.Daemon(e, "h1")
                for ps in range(4):
                    d.iterate()
                    for _ in range(12):
                        before = {n.id: w.file_on(n, f) for n in ts}
                        rows = {c.node_id: c.has_file for c in db.ArchiveFileCopy.select().where(db.ArchiveFileCopy.file == f.id)}
                        r = d.run_task()
                        if r is None:
                            break
                        log.append(f"pass {ps + 1}: {r[1]}")
                        for n in ts:
                            now = w.file_on(n, f)
                            if before[n.id] is not None and now is not None and now != before[n.id] and rows.get(n.id) != "X":
                                probs.append((f"task '{r[1]}' replaced the file at the destination path on transport node {n.name} "
                                              f"({before[n.id]!r} -> {now!r}) although no check had recorded it corrupt (copy row before: "
                                              f"{rows.get(n.id)})", list(log)))
            finally:
                os.statvfs = real_statvfs
                os.environ["PATH"] = "/usr/local/bin:/usr/bin:/bin"
            rq = db.ArchiveFileCopyRequest.get()
            ctx.case(("transport-exists", k, full, at, pre), nontrivial=True,
                     sample={"scenario": log, "request completed": bool(rq.completed)} if (k, full, at, pre) == (3, 1, 1, "stray-bad") else None)
            ctx.count(f"transport-exists:{pre}:{'completed' if rq.completed else 'cancelled' if rq.cancelled else 'pending'}")
    return probs


def stage_grid(ctx, drv):
    """the property's quantifier as a grid instead of a sample: every source kind (local same class -> hard link, local other
    class -> rsync / internal copy, remote with and without route) x every transport / tool outcome the real code can be driven
    into for that pair x every pre-existing destination state (absent, unregistered file, recorded N / X / M / Y), each run
    through the daemon's own chain decide -> search -> pull; same oracles and model comparison as the random histories"""
    rng = ctx.rng
    results = []
    all_lines, spans, all_exp = [], [], []
    with envmod.Env() as e:
        probe = wharness.Case(e, rng)
        srckinds = [("local-same", "h1", "A", "A", True), ("local-other", "h1", "F", "A", True),
                    ("remote", "h2", "A", "A", True), ("remote-noroute", "h2", "A", "A", False)]
        prestates = ["absent", "stray", "N", "X", "M", "Y"]
        for (sk, shost, stype, dtype, routed) in srckinds:
            # the options depend only on (host, classes, route)
            class _N:      # minimal stand-ins for feasible_transfers
                pass
            a, b = _N(), _N()
            a.host, a.storage_type, a.address, a.username = shost, stype, ("addr" if routed else None), ("user" if routed else None)
            b.storage_type = dtype
            for opt in probe.feasible_transfers(a, b):
                for pre in prestates:
                    w = worldmod.World(e)
                    db = w.db
                    for m in (db.StorageTransferAction, db.ArchiveFileCopyRequest, db.ArchiveFileImportRequest, db.ArchiveFileCopy,
                              db.ArchiveFile, db.ArchiveAcq, db.StorageNode, db.StorageGroup):
                        m.delete().execute()
                    import shutil
                    shutil.rmtree(os.path.join(e.tmp, "roots"), ignore_errors=True)
                    case = wharness.Case.__new__(wharness.Case)
                    case.env, case.rng, case.w, case.dg = e, rng, w, {}
                    g1, g2 = w.group("g1"), w.group("g2")
                    src = w.node("n1", g1, host=shost, stype=stype, address="addr" if routed else None, username="user" if routed else None)
                    dst = w.node("n2", g2, host="h1", stype=dtype)
                    case.groups, case.nodes = [g1, g2], [src, dst]
                    acq = w.acq("acq")
                    data = bytes(rng.getrandbits(8) for _ in range(40))
                    f = w.file(acq, rng.choice(["f.dat", "sub/f.dat"]), data)
                    case.acq, case.files = acq, [f]
                    w.copy(f, src, has="Y", wants="Y", on_disk=data)
                    if pre == "stray":
                        w.put_bytes(dst, f, b"stray bytes, never registered")
                    elif pre != "absent":
                        on = None if pre == "N" else (data if pre in ("Y", "M") else b"corrupt corrupt")
                        w.copy(f, dst, has=pre, wants="Y" if pre != "N" else "N", on_disk=on)
                    rq = w.req(f, src, g2)
                    lines = case.setup_lines() + ["w.dump"]
                    exp = [None] * (len(lines) - 1) + [case.real_dump()]
                    problems, steps = [], []
                    try:
                        sub = wharness.transfer_chain(case, rq, problems, want=opt)
                    except Exception as ex:  # noqa
                        import traceback
                        ctx.violation("grid:raised", f"the transfer chain raised {type(ex).__name__}: {ex} (source {sk}, option {opt}, "
                                      f"destination {pre})", {"kind": "grid", "source": sk, "option": list(opt), "pre": pre,
                                                              "trace": traceback.format_exc(limit=4)[-500:]})
                        continue
                    for (l, dd) in sub or []:
                        for l_ in l.split("\n"):
                            lines.append(l_); exp.append(None)
                        lines.append("w.dump"); exp.append(None)
                        steps.append(dd)
                    exp[-1] = case.real_dump()
                    h = dict(lines=lines, exp=exp, steps=steps, problems=problems, meta=(sk, opt, pre))
                    spans.append((len(all_lines), len(all_lines) + len(lines)))
                    all_lines += lines
                    all_exp += exp
                    results.append(h)
                    ctx.count(f"grid:{sk}:{opt[0]}:{pre}")
                    ctx.case(("grid", sk, opt, pre), nontrivial=True,
                             sample={"source": sk, "transport/tool outcome": list(opt), "destination before": pre,
                                     "steps": [(d.get("kind"), d.get("decision") or d.get("transfer") or d.get("passOn")) for d in steps]}
                             if len(ctx.samples) < 8 and opt[0] != "ok" and pre == "X" else None)
        outs = drv.batch(all_lines)
        for h, (a_, b_) in zip(results, spans):
            L, X, O = all_lines[a_:b_], all_exp[a_:b_], outs[a_:b_]
            for i, (l, x, o) in enumerate(zip(L, X, O)):
                if x is not None and x != o:
                    if len(ctx.corr_broken) < 5:
                        ctx.corr_broken.append(dict(stream="transfer-grid-vs-World", case=[h["meta"][0], list(h["meta"][1]), h["meta"][2]],
                                                    op=L[i - 1], real=x[:500], model=o[:500]))
                    break
    return results


def run(ctx):
    ok = common.proof_stage(ctx, MODULE)
    drv = common.Driver()
    rng = ctx.rng
    n = 200 if ctx.quick() else 5000
    # the history runner of C01 with pull-heavy weights; per-pull oracles need the state before each step, so wrap step_pull
    orig = wharness.Case.step_pull

    def wrapped(self, req_row, dest, want=None):
        db = self.w.db
        cb = {(c.file_id, c.node_id): c.has_file for c in db.ArchiveFileCopy.select()}
        rb = (bool(req_row.completed), bool(req_row.cancelled))
        fresh = db.ArchiveFileCopyRequest.get(id=req_row.id)
        rb = (bool(fresh.completed), bool(fresh.cancelled))
        line, d = orig(self, req_row, dest, want)
        d["problems"] = judge_pull(d, cb, rb)
        # healthy destination copy recorded <=> request completed by this step
        after = {(c.file_id, c.node_id): c.has_file for c in db.ArchiveFileCopy.select()}
        became_y = after.get((d["file"], d["dest"])) == "Y" and cb.get((d["file"], d["dest"])) != "Y"
        if not rb[0] and not rb[1] and became_y != d["completed"]:
            d["problems"].append("healthy destination copy recorded without completing the request (or vice versa)")
        src_state = after.get((d["file"], d["src_node"]))
        src_before = cb.get((d["file"], d["src_node"]))
        if d["transfer"] in ("failedCheckSrc", "digestMismatch") and cb.get((d["file"], d["dest"])) != "Y":
            if src_before is not None and src_state != "M":
                d["problems"].append(f"transfer failed in a way that may be the source's fault ({d['transfer']}) but the source copy is {src_state}")
        if d["transfer"] in ("failedNoCheck", "noRoute", "ok") and src_state != src_before:
            d["problems"].append(f"source copy state changed {src_before}->{src_state} although the source cannot be at fault ({d['transfer']})")
        return line, d
    wharness.Case.step_pull = wrapped
    try:
        results = c01.run_histories(ctx, WEIGHTS, n, 10, "daemon-steps-vs-World(C02)", space_pressure=False)
        results = results + stage_grid(ctx, drv)          # same per-pull oracles (the wrapper is still installed)
    finally:
        wharness.Case.step_pull = orig
    for h in results:
        for s in h["steps"]:
            for p in s.get("problems", []):
                ctx.violation("pull:" + p[:45].replace(" ", "_"), p + f" [transfer={s['transfer']} route={s['route']} mode={s['mode']}]",
                              {"kind": "history", "ops": [l for l in h["lines"] if l.startswith("w.")], "step": {k: v for k, v in s.items() if k not in ("src", "dst_before", "dst_after")}})
        for (cls, msg, d) in h["problems"]:
            if cls in ("healthy-touched", "overwrite"):
                ctx.violation(cls, msg, {"kind": "history", "ops": [l for l in h["lines"] if l.startswith("w.")]})
    stage_group_queries(ctx, drv, rng, 150 if ctx.quick() else 4000)
    for p in corpus_transport_force(ctx):
        ctx.violation("transport-force-overwrites-unverified", p, {"kind": "corpus", "name": "transport forced pull"})
    for p, lg in corpus_transport_exists(ctx):
        ctx.violation("transport-exists:overwrite", p, {"kind": "corpus", "name": "transport group, file already at the path", "steps": lg})
    # all-or-nothing under DB faults at every statement of the pull task (shared machinery with C10)
    scen = [("pull", 0, "none", "ok"), ("pull", 1, "rsync-only", "ok"), ("pull", 1, "rsync-only", "partial"), ("search", 0, "none", "ok")]
    with envmod.Env() as e:
        for kind, variant, route, mode in scen:
            ref = None
            for res in wharness.fault_sweep(e, kind, variant=variant, pathdir=route, mode=mode):
                if res["k"] < 0:
                    ref = res
                    continue
                ctx.case(("fault", kind, variant, route, mode, res["k"]), nontrivial=True)
                ctx.count("fault-sweep:" + kind)
                for p in wharness.judge_fault(res, ref):
                    if "half-applied" in p or "completed" in p or "bytes" in p:
                        ctx.violation("txn:" + p[:30], f"{kind} with a DB error at statement {res['k']}: {p}",
                                      {"kind": "fault", "task": kind, "variant": variant, "route": route, "k": res["k"], "after": res["after"]})
    ctx.coverage["rule"] = ("random two-host worlds and histories dominated by update_pull decisions, pre-pull searches and pull tasks; every "
                            "pull is driven through one of the feasible routes (hard link, fake rsync ok/fail-src/partial/mkstemp/write, "
                            "fake bbcp ok/bad digest/garbled, internal copy, no tool, no route; local and remote sources) onto destinations "
                            "that are absent / unregistered file / recorded N,X,M,Y; index+storage compared with the Lean model after each "
                            "step; oracles on completion, clean failure, leftovers, overwrite, source flagging, reservation; plus a DB "
                            "fault at every statement of the pull task. distinct = op sequence")
    from props.c06 import finish_search
    finish_search(ctx, ok)


def replay(ctx, path):
    import sys
    return common.replay_by_rerun(ctx, path, sys.modules[__name__])
