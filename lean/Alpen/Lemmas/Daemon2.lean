import Alpen.Model.Daemon
import Alpen.Lemmas.World
import Alpen.Lemmas.Seen
/-! helper lemmas for C05 (progress / classification) and C09 (crash prefixes) -/
namespace Alpen
open World
namespace World

/-! ### check -/

theorem checkVerdict_statOk (o : Observed) (rs : Option Nat) (rd : Option Str) (hs : o.statOk = true) :
    ∃ h, h ≠ Has.M ∧ checkVerdict o rs rd = some h := by
  unfold checkVerdict
  rw [hs]
  cases o.exists_ <;> cases rs <;> simp only [Bool.not_true, Bool.not_false, Bool.false_eq_true, if_true, if_false]
  all_goals (repeat' split)
  all_goals first | exact ⟨.N, by decide, rfl⟩ | exact ⟨.X, by decide, rfl⟩ | exact ⟨.Y, by decide, rfl⟩

/-- a check whose `stat` succeeds always writes a verdict other than `M` -/
theorem checkStep_true_eq (w : World) (snap : WCopy) :
    ∃ h, h ≠ Has.M ∧ w.checkStep snap true =
      (w.mapCopy snap.id (fun _ => { snap with has := h }), [.setCopy snap.id h snap.wants]) := by
  unfold checkStep
  dsimp only
  have ho : (match w.diskAt snap.node snap.file with
    | some d => (⟨true, true, d.len, some [Char.ofNat d.digest]⟩ : Observed)
    | none => ⟨false, true, 0, none⟩).statOk = true := by split <;> rfl
  obtain ⟨h, hne, hv⟩ := checkVerdict_statOk _ ((w.file? snap.file).bind (·.size))
    (((w.file? snap.file).bind (·.md5)).map (fun d => [Char.ofNat d])) ho
  refine ⟨h, hne, ?_⟩
  split
  · rename_i heq
    have := heq.symm.trans hv
    cases this
  · rename_i h' heq
    have := heq.symm.trans hv
    cases this
    rfl

/-! ### delete -/

theorem deleteOne_go (w : World) (c : WCopy)
    (h : ¬ (w.archiveCount c.file < copiesRequired (w.isArchive c.node))) :
    w.deleteOne c false =
      ((w.setDisk c.node c.file none).mapCopy c.id (fun x => { x with has := .N, wants := .N }),
       (if (w.diskAt c.node c.file).isSome then [Eff.unlink c.node c.file] else []) ++ [.setCopy c.id .N .N]) := by
  unfold deleteOne
  rw [if_neg h]
  simp

/-! ### `update_pull` -/

/-- every outcome of `update_pull` with the reason for it -/
theorem updatePull_cases (w : World) (r : WReq) (sr : Bool) :
    (w.updatePull r sr = .cancelPresent ∧ w.groupState r.groupTo r.file = .Y) ∨
    (w.updatePull r sr = .skipDestSuspect ∧ w.groupState r.groupTo r.file = .M) ∨
    (w.updatePull r sr = .skipSourceInactive ∧ ∀ n, w.node? r.nodeFrom = some n → n.active = false) ∨
    (w.updatePull r sr = .cancelSourceMissing) ∨
    (w.updatePull r sr = .skipSourceSuspect ∧ w.filecopyState r.file r.nodeFrom = .M) ∨
    (w.updatePull r sr = .skipNotReady ∧ sr = false) ∨
    (∃ f, w.updatePull r sr = .dispatch f) := by
  unfold updatePull
  cases hg : w.groupState r.groupTo r.file <;> cases hn : w.node? r.nodeFrom <;> simp
  all_goals
    rename_i src
    cases ha : src.active <;> cases hs : w.filecopyState r.file r.nodeFrom <;> cases sr <;> simp

/-! ### "the table changes" -/

theorem map_eq_self_mem {α} (f : α → α) (l : List α) (h : l.map f = l) : ∀ x ∈ l, f x = x := by
  induction l with
  | nil => intro x hx; cases hx
  | cons a as ih =>
    rw [List.map_cons] at h
    injection h with h1 h2
    intro x hx
    rcases List.mem_cons.mp hx with rfl | hx
    · exact h1
    · exact ih h2 x hx

theorem mapCopy_fixed {w : World} {id : Nat} {g : WCopy → WCopy}
    (h : (w.mapCopy id g).copies = w.copies) : ∀ x ∈ w.copies, x.id = id → g x = x := by
  intro x hx hid
  have := map_eq_self_mem _ _ h x hx
  simpa [hid] using this

theorem mapReq_fixed {w : World} {id : Nat} {g : WReq → WReq}
    (h : (w.mapReq id g).reqs = w.reqs) : ∀ x ∈ w.reqs, x.id = id → g x = x := by
  intro x hx hid
  have := map_eq_self_mem _ _ h x hx
  simpa [hid] using this

theorem find?_id_of_mem (l : List WCopy) (hn : (l.map (·.id)).Nodup) (c : WCopy) (hc : c ∈ l) :
    l.find? (·.id == c.id) = some c := by
  cases hf : l.find? (·.id == c.id) with
  | none =>
    rw [List.find?_eq_none] at hf
    exact absurd (by simp) (hf c hc)
  | some c' =>
    have h1 := List.mem_of_find?_eq_some hf
    have h2 : c'.id = c.id := by simpa using List.find?_some hf
    rw [eq_of_id_eq l hn h1 hc h2]

theorem req_eq_of_id_eq (l : List WReq) (hn : (l.map (·.id)).Nodup) {a b : WReq}
    (ha : a ∈ l) (hb : b ∈ l) (h : a.id = b.id) : a = b := by
  induction l with
  | nil => cases ha
  | cons x xs ih =>
    rw [List.map_cons, List.nodup_cons] at hn
    rcases List.mem_cons.mp ha with rfl | ha' <;> rcases List.mem_cons.mp hb with rfl | hb'
    · rfl
    · exact absurd (List.mem_map.mpr ⟨b, hb', h.symm⟩) hn.1
    · exact absurd (List.mem_map.mpr ⟨a, ha', h⟩) hn.1
    · exact ih hn.2 ha' hb'

/-- what `update_delete` selects is a stored row that is present in some form -/
theorem updateDelete_has (w : World) (n id : Nat) (hid : id ∈ w.updateDelete n) :
    ∃ c ∈ w.copies, c.id = id ∧ c.has ≠ .N := by
  unfold updateDelete at hid
  split at hid
  · cases hid
  · obtain ⟨d, hd, rfl⟩ := List.mem_map.mp hid
    unfold selectDelete at hd
    have hsub := (selectLoop_sublist _ _ _).subset hd
    obtain ⟨hdm, hcand⟩ := List.mem_filter.mp hsub
    unfold dcopiesOf at hdm
    obtain ⟨c, hc, rfl⟩ := List.mem_map.mp hdm
    exact ⟨c, (List.mem_filter.mp hc).1, rfl, (candidate_spec _ _ hcand).1⟩

end World

/-! ### membership in `iterateOps` -/

theorem mem_iterateOps_check (w : World) (hv : HostView) (c : WCopy) (hc : c ∈ w.copies)
    (hn : c.node ∈ w.usableIds hv) (hM : c.has = .M) (hw : c.wants ≠ .N) :
    WOp.check c true ∈ iterateOps w hv := by
  unfold iterateOps
  dsimp only
  refine List.mem_append_left _ (List.mem_append_left _ (List.mem_map.mpr ⟨c, List.mem_filter.mpr ⟨hc, ?_⟩, rfl⟩))
  simp [hn, hM, hw]

theorem mem_iterateOps_delete (w : World) (hv : HostView) (hids : (w.copies.map (·.id)).Nodup)
    (n : Nat) (hn : n ∈ w.usableIds hv) (c : WCopy) (hc : c ∈ w.copies) (hid : c.id ∈ w.updateDelete n) :
    WOp.deleteOne c false ∈ iterateOps w hv := by
  unfold iterateOps
  dsimp only
  refine List.mem_append_left _ (List.mem_append_right _ (List.mem_flatMap.mpr ⟨n, hn, ?_⟩))
  refine List.mem_filterMap.mpr ⟨c.id, hid, ?_⟩
  rw [find?_id_of_mem w.copies hids c hc]
  rfl

/-- `r` is the first pending request for its file into its group (the one `seen_files` lets through) -/
def World.FirstPending (w : World) (hv : HostView) (r : WReq) : Prop :=
  ∃ pre post, w.pendingInto hv = pre ++ r :: post ∧ ∀ q ∈ pre, (q.file, q.groupTo) ≠ (r.file, r.groupTo)

theorem mem_iterateOps_decide (w : World) (hv : HostView) (r : WReq) (hfirst : w.FirstPending hv r) :
    WOp.decide r true ∈ iterateOps w hv := by
  unfold iterateOps
  dsimp only
  obtain ⟨pre, post, heq, hpre⟩ := hfirst
  refine List.mem_append_right _ (List.mem_map.mpr ⟨r, ?_, rfl⟩)
  rw [heq]
  exact firstPerFile_first [] pre post r (by simp) hpre

theorem mem_pendingInto (w : World) (hv : HostView) (r : WReq) (hr : r ∈ w.reqs)
    (hc : r.completed = false) (hx : r.cancelled = false)
    (hg : w.groupServed hv r.groupTo = true) : r ∈ w.pendingInto hv := by
  unfold World.pendingInto
  refine List.mem_filter.mpr ⟨hr, ?_⟩
  simp [hc, hx, hg]

/-- a `decide` step of an iteration is for a request that `seen_files` let through -/
theorem decide_of_mem_iterateOps (w : World) (hv : HostView) (x : WReq) (sr : Bool)
    (hx : WOp.decide x sr ∈ iterateOps w hv) : x ∈ firstPerFile [] (w.pendingInto hv) ∧ sr = true := by
  unfold iterateOps at hx
  simp only [List.mem_append] at hx
  rcases hx with (hx | hx) | hx
  · obtain ⟨c, _, hc⟩ := List.mem_map.mp hx; cases hc
  · obtain ⟨m, _, hx⟩ := List.mem_flatMap.mp hx
    obtain ⟨id, _, hopt⟩ := List.mem_filterMap.mp hx
    cases hf : w.copies.find? (·.id == id) <;> simp [hf] at hopt
  · obtain ⟨y, hy, hyx⟩ := List.mem_map.mp hx
    injection hyx with h1 h2
    exact ⟨h1 ▸ hy, h2.symm⟩

/-! ### crash prefixes (C09) -/

namespace World

/-- wanted healthy untracked copies have bytes (first clause of the crash invariant) -/
def WantedBacked (w : World) (tr : Tracked) : Prop :=
  ∀ c ∈ w.copies, (c.node, c.file) ∉ tr → c.has = .Y → c.wants = .Y → (w.diskAt c.node c.file).isSome

/-- completed requests have a copy row in their destination group (second clause) -/
def CompletedBacked (w : World) : Prop :=
  ∀ r ∈ w.reqs, r.completed = true → ∃ c ∈ w.copies, c.file = r.file ∧ w.groupOfNode c.node = some r.groupTo

theorem applyPrims_append (w : World) (a b : List Prim) :
    w.applyPrims (a ++ b) = (w.applyPrims a).applyPrims b := List.foldl_append ..

theorem mapCopy_keeps_key {w : World} (id : Nat) (g : WCopy → WCopy)
    (hg : ∀ c, (g c).file = c.file ∧ (g c).node = c.node) {c : WCopy} (hc : c ∈ w.copies) :
    ∃ c' ∈ (w.mapCopy id g).copies, c'.file = c.file ∧ c'.node = c.node := by
  refine ⟨_, mem_mapCopy.mpr ⟨c, hc, rfl⟩, ?_⟩
  split
  · exact hg c
  · exact ⟨rfl, rfl⟩

theorem upsertHealthy_keeps_key {w : World} (f n : Nat) {c : WCopy} (hc : c ∈ w.copies) :
    ∃ c' ∈ (w.upsertHealthy f n).copies, c'.file = c.file ∧ c'.node = c.node := by
  unfold upsertHealthy
  split
  · exact mapCopy_keeps_key _ (fun x => { x with has := .Y, wants := .Y, ready := true })
      (fun _ => ⟨rfl, rfl⟩) hc
  · exact ⟨c, List.mem_append_left _ hc, rfl, rfl⟩

/-! storage writes -/

theorem WantedBacked_setDisk_some {w : World} {tr : Tracked} (n f : Nat) (b : OnDisk)
    (h : w.WantedBacked tr) : (w.setDisk n f (some b)).WantedBacked tr := by
  intro c hc ht hY hW
  rw [diskAt_setDisk]
  split
  · rfl
  · exact h c hc ht hY hW

theorem CompletedBacked_setDisk {w : World} (n f : Nat) (b : Option OnDisk)
    (h : w.CompletedBacked) : (w.setDisk n f b).CompletedBacked :=
  fun r hr hc => h r hr hc

/-! effects of `post_add` -/

/-- the effects `post_add` can have: a new request, or the release of a healthy copy -/
def PostEff (e : Eff) : Prop := (∃ a b c, e = .newReq a b c) ∨ (∃ id, e = .setCopy id .Y .N)

theorem applyPostAdd_effs (w : World) (n f : Nat) (hn : (w.copies.map (·.id)).Nodup) :
    ∀ e ∈ (w.applyPostAdd n f).2, PostEff e := by
  intro e he
  have he' : e ∈ (postAdd w.toPNodes w.edges w.toPCopies n f).1.map
        (fun q => Eff.newReq q.file q.nodeFrom q.groupTo) ++
      (w.copies.filter (fun c => ((postAdd w.toPNodes w.edges w.toPCopies n f).2.find?
        (·.id == c.id)).any (fun p => p.wants != c.wants))).map (fun c => Eff.setCopy c.id c.has .N) := he
  rcases List.mem_append.mp he' with h | h
  · obtain ⟨q, _, rfl⟩ := List.mem_map.mp h
    exact Or.inl ⟨_, _, _, rfl⟩
  · obtain ⟨c, hcf, rfl⟩ := List.mem_map.mp h
    obtain ⟨hc, hflt⟩ := List.mem_filter.mp hcf
    right
    refine ⟨c.id, ?_⟩
    rw [Option.any_eq_true] at hflt
    obtain ⟨p, hfind, hpw⟩ := hflt
    have hpm := List.mem_of_find?_eq_some hfind
    have hpid : p.id = c.id := by simpa using List.find?_some hfind
    have hpm' : p ∈ w.toPCopies.map (releaseIf ((cleanEdges w.toPNodes w.edges n).map (·.nodeFrom)) f) := hpm
    obtain ⟨q, hq, rfl⟩ := List.mem_map.mp hpm'
    unfold toPCopies at hq
    obtain ⟨c0, hc0, rfl⟩ := List.mem_map.mp hq
    rw [releaseIf_id] at hpid
    have h0 : c0 = c := eq_of_id_eq w.copies hn hc0 hc hpid
    subst h0
    have hY : c0.has = .Y := by
      apply Classical.byContradiction
      intro hne
      rw [releaseIf_skips _ _ _ (fun hh => hne hh.2.1)] at hpw
      simp at hpw
    rw [hY]

theorem WantedBacked_postEff {w : World} {tr : Tracked} {e : Eff} (he : PostEff e)
    (h : w.WantedBacked tr) : (w.applyEff e).WantedBacked tr := by
  rcases he with ⟨a, b, c, rfl⟩ | ⟨id, rfl⟩
  · exact fun c hc ht hY hW => h c hc ht hY hW
  · intro c hc ht hY hW
    obtain ⟨y, hy, rfl⟩ := mem_mapCopy.mp hc
    split at hW
    · cases hW
    · rename_i hne
      rw [if_neg hne] at ht hY ⊢
      exact h y hy ht hY hW

theorem CompletedBacked_postEff {w : World} {e : Eff} (he : PostEff e)
    (h : w.CompletedBacked) : (w.applyEff e).CompletedBacked := by
  rcases he with ⟨a, b, c, rfl⟩ | ⟨id, rfl⟩
  · intro r hr hc
    rcases List.mem_append.mp hr with hr | hr
    · exact h r hr hc
    · rw [List.mem_singleton] at hr; subst hr; cases hc
  · intro r hr hc
    obtain ⟨c, hcm, hf, hg⟩ := h r hr hc
    obtain ⟨c', hc', hf', hn'⟩ := mapCopy_keeps_key id
      (fun c => { c with has := Has.Y, wants := Wants.N }) (fun _ => ⟨rfl, rfl⟩) hcm
    refine ⟨c', hc', hf'.trans hf, ?_⟩
    rw [hn']; exact hg

/-! deletion -/

theorem WantedBacked_setCopy_N {w : World} {tr : Tracked} (id : Nat) (hs : Has)
    (h : w.WantedBacked tr) : (w.applyEff (.setCopy id hs .N)).WantedBacked tr := by
  intro c hc ht hY hW
  obtain ⟨y, hy, rfl⟩ := mem_mapCopy.mp hc
  split at hW
  · cases hW
  · rename_i hne
    rw [if_neg hne] at ht hY ⊢
    exact h y hy ht hY hW

theorem CompletedBacked_setCopy {w : World} (id : Nat) (hs : Has) (wn : Wants)
    (h : w.CompletedBacked) : (w.applyEff (.setCopy id hs wn)).CompletedBacked := by
  intro r hr hc
  obtain ⟨c, hcm, hf, hg⟩ := h r hr hc
  obtain ⟨c', hc', hf', hn'⟩ := mapCopy_keeps_key id
    (fun c => { c with has := hs, wants := wn }) (fun _ => ⟨rfl, rfl⟩) hcm
  refine ⟨c', hc', hf'.trans hf, ?_⟩
  rw [hn']; exact hg

/-- unlinking the bytes of a copy that is not wanted harms no wanted healthy copy -/
theorem WantedBacked_unlink {w : World} {tr : Tracked} (hu : w.UniqueCopies) (c : WCopy)
    (hc : c ∈ w.copies) (hw : c.wants ≠ .Y) (h : w.WantedBacked tr) :
    (w.setDisk c.node c.file none).WantedBacked tr := by
  intro c' hc' ht hY hW
  rw [diskAt_setDisk]
  split
  · rename_i hk
    exfalso
    have h1 : c'.node = c.node := congrArg Prod.fst hk
    have h2 : c'.file = c.file := congrArg Prod.snd hk
    have e1 := copyAt_of_mem w hu c' hc'
    rw [h1, h2, copyAt_of_mem w hu c hc] at e1
    injection e1 with e1
    subst e1
    exact hw hW
  · exact h c' hc' ht hY hW

/-- a list of single-effect transactions of `post_add` effects -/
def PostPrims (l : List Prim) : Prop := ∀ p ∈ l, ∃ e, PostEff e ∧ p = .txn [e]

theorem PostPrims_take {l : List Prim} (h : PostPrims l) (k : Nat) : PostPrims (l.take k) :=
  fun p hp => h p (List.mem_of_mem_take hp)

theorem applyPrims_postPrims (P : World → Prop)
    (hP : ∀ w e, PostEff e → P w → P (w.applyEff e)) :
    ∀ (l : List Prim) (w : World), PostPrims l → P w → P (w.applyPrims l) := by
  intro l
  induction l with
  | nil => intro w _ h; exact h
  | cons p ps ih =>
    intro w hl h
    obtain ⟨e, he, rfl⟩ := hl p (List.mem_cons_self ..)
    exact ih _ (fun q hq => hl q (List.mem_cons_of_mem _ hq)) (hP w e he h)

/-! the transaction of a successful pull -/

/-- the index after `[newCopy r.file dest Y, reqCompleted r.id]` -/
def pullTxn (w : World) (r : WReq) (dest : Nat) : World :=
  (w.upsertHealthy r.file dest).mapReq r.id (fun x => { x with completed := true })

theorem applyPrim_pullTxn (w : World) (r : WReq) (dest : Nat) :
    w.applyPrim (.txn [.newCopy r.file dest .Y, .reqCompleted r.id]) = pullTxn w r dest := rfl

theorem WantedBacked_upsertHealthy {w : World} {tr : Tracked} (f n : Nat)
    (hids : (w.copies.map (·.id)).Nodup) (hd : (w.diskAt n f).isSome)
    (h : w.WantedBacked tr) : (w.upsertHealthy f n).WantedBacked tr := by
  intro c hc ht hY hW
  rw [diskAt_congr (upsertHealthy_disk w f n)]
  unfold upsertHealthy at hc
  split at hc
  · rename_i c0 hc0
    obtain ⟨hm0, hf0, hn0⟩ := copyAt_some hc0
    obtain ⟨y, hy, rfl⟩ := mem_mapCopy.mp hc
    by_cases hid : y.id = c0.id
    · have : y = c0 := eq_of_id_eq w.copies hids hy hm0 hid
      subst this
      simp only [beq_self_eq_true, if_true]
      rw [hf0, hn0]; exact hd
    · have hb : (y.id == c0.id) = false := beq_eq_false_iff_ne.mpr hid
      simp only [hb] at ht hY hW ⊢
      exact h y hy ht hY hW
  · rcases List.mem_append.mp hc with hc | hc
    · exact h c hc ht hY hW
    · rw [List.mem_singleton] at hc; subst hc; exact hd

theorem pullTxn_inv {w : World} {tr : Tracked} (r : WReq) (dest : Nat)
    (hids : (w.copies.map (·.id)).Nodup) (hd : (w.diskAt dest r.file).isSome)
    (hg : w.groupOfNode dest = some r.groupTo)
    (hrid : ∀ r' ∈ w.reqs, r'.id = r.id → r'.file = r.file ∧ r'.groupTo = r.groupTo)
    (h1 : w.WantedBacked tr) (h2 : w.CompletedBacked) :
    (pullTxn w r dest).WantedBacked tr ∧ (pullTxn w r dest).CompletedBacked := by
  refine ⟨?_, ?_⟩
  · exact fun c hc ht hY hW => WantedBacked_upsertHealthy r.file dest hids hd h1 c hc ht hY hW
  · intro r' hr' hc'
    have hreqs : (w.upsertHealthy r.file dest).reqs = w.reqs := by
      unfold upsertHealthy; split <;> rfl
    have hr'' : r' ∈ w.reqs.map (fun y => if y.id == r.id then { y with completed := true } else y) := by
      rw [← hreqs]; exact hr'
    obtain ⟨y, hy, rfl⟩ := List.mem_map.mp hr''
    have hgo : ∀ n, (pullTxn w r dest).groupOfNode n = w.groupOfNode n := by
      intro n
      unfold pullTxn upsertHealthy
      split <;> rfl
    by_cases hid : y.id = r.id
    · obtain ⟨c, hc, hf, hn, _⟩ := upsertHealthy_row w r.file dest
      have hb : (y.id == r.id) = true := by simp [hid]
      simp only [hb, if_true]
      refine ⟨c, hc, hf.trans (hrid y hy hid).1.symm, ?_⟩
      rw [hgo, hn, hg, (hrid y hy hid).2]
    · have hb : (y.id == r.id) = false := beq_eq_false_iff_ne.mpr hid
      simp only [hb] at hc' ⊢
      obtain ⟨c, hc, hf, hgr⟩ := h2 y hy hc'
      obtain ⟨c', hcm', hf', hn'⟩ := upsertHealthy_keeps_key r.file dest hc
      refine ⟨c', hcm', hf'.trans hf, ?_⟩
      rw [hgo, hn']; exact hgr

theorem upsertHealthy_reqs (w : World) (f n : Nat) : (w.upsertHealthy f n).reqs = w.reqs := by
  unfold upsertHealthy; split <;> rfl

/-- after the transaction the healthy destination row and the completed request are both there -/
theorem pullTxn_done (w : World) (r : WReq) (dest : Nat) (hr : r ∈ w.reqs) :
    (∃ c ∈ (pullTxn w r dest).copies, c.file = r.file ∧ c.node = dest ∧ c.has = .Y) ∧
    (∃ r' ∈ (pullTxn w r dest).reqs, r'.id = r.id ∧ r'.completed = true) := by
  refine ⟨?_, ?_⟩
  · obtain ⟨c, hc, hf, hn, hY, _⟩ := upsertHealthy_row w r.file dest
    exact ⟨c, hc, hf, hn, hY⟩
  · refine ⟨{ r with completed := true }, ?_, rfl, rfl⟩
    show _ ∈ (w.upsertHealthy r.file dest).reqs.map _
    rw [upsertHealthy_reqs]
    exact List.mem_map.mpr ⟨r, hr, by simp⟩

theorem healthyRow_postEff {w : World} {e : Eff} (he : PostEff e) (f n : Nat)
    (h : ∃ c ∈ w.copies, c.file = f ∧ c.node = n ∧ c.has = .Y) :
    ∃ c ∈ (w.applyEff e).copies, c.file = f ∧ c.node = n ∧ c.has = .Y := by
  rcases he with ⟨a, b, c, rfl⟩ | ⟨id, rfl⟩
  · exact h
  · obtain ⟨c, hc, hf, hn, hY⟩ := h
    refine ⟨_, mem_mapCopy.mpr ⟨c, hc, rfl⟩, ?_⟩
    split
    · exact ⟨hf, hn, rfl⟩
    · exact ⟨hf, hn, hY⟩

theorem doneReq_postEff {w : World} {e : Eff} (he : PostEff e) (id : Nat)
    (h : ∃ r' ∈ w.reqs, r'.id = id ∧ r'.completed = true) :
    ∃ r' ∈ (w.applyEff e).reqs, r'.id = id ∧ r'.completed = true := by
  rcases he with ⟨a, b, c, rfl⟩ | ⟨id', rfl⟩
  · obtain ⟨r', hr', h1, h2⟩ := h
    exact ⟨r', List.mem_append_left _ hr', h1, h2⟩
  · exact h

/-- every crash prefix of a successful pull: nothing, only the bytes written, or the
    transaction followed by some `post_add` transactions -/
theorem pullPrims_take (w : World) (r : WReq) (dest : Nat) (bytes : OnDisk) (k : Nat)
    (hids : (w.copies.map (·.id)).Nodup) :
    (k ≤ 3 ∧ (w.applyPrims ((pullPrims w r dest bytes).take k) = w ∨
        w.applyPrims ((pullPrims w r dest bytes).take k) = w.setDisk dest r.file (some bytes))) ∨
    (4 ≤ k ∧ ∃ l, PostPrims l ∧ w.applyPrims ((pullPrims w r dest bytes).take k) =
        (pullTxn (w.setDisk dest r.file (some bytes)) r dest).applyPrims l) := by
  have hpost : PostPrims ((w.applyPostAdd dest r.file).2.map (fun e => Prim.txn [e])) := by
    intro p hp
    obtain ⟨e, he, rfl⟩ := List.mem_map.mp hp
    exact ⟨e, applyPostAdd_effs w dest r.file hids e he, rfl⟩
  match k with
  | 0 => exact Or.inl ⟨by omega, Or.inl rfl⟩
  | 1 => exact Or.inl ⟨by omega, Or.inl rfl⟩
  | 2 => exact Or.inl ⟨by omega, Or.inr rfl⟩
  | 3 => exact Or.inl ⟨by omega, Or.inr rfl⟩
  | k + 4 => exact Or.inr ⟨by omega, _, PostPrims_take hpost k, rfl⟩

end World
end Alpen
