import Alpen.Model.Basic
import Alpen.Model.Clean
import Alpen.Model.PostAdd
import Alpen.Model.Check
import Alpen.Model.Reserve
/-
  Index-level model of the daemon's task steps (delete, check, pre-pull search, pull,
  copy_request_done + post_add) and of the main-loop decisions that create them
  (`update_delete`, `update_pull`, `DefaultNodeIO.pull`).

  Granularity ("task-step", DESIGN §4.1): one `WOp` is one task body — except that a delete
  task is one step per copy — or one main-thread decision.  Storage is abstracted to a
  finite map (node, file) ↦ content identity.  Core Lean only.
-/
namespace Alpen

structure WNode where
  id : Nat
  group : Nat
  host : Nat                      -- 0 = no host
  active : Bool
  stype : SType
  availKiB : Option Int
  minKiB : Int
  maxKiB : Option Int
  hasRoute : Bool                 -- address and username configured
  deriving DecidableEq, Repr

structure WFile where
  id : Nat
  size : Option Nat
  md5 : Option Nat                -- digest identity
  deriving DecidableEq, Repr

structure WCopy where
  id : Nat
  file : Nat
  node : Nat
  has : Has
  wants : Wants
  ready : Bool
  deriving DecidableEq, Repr

structure WReq where
  id : Nat
  file : Nat
  nodeFrom : Nat
  groupTo : Nat
  completed : Bool
  cancelled : Bool
  deriving DecidableEq, Repr

/-- bytes found at (node, file): length and digest identity -/
structure OnDisk where
  len : Nat
  digest : Nat
  deriving DecidableEq, Repr

structure World where
  nodes : List WNode
  files : List WFile
  copies : List WCopy
  reqs : List WReq
  edges : List PEdge
  disk : List ((Nat × Nat) × OnDisk)      -- (node, file) ↦ content; at most one entry per key
  reserved : List (Nat × Int)             -- node ↦ reserved bytes
  nextId : Nat
  deriving Repr

/-- what a step did to storage and to the index -/
inductive Eff where
  | unlink (node file : Nat)
  | write (node file : Nat) (c : OnDisk)          -- create or overwrite at the destination path
  | setCopy (id : Nat) (has : Has) (wants : Wants)
  | newCopy (file node : Nat) (has : Has)
  | reqCompleted (id : Nat)
  | reqCancelled (id : Nat)
  | newReq (file nodeFrom groupTo : Nat)
  | sourceSuspect (file node : Nat)
  deriving DecidableEq, Repr

namespace World

def node? (w : World) (n : Nat) : Option WNode := w.nodes.find? (·.id == n)
def file? (w : World) (f : Nat) : Option WFile := w.files.find? (·.id == f)
def diskAt (w : World) (n f : Nat) : Option OnDisk := (w.disk.find? (fun e => e.1 == (n, f))).map (·.2)
def copyAt (w : World) (f n : Nat) : Option WCopy := w.copies.find? (fun c => c.file == f && c.node == n)
def isArchive (w : World) (n : Nat) : Bool := match w.node? n with | some x => x.stype == .A | none => false
def groupOfNode (w : World) (n : Nat) : Option Nat := (w.node? n).map (·.group)

def setDisk (w : World) (n f : Nat) (c : Option OnDisk) : World :=
  let rest := w.disk.filter (fun e => e.1 != (n, f))
  { w with disk := match c with | some x => ((n, f), x) :: rest | none => rest }

def mapCopy (w : World) (id : Nat) (g : WCopy → WCopy) : World :=
  { w with copies := w.copies.map (fun c => if c.id == id then g c else c) }

def mapReq (w : World) (id : Nat) (g : WReq → WReq) : World :=
  { w with reqs := w.reqs.map (fun r => if r.id == id then g r else r) }

/-- `ArchiveFile.archive_count`: healthy copies on archive nodes -/
def archiveCount (w : World) (f : Nat) : Nat :=
  (w.copies.filter (fun c => c.file == f && c.has == .Y && w.isArchive c.node)).length

/-- healthy archive copies on nodes other than `n` -/
def archiveCountElsewhere (w : World) (f n : Nat) : Nat :=
  (w.copies.filter (fun c => c.file == f && c.has == .Y && w.isArchive c.node && c.node != n)).length

/-- `StorageNode.filecopy_state` -/
def filecopyState (w : World) (f n : Nat) : Has :=
  match w.copyAt f n with | some c => c.has | none => .N

/-- `StorageGroup.state_on_node(file)[0]` -/
def groupState (w : World) (g f : Nat) : Has :=
  let cs := w.copies.filter (fun c => c.file == f && w.groupOfNode c.node == some g)
  if cs.any (·.has == .Y) then .Y else if cs.any (·.has == .M) then .M
  else if cs.any (·.has == .X) then .X else .N

def pendingSource (w : World) (f n : Nat) : Bool :=
  w.reqs.any (fun r => r.file == f && r.nodeFrom == n && !r.completed && !r.cancelled)

/-! ### delete -/

/-- `copies_required` -/
def copiesRequired (archive : Bool) : Nat := if archive then 3 else 2

/-- one iteration of the loop of `delete_async` for copy `c` (row captured at dispatch) on its node;
    `unlinkFails` = the unlink raised an OSError other than ENOENT -/
def deleteOne (w : World) (c : WCopy) (unlinkFails : Bool) : World × List Eff :=
  if w.archiveCount c.file < copiesRequired (w.isArchive c.node) then (w, [])
  else if unlinkFails then (w, [])
  else
    let w1 := w.setDisk c.node c.file none
    let w2 := w1.mapCopy c.id (fun x => { x with has := .N, wants := .N })
    (w2, (if (w.diskAt c.node c.file).isSome then [Eff.unlink c.node c.file] else []) ++ [.setCopy c.id .N .N])

/-- the rows of node `n` as `update_delete` sees them, in id order (the table is kept in id order) -/
def dcopiesOf (w : World) (n : Nat) : List DCopy :=
  (w.copies.filter (·.node == n)).map (fun c =>
    ⟨c.id, c.file, c.has, c.wants, none, (w.file? c.file).bind (·.size)⟩)

/-- `update_delete`: the copies handed to `io.delete`, in order (sizes on the copy row are not
    modelled at this level: credit comes from the file size) -/
def updateDelete (w : World) (n : Nat) : List Nat :=
  match w.node? n with
  | none => []
  | some nd =>
    (selectDelete nd.availKiB nd.minKiB (nd.stype == .A) (fun f => w.pendingSource f n) (w.dcopiesOf n)).map (·.id)

/-! ### check -/

/-- `check_async` on the copy row captured at dispatch: the whole row is saved back -/
def checkStep (w : World) (snap : WCopy) (statOk : Bool) : World × List Eff :=
  let o : Observed := match w.diskAt snap.node snap.file with
    | some d => ⟨true, statOk, d.len, some [Char.ofNat d.digest]⟩
    | none => ⟨false, true, 0, none⟩
  let f := w.file? snap.file
  match checkVerdict o (f.bind (·.size)) ((f.bind (·.md5)).map (fun d => [Char.ofNat d])) with
  | none => (w, [])
  | some h => (w.mapCopy snap.id (fun _ => { snap with has := h }), [.setCopy snap.id h snap.wants])

/-! ### pull -/

inductive PullDecision where
  | cancelPresent          -- destination group already has it: request cancelled
  | skipDestSuspect        -- existing copy in group needs check
  | skipSourceInactive
  | cancelSourceMissing    -- source copy N or X: request cancelled
  | skipSourceSuspect
  | skipNotReady
  | dispatch (force : Bool)
  deriving DecidableEq, Repr

/-- `UpdateableGroup.update_pull` (source readiness is an input: HSM only) -/
def updatePull (w : World) (r : WReq) (srcReady : Bool) : PullDecision :=
  match w.groupState r.groupTo r.file with
  | .Y => .cancelPresent
  | .M => .skipDestSuspect
  | st =>
    match w.node? r.nodeFrom with
    | none => .skipSourceInactive
    | some src =>
      if !src.active then .skipSourceInactive
      else match w.filecopyState r.file r.nodeFrom with
        | .N | .X => .cancelSourceMissing
        | .M => .skipSourceSuspect
        | .Y => if !srcReady then .skipNotReady else .dispatch (st == .X)

/-- what happens to the request row in the main loop -/
def applyDecision (w : World) (r : WReq) : PullDecision → World × List Eff
  | .cancelPresent | .cancelSourceMissing => (w.mapReq r.id (fun x => { x with cancelled := true }), [.reqCancelled r.id])
  | _ => (w, [])

/-- `group_search_async` for a single-node (Default) group whose local node is `dest`:
    `onDisk` = a file exists at the destination path.  Returns the new world, effects and
    whether the request is passed on to `pull_force`. -/
def groupSearch (w : World) (r : WReq) (dest : Nat) (onDisk : Bool) : World × List Eff × Bool :=
  match w.groupState r.groupTo r.file with
  | .Y | .M => (w.mapReq r.id (fun x => { x with cancelled := true }), [.reqCancelled r.id], false)
  | _ =>
    if onDisk then
      match w.copyAt r.file dest with
      | some c => (w.mapCopy c.id (fun x => { x with has := .M, wants := .Y, ready := false }), [.setCopy c.id .M .Y], false)
      | none =>
        ({ w with copies := w.copies ++ [⟨w.nextId, r.file, dest, .M, .Y, false⟩], nextId := w.nextId + 1 },
          [.newCopy r.file dest .M], false)
    else (w, [], true)

/-- outcome of the transport, as far as the index is concerned -/
inductive Transfer where
  | ok                         -- exit 0, digest fine: destination now holds the source bytes
  | digestMismatch             -- exit 0 but reported / recomputed digest differs from the registered one
  | failedCheckSrc             -- non-zero exit that may be the source's fault
  | failedNoCheck              -- non-zero exit that is not the source's fault (mkstemp, write failed, garbled, no tool)
  | noRoute                    -- remote source without address/username
  deriving DecidableEq, Repr

def upsertHealthy (w : World) (f n : Nat) : World :=
  match w.copyAt f n with
  | some c => w.mapCopy c.id (fun x => { x with has := .Y, wants := .Y, ready := true })
  | none => { w with copies := w.copies ++ [⟨w.nextId, f, n, .Y, .Y, true⟩], nextId := w.nextId + 1 }

def toPNodes (w : World) : List PNode := w.nodes.map (fun n => ⟨n.id, n.group⟩)
def toPCopies (w : World) : List PCopy := w.copies.map (fun c => ⟨c.id, c.file, c.node, c.has, c.wants⟩)

/-- apply `post_add` to the world -/
def applyPostAdd (w : World) (n f : Nat) : World × List Eff :=
  let (reqs, pcs) := postAdd w.toPNodes w.edges w.toPCopies n f
  let copies' := w.copies.map (fun c => match pcs.find? (·.id == c.id) with
    | some p => { c with wants := p.wants } | none => c)
  let (rs, nid) := reqs.foldl (fun (acc : List WReq × Nat) q =>
    (acc.1 ++ [⟨acc.2, q.file, q.nodeFrom, q.groupTo, false, false⟩], acc.2 + 1)) (([] : List WReq), w.nextId)
  ({ w with copies := copies', reqs := w.reqs ++ rs, nextId := nid },
    reqs.map (fun q => Eff.newReq q.file q.nodeFrom q.groupTo) ++
    (w.copies.filter (fun c => (pcs.find? (·.id == c.id)).any (fun p => p.wants != c.wants))).map
      (fun c => Eff.setCopy c.id c.has .N))

/-- `pull_async` ∘ `copy_request_done` ∘ `post_add` for request row `r` onto node `dest` -/
def pullTask (w : World) (r : WReq) (dest : Nat) (t : Transfer) : World × List Eff :=
  if w.filecopyState r.file dest == .Y then
    (w.mapReq r.id (fun x => { x with cancelled := true }), [.reqCancelled r.id])
  else match t with
    | .noRoute => (w, [])
    | .failedNoCheck => (w.setDisk dest r.file none,
        if (w.diskAt dest r.file).isSome then [.unlink dest r.file] else [])
    | .failedCheckSrc | .digestMismatch =>
      let w1 := w.setDisk dest r.file none
      let w2 := match w1.copyAt r.file r.nodeFrom with
        | some c => w1.mapCopy c.id (fun x => { x with has := .M })
        | none => w1
      (w2, (if (w.diskAt dest r.file).isSome then [Eff.unlink dest r.file] else []) ++ [.sourceSuspect r.file r.nodeFrom])
    | .ok =>
      match w.diskAt r.nodeFrom r.file with
      | none => (w, [])          -- cannot happen with an honest tool: exit 0 without a source file
      | some bytes =>
        let w1 := w.setDisk dest r.file (some bytes)
        let w2 := w1.upsertHealthy r.file dest
        let w3 := w2.mapReq r.id (fun x => { x with completed := true })
        let (w4, e4) := w3.applyPostAdd dest r.file
        (w4, [.write dest r.file bytes, .newCopy r.file dest .Y, .reqCompleted r.id] ++ e4)

end World
end Alpen
