import Alpen.Model.WorldOps
/-
  The daemon level on top of the World model: which task steps one update iteration of the
  daemon on a host creates (`iterateOps`), which node a step works on (`targetNode`), the
  index/storage agreement relation with tracked external damage (`Agree`), what blocks a
  pending item (`Blocked…`), and tasks as lists of primitive effects for crash analysis.
  Core Lean only.
-/
namespace Alpen
open World

/-- what a daemon knows about its host: its name and which node roots carry the right marker -/
structure HostView where
  host : Nat
  initialised : Nat → Bool

/-- nodes the daemon on this host may work on: local, active, initialised -/
def usable (hv : HostView) (n : WNode) : Bool :=
  n.host == hv.host && n.active && hv.initialised n.id

def World.usableIds (w : World) (hv : HostView) : List Nat := (w.nodes.filter (usable hv)).map (·.id)

/-- the node on whose storage a step acts -/
def targetNode : WOp → Option Nat
  | .deleteOne c _ => some c.node
  | .check snap _ => some snap.node
  | .search _ dest _ => some dest
  | .pull _ dest _ => some dest
  | _ => none

/-- `seen_files` in `UpdateableGroup.update`: of the pending requests into a group only the first one for each file is
    examined in a pass, so that two pulls never write the same destination file at once -/
def firstPerFile (seen : List (Nat × Nat)) : List WReq → List WReq
  | [] => []
  | r :: rs => if seen.contains (r.file, r.groupTo) then firstPerFile seen rs
               else r :: firstPerFile ((r.file, r.groupTo) :: seen) rs

/-- the nodes of group `g` this host's daemon may work on -/
def World.usableInGroup (w : World) (hv : HostView) (g : Nat) : List WNode :=
  w.nodes.filter (fun n => n.group == g && (w.usableIds hv).contains n.id)

/-- a (Default I/O) group is served by this host iff exactly one of its nodes is usable here
    (`DefaultGroupIO.set_nodes` rejects any other number and the group is skipped) -/
def World.groupServed (w : World) (hv : HostView) (g : Nat) : Bool := (w.usableInGroup hv g).length == 1

/-- pending requests into groups served by this host, in row order -/
def World.pendingInto (w : World) (hv : HostView) : List WReq :=
  w.reqs.filter (fun r => !r.completed && !r.cancelled && w.groupServed hv r.groupTo)

/-- the first-level steps one update iteration creates: checks of wanted suspect copies and
    deletions on usable nodes, and pull decisions for (the first per file of the) pending requests into groups that
    have a usable node (`statOk`, `srcReady`, `unlinkFails` are environment inputs, fixed to the
    fault-free values here) -/
def iterateOps (w : World) (hv : HostView) : List WOp :=
  let us := w.usableIds hv
  let checks := (w.copies.filter (fun c => us.contains c.node && c.has == .M && c.wants != .N)).map (fun c => WOp.check c true)
  let deletes := us.flatMap (fun n => (w.updateDelete n).filterMap (fun id =>
      (w.copies.find? (·.id == id)).map (fun c => WOp.deleteOne c false)))
  let decides := (firstPerFile [] (w.pendingInto hv)).map (fun r => WOp.decide r true)
  checks ++ deletes ++ decides

/-! ### node initialisation (C07: "an uninitialised node is initialised only on explicit request") -/

/-- a request filed by `alpenhorn node init` (an import request for the path `ALPENHORN_NODE`) -/
structure InitReq where
  id : Nat
  node : Nat
  completed : Bool
  deriving DecidableEq, Repr

/-- `UpdateableNode.check_init` in the main loop: for every local active node whose marker check fails, an init task
    is queued iff a pending init request *for that node* exists; result: (node id, request id) pairs -/
def initTasks (w : World) (hv : HostView) (reqs : List InitReq) : List (Nat × Nat) :=
  (w.nodes.filter (fun n => n.host == hv.host && n.active && !hv.initialised n.id)).filterMap
    (fun n => (reqs.find? (fun r => r.node == n.id && !r.completed)).map (fun r => (n.id, r.id)))

/-- the init task itself: re-check, write the marker, re-check; returns (marker written, request completed) -/
def initTask (initialisedNow writeOk : Bool) : Bool × Bool :=
  if initialisedNow then (false, true) else if writeOk then (true, true) else (false, false)

/-- follow-up steps of a dispatched request onto the (single) usable node `dest` of its group -/
def followUps (r : WReq) (dest : Nat) (onDisk : Bool) (t : World.Transfer) : List WOp :=
  [.search r dest onDisk, .pull r dest t]

/-! ### index / storage agreement (C08) -/

def World.fileSize (w : World) (f : Nat) : Option Nat := (w.file? f).bind (·.size)

/-- well-formedness of the index: unique (file, node), unique ids below `nextId` -/
structure World.WellFormed (w : World) : Prop where
  uniq : w.UniqueCopies
  ids : (w.copies.map (·.id)).Nodup
  idlt : ∀ c ∈ w.copies, c.id < w.nextId
  rids : ∀ r ∈ w.reqs, r.id < w.nextId

/-- (node, file) pairs whose bytes were changed behind the daemon's back, or whose state an
    operator set by hand, and that no check has looked at since -/
abbrev Tracked := List (Nat × Nat)

/-- a copy recorded healthy has its bytes, with the registered length, unless tracked -/
def World.Agree (w : World) (tr : Tracked) : Prop :=
  ∀ c ∈ w.copies, (c.node, c.file) ∉ tr → c.has = .Y →
    ∃ d, w.diskAt c.node c.file = some d ∧ (∀ s, w.fileSize c.file = some s → d.len = s)

/-- how a step moves the tracked set: damage and operator overrides add; a check clears (its
    verdict is computed from the bytes); a pull onto `dest` taints `dest` when its source was
    tainted or not recorded healthy (hard link / rsync do not re-hash), and clears it otherwise -/
def trackStep (w : World) (tr : Tracked) : WOp → Tracked
  | .fault n f _ => (n, f) :: tr
  | .opSetCopy id _ _ =>
    match w.copies.find? (·.id == id) with
    | some c => (c.node, c.file) :: tr
    | none => tr
  | .opAddCopy f n _ _ => (n, f) :: tr
  | .check snap _ => tr.filter (· != (snap.node, snap.file))
  | .pull r dest _ =>
    if tr.contains (r.nodeFrom, r.file) || w.filecopyState r.file r.nodeFrom != .Y
    then (dest, r.file) :: tr else tr.filter (· != (dest, r.file))
  | _ => tr

/-! ### what blocks a pending item (C05) -/

/-- a pending request is blocked for a documented reason -/
def World.reqBlocked (w : World) (hv : HostView) (r : WReq) (srcReady : Bool) : Bool :=
  -- nobody on this host can serve the destination group
  !(w.nodes.any (fun n => n.group == r.groupTo && usable hv n)) ||
  (match w.updatePull r srcReady with
   | .skipDestSuspect | .skipSourceInactive | .skipSourceSuspect | .skipNotReady => true
   | _ => false)

/-- a released copy may not be deleted yet -/
def World.deleteBlocked (w : World) (c : WCopy) : Bool :=
  w.pendingSource c.file c.node || decide (w.archiveCount c.file < copiesRequired (w.isArchive c.node))

/-! ### tasks as primitive effects (C09) -/

/-- one primitive effect of a task: a storage operation or one database transaction -/
inductive Prim where
  | touchPlaceholder (node file : Nat)
  | writeDest (node file : Nat) (c : OnDisk)        -- temp name + atomic rename
  | removePlaceholder (node file : Nat)
  | unlinkPath (node file : Nat)
  | txn (effs : List Eff)                           -- all-or-nothing index update
  deriving Repr

/-- the index part of `Eff`s applied to a world -/
def World.applyEff (w : World) : Eff → World
  | .setCopy id h wn => w.mapCopy id (fun c => { c with has := h, wants := wn })
  | .newCopy f n h =>
    match w.copyAt f n with
    | some c => w.mapCopy c.id (fun x => { x with has := h, wants := .Y, ready := true })
    | none => { w with copies := w.copies ++ [⟨w.nextId, f, n, h, .Y, true⟩], nextId := w.nextId + 1 }
  | .reqCompleted id => w.mapReq id (fun r => { r with completed := true })
  | .reqCancelled id => w.mapReq id (fun r => { r with cancelled := true })
  | .newReq f a b => { w with reqs := w.reqs ++ [⟨w.nextId, f, a, b, false, false⟩], nextId := w.nextId + 1 }
  | .sourceSuspect f n =>
    match w.copyAt f n with
    | some c => w.mapCopy c.id (fun x => { x with has := .M })
    | none => w
  | _ => w

def World.applyPrim (w : World) : Prim → World
  | .touchPlaceholder _ _ => w
  | .removePlaceholder _ _ => w
  | .writeDest n f c => w.setDisk n f (some c)
  | .unlinkPath n f => w.setDisk n f none
  | .txn effs => effs.foldl World.applyEff w

def World.applyPrims (w : World) (ps : List Prim) : World := ps.foldl World.applyPrim w

/-- a successful pull as its primitive effects, in the order the code performs them -/
def pullPrims (w : World) (r : WReq) (dest : Nat) (bytes : OnDisk) : List Prim :=
  [.touchPlaceholder dest r.file, .writeDest dest r.file bytes, .removePlaceholder dest r.file,
   .txn [.newCopy r.file dest .Y, .reqCompleted r.id]] ++
  ((w.applyPostAdd dest r.file).2.map (fun e => Prim.txn [e]))

/-- deleting one copy: unlink, then the index update -/
def deletePrims (c : WCopy) : List Prim :=
  [.unlinkPath c.node c.file, .txn [.setCopy c.id .N .N]]

/-- crash invariant: the index never records a healthy *wanted* copy without bytes, nor a
    completed request without a healthy copy in its destination group, for untracked pairs -/
def World.CrashInv (w : World) (tr : Tracked) : Prop :=
  (∀ c ∈ w.copies, (c.node, c.file) ∉ tr → c.has = .Y → c.wants ≠ .N → (w.diskAt c.node c.file).isSome) ∧
  (∀ r ∈ w.reqs, r.completed = true → ∃ c ∈ w.copies, c.file = r.file ∧ w.groupOfNode c.node = some r.groupTo)

end Alpen
