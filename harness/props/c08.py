"""C08 — index well-formedness and index/storage agreement over real multi-daemon histories (runner shared with C07)."""
import json
import os
import re
import random

import common
import env as envmod
from props import c07

MODULE = "Alpen.Props.C08"


def corpus_import_delete_race(e):
    """regression corpus (known finding F21): a released copy is being deleted by one worker while another worker imports the
    same file on the same node (an operator's import request): up to 150 seeded two-worker schedules of that one pass"""
    import dharness
    import world as worldmod
    for trial in range(150):
        rng = random.Random(f"import-delete-race-{trial}")
        case = dharness.DWorld.__new__(dharness.DWorld)
        w = worldmod.World(e)
        db = w.db
        for m in (db.StorageTransferAction, db.ArchiveFileCopyRequest, db.ArchiveFileImportRequest, db.ArchiveFileCopy,
                  db.ArchiveFile, db.ArchiveAcq, db.StorageNode, db.StorageGroup):
            m.delete().execute()
        import shutil
        shutil.rmtree(os.path.join(e.tmp, "roots"), ignore_errors=True)
        g1, g2, g3 = w.group("g1"), w.group("g2"), w.group("g3")
        n1, a1, a2 = w.node("n1", g1, stype="F"), w.node("a1", g2, stype="A"), w.node("a2", g3, stype="A")
        f = w.file(w.acq("acq"), "sub/f0.dat", b"payload payload")
        w.copy(f, n1, has="Y", wants="N")
        w.copy(f, a1, has="Y")
        w.copy(f, a2, has="Y")
        db.ArchiveFileImportRequest.create(node=n1, path="acq/sub/f0.dat", recurse=False, register=True)
        case.env, case.rng, case.w = e, rng, w
        case.hosts = ["h1"]
        case.daemons = {"h1": (worldmod.PersistentDaemon if dharness.verif_persistent(e) else worldmod.Daemon)(e, "h1")}
        case.marker_state = {x.id: "ok" for x in (n1, a1, a2)}
        case.tracked, case.view, case.initq = set(), {}, {}
        case.nodes, case.groups, case.files = [n1, a1, a2], [g1, g2, g3], [f]
        case.rich = case.multi = case.churn = case.hsm = False
        case.set_tools("none", "ok")
        try:
            case.iterate("h1")
            ran, schedule, excs = case.concurrent_drain("h1", rng, nw=2)
        finally:
            case.close()
            os.environ["PATH"] = "/usr/local/bin:/usr/bin:/bin"
        c = db.ArchiveFileCopy.get(file=f, node=n1)
        if c.has_file == "Y" and w.file_on(n1, f) is None:
            return [f"two workers ran {ran} with schedule {''.join(map(str, schedule))}: the delete task unlinked acq/sub/f0.dat on n1 and "
                    f"recorded it removed, then the import task of the same file (which had found the file on disk earlier) recorded the "
                    f"copy healthy and wanted: has_file={c.has_file} wants_file={c.wants_file}, file on disk: no"]
    return []


def run(ctx):
    ok = common.proof_stage(ctx, MODULE)
    rng = ctx.rng
    nh = 60 if ctx.quick() else 2000
    with envmod.Env(dbfile=True) as e:     # file database: persistent daemon loops and two-worker passes need threads
        for p in corpus_import_delete_race(e):
            ctx.violation("import-delete-race", p, {"kind": "corpus", "name": "import vs delete of one file by two workers"})
        for i in range(nh):
            hseed = f"{ctx.prop}-{ctx.seed}-h{i}"
            hr = random.Random(hseed)
            case, p7, p8, log = c07.run_history(ctx, e, hr, hr.randint(10, 35), conc=True)
            ctx.case(tuple(log), nontrivial=len(log) > 5, sample={"history": log[:25], "tracked_pairs": sorted(case.tracked)} if i == 0 else None)
            ctx.count("history:steps", len(log))
            ctx.count("history:tasks", sum(1 for l in log if l.startswith("task")))
            for item in p8:
                p, ctxlog = item if isinstance(item, tuple) else (item, log[-6:])
                last2w = " || ".join(l for l in ctxlog if l.startswith("tasks "))
                m_ = re.search(r"but file (\S+) is not on node (\S+)", p)
                if m_ and "recorded healthy and wanted" in p and "Delete copies" in last2w and f"Import acq/{m_.group(1)} on {m_.group(2)}" in last2w:
                    ctx.violation("import-delete-race", p + " [two-worker pass: " + last2w[:200] + "]",
                                  {"kind": "dhistory", "hseed": hseed, "last_steps": ctxlog, "history": log})
                    continue
                ctx.violation("index:" + p[:40].replace(" ", "_"), p, {"kind": "dhistory", "hseed": hseed, "last_steps": ctxlog, "history": log})
    ctx.coverage["rule"] = ("same multi-daemon histories as C07; after every step the real index and all node trees are checked: unique "
                            "(file,node) and (acq,name), legal states, completed request => ordered timestamps and a copy in its group, "
                            "healthy untracked copy => bytes present with the registered length, no dot-prefixed name registered; external "
                            "damage and operator overrides are tracked, a check clears, an unverified transfer from a tainted source taints. "
                            "distinct = history log")
    from props.c06 import finish_search
    finish_search(ctx, ok)


def replay(ctx, path):
    """re-run the recorded history (same per-history seed) on the current tree and report what the oracle says now"""
    d = json.load(open(path))
    print(json.dumps({k: d[k] for k in d if k != "history"}, indent=1)[:3000])
    if d.get("kind") == "corpus":
        with envmod.Env(dbfile=True) as e:
            probs = corpus_import_delete_race(e)
        for p in probs:
            print("VIOLATION-REPRODUCED:", p)
        return 1 if probs else 0
    if "hseed" not in d:
        return 1
    with envmod.Env(dbfile=True) as e:
        hr = random.Random(d["hseed"])
        case, p7, p8, log = c07.run_history(ctx, e, hr, hr.randint(10, 35), conc=True)
    for l in log:
        print("  ", l[:200])
    for item in p8:
        print("VIOLATION-REPRODUCED:", item[0] if isinstance(item, tuple) else item)
    return 1 if p8 else 0
