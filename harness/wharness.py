"""Random real worlds + task steps executed on the real code, mirrored as operations of the Lean World model.
Shared by C01, C02 (and the history checks)."""
from __future__ import annotations

import json
import os
import random

import common
import env as envmod
import world as worldmod

FAKE = os.path.join(common.VERIF, "fake-tools")


def pad(n):
    return f"{n:06d}"


class Case:
    """one random world on two hosts (h1 = the acting daemon's host, h2 = remote)"""

    def __init__(self, env, rng, big_space=True, rich=False, multi=False, churn=False, hsm=False):
        """rich: a healthy, well-replicated archive (4-5 mostly-archive nodes, most copies healthy and on disk, a few
        released) so that deletions, transfers and rule processing actually proceed"""
        self.env = env
        self.rng = rng
        self.w = worldmod.World(env)
        self.dg = {}                 # md5 hex -> digest id
        db = self.w.db
        for m in (db.StorageTransferAction, db.ArchiveFileCopyRequest, db.ArchiveFileImportRequest, db.ArchiveFileCopy,
                  db.ArchiveFile, db.ArchiveAcq, db.StorageNode, db.StorageGroup):
            m.delete().execute()
        import shutil
        shutil.rmtree(os.path.join(env.tmp, "roots"), ignore_errors=True)
        ng = rng.randint(4, 5) if rich else rng.randint(2, 4)
        self.groups = [self.w.group(f"g{i + 1}") for i in range(ng)]
        self.nodes = []
        for i, g in enumerate(self.groups):          # one node per group (Default group I/O)
            host = "h1" if (i < 2 or rng.random() < 0.6) else "h2"
            routed = rng.random() < 0.7
            n = self.w.node(f"n{i + 1}", g, host=host, stype=rng.choice("AAAAAF" if rich else "AAATF"),
                            active=rng.random() < (0.97 if rich else 0.9),
                            address="addr" if routed else None, username="user" if routed else None,
                            avail_kib=None, min_kib=0)
            self.nodes.append(n)
            if churn and i == 0:
                # the group whose membership will churn: two spare disks on the same host
                for k in range(2):
                    self.nodes.append(self.w.node(f"n{i + 1}{'bc'[k]}", g, host=host, stype=n.storage_type, active=False,
                                                  address="addr" if routed else None, username="user" if routed else None,
                                                  avail_kib=None, min_kib=0))
            elif multi and rng.random() < 0.6:
                # further nodes of the same group: elsewhere, inactive (a spare disk) or - a misconfiguration the group I/O
                # must reject - active on the same host
                for k in range(rng.randint(1, 2)):
                    kind = rng.random()
                    h2_, act = (host, False) if kind < 0.45 else ("h2" if host == "h1" else "h1", rng.random() < 0.8) if kind < 0.8 else (host, True)
                    self.nodes.append(self.w.node(f"n{i + 1}{'bc'[k]}", g, host=h2_, stype=n.storage_type, active=act,
                                                  address="addr" if routed else None, username="user" if routed else None,
                                                  avail_kib=None, min_kib=0))
        self.acq = self.w.acq("acq")
        self.files = []
        for i in range(rng.randint(3, 4) if churn else rng.randint(1, 3)):
            content = bytes(rng.getrandbits(8) for _ in range(rng.choice([0, 1, 7, 100])))
            name = rng.choice([f"f{i}.dat", f"sub/f{i}.dat", f"a/b/f{i}.dat"])
            self.files.append(self.w.file(self.acq, name, content))
        for f in self.files:
            for n in self.nodes:
                r = rng.random()
                if churn and n.group_id == self.groups[0].id:
                    continue            # the churning group starts empty: requests into it are pending
                if rich and r < 0.8:
                    has = rng.choice("YYYYYYYMXN")
                    self.w.copy(f, n, has=has, wants=rng.choice("YYYNNM") if has != "N" else "N",
                                on_disk=None if has == "N" else self.w.contents[f.id], ready=True)
                elif rich:
                    pass
                elif r < 0.55:
                    has = rng.choice("YYYYMXN")
                    wants = rng.choice("YYMNN")
                    kind = rng.random()
                    data = self.w.contents[f.id]
                    if has == "N":
                        on = None if kind < 0.8 else data
                    elif kind < 0.75:
                        on = data
                    elif kind < 0.9:
                        on = data + b"!"           # silently corrupt
                    else:
                        on = None                  # silently missing
                    self.w.copy(f, n, has=has, wants=wants, on_disk=on, ready=True)
                elif r < 0.65:
                    self.w.put_bytes(n, f, self.w.contents[f.id] if rng.random() < 0.5 else b"junk")   # unregistered file
        for _ in range(rng.randint(0, 3)):
            f = rng.choice(self.files)
            src = rng.choice(self.nodes)
            g = rng.choice(self.groups)
            if g.id != src.group_id:
                self.w.req(f, src, g, completed=rng.random() < 0.1, cancelled=rng.random() < 0.1)
        self.hsm_node = None
        if hsm:
            # a Lustre-HSM node (own Default group) driven by the scripted `lfs`: copies resident or released on "tape"
            import json
            self.lfs_state = os.path.join(env.tmp, "lfs_state.json")
            os.environ["VERIF_LFS_STATE"] = self.lfs_state
            gh = self.w.group("ghsm")
            cfg = json.dumps({"quota_id": "q", "quota_type": "group", "headroom": 10, "lfs": os.path.join(FAKE, "lfs"), "restore_wait": 5,
                              "release_check_count": 5})
            nh = self.w.node("nh", gh, host="h1", stype="A", io_class="LustreHSM", io_config=cfg, address="addr", username="user")
            self.groups.append(gh)
            self.nodes.append(nh)
            self.hsm_node = nh
            paths = {}
            for f in self.files:
                if rng.random() < 0.75:
                    resident = rng.random() < 0.5
                    c = self.w.copy(f, nh, has=rng.choice("YYYM"), wants="Y", on_disk=self.w.contents[f.id], ready=resident if rng.random() < 0.8 else not resident)
                    paths[os.path.join(nh.root, f.acq.name, f.name)] = "restored" if resident else "released"
            with open(self.lfs_state, "w") as fh:
                json.dump({"paths": paths}, fh)
            import fakelfs
            fakelfs.install(self.lfs_state)
        if churn:
            for c in db.ArchiveFileCopy.select().where(db.ArchiveFileCopy.has_file == "Y").limit(1):
                self.w.req(db.ArchiveFile.get(id=c.file_id), db.StorageNode.get(id=c.node_id), self.groups[0])
        for _ in range(rng.randint(0, 2)):
            a = rng.choice(self.nodes)
            g = rng.choice(self.groups)
            try:
                self.w.edge(a, g, autosync=rng.random() < 0.6, autoclean=rng.random() < 0.6)
            except Exception:
                pass

    # ---- ids of rows created during the run: the model numbers them from 100000 in creation order
    def sync_ids(self):
        db = self.w.db
        if not hasattr(self, "mid_copy"):
            self.mid_copy, self.mid_req, self.next_mid = {}, {}, 100000
            self.known_copies = set(c.id for c in db.ArchiveFileCopy.select())
            self.known_reqs = set(r.id for r in db.ArchiveFileCopyRequest.select())
            return
        for c in db.ArchiveFileCopy.select().order_by(db.ArchiveFileCopy.id):
            if c.id not in self.known_copies:
                self.known_copies.add(c.id)
                self.mid_copy[c.id] = self.next_mid
                self.next_mid += 1
        for r in db.ArchiveFileCopyRequest.select().order_by(db.ArchiveFileCopyRequest.id):
            if r.id not in self.known_reqs:
                self.known_reqs.add(r.id)
                self.mid_req[r.id] = self.next_mid
                self.next_mid += 1

    # ---- canonical encodings
    def did(self, hexd):
        if hexd is None:
            return None
        if hexd not in self.dg:
            self.dg[hexd] = len(self.dg) + 1
        return self.dg[hexd]

    def disk_entries(self):
        db = self.w.db
        out = []
        for n in db.StorageNode.select():
            for f in db.ArchiveFile.select():
                data = self.w.file_on(n, f)
                if data is not None:
                    out.append((n.id, f.id, len(data), self.did(worldmod.md5(data))))
        return out

    def setup_lines(self):
        db = self.w.db
        self.sync_ids()
        L = ["w.reset"]
        hostid = {"h1": 1, "h2": 2, None: 0}
        for n in db.StorageNode.select():
            av = "-" if n.avail_gb is None else str(round(n.avail_gb * 2 ** 20))
            mx = "-" if n.max_total_gb is None else str(round(n.max_total_gb * 2 ** 20))
            L.append(f"w.node {n.id} {n.group_id} {hostid.get(n.host, 3)} {int(n.active)} {n.storage_type} {av} "
                     f"{round(n.min_avail_gb * 2 ** 20)} {mx} {int(n.address is not None and n.username is not None)}")
        for f in db.ArchiveFile.select():
            L.append(f"w.file {f.id} {'-' if f.size_b is None else f.size_b} {'-' if f.md5sum is None else self.did(f.md5sum)}")
        for c in db.ArchiveFileCopy.select().order_by(db.ArchiveFileCopy.id):
            L.append(f"w.copy {c.id} {c.file_id} {c.node_id} {c.has_file} {c.wants_file} {int(c.ready)}")
        for r in db.ArchiveFileCopyRequest.select():
            L.append(f"w.req {r.id} {r.file_id} {r.node_from_id} {r.group_to_id} {int(r.completed)} {int(r.cancelled)}")
        for e in db.StorageTransferAction.select():
            L.append(f"w.edge {e.id} {e.node_from_id} {e.group_to_id} {int(e.autosync)} {int(e.autoclean)}")
        for (n, f, ln, dg) in self.disk_entries():
            L.append(f"w.disk {n} {f} {ln} {dg}")
        return L

    def real_dump(self):
        db = self.w.db
        self.sync_ids()
        cs = sorted(f"{pad(c.file_id)}:{pad(c.node_id)}:{c.has_file}:{c.wants_file}:{int(c.ready)}" for c in db.ArchiveFileCopy.select())
        rs = sorted(f"{pad(r.file_id)}:{pad(r.node_from_id)}:{pad(r.group_to_id)}:{int(r.completed)}:{int(r.cancelled)}"
                    for r in db.ArchiveFileCopyRequest.select())
        ds = sorted(f"{pad(n)}:{pad(f)}:{ln}:{dg}" for (n, f, ln, dg) in self.disk_entries())
        return f"copies={','.join(cs)} reqs={','.join(rs)} disk={','.join(ds)}"

    def copy_str(self, c):
        return f"{getattr(self, 'mid_copy', {}).get(c.id, c.id)}:{c.file_id}:{c.node_id}:{c.has_file}:{c.wants_file}:{int(c.ready)}"

    def req_str(self, r):
        return f"{getattr(self, 'mid_req', {}).get(r.id, r.id)}:{r.file_id}:{r.node_from_id}:{r.group_to_id}:{int(r.completed)}:{int(r.cancelled)}"

    # ---- real objects
    def node_io(self, node):
        from alpenhorn.io.default import DefaultNodeIO
        from alpenhorn.scheduler import FairMultiFIFOQueue
        return DefaultNodeIO(node, {}, FairMultiFIFOQueue())

    def ugroup(self, group, node):
        import alpenhorn.daemon.update as upd
        from alpenhorn.scheduler import FairMultiFIFOQueue
        q = FairMultiFIFOQueue()
        un = upd.UpdateableNode(q, node)
        return upd.UpdateableGroup(queue=q, group=group, nodes=[un], idle=True), un, q

    def archive_elsewhere(self, file_id, node_id):
        """independent oracle query on the real index"""
        db = self.w.db
        return (db.ArchiveFileCopy.select().join(db.StorageNode)
                .where(db.ArchiveFileCopy.file == file_id, db.ArchiveFileCopy.has_file == "Y",
                       db.StorageNode.storage_type == "A", db.ArchiveFileCopy.node != node_id).count())

    def leftovers(self, node):
        out = []
        for base, dirs, files in os.walk(node.root):
            for x in dirs + files:
                if x.startswith(".alpentemp") or x.endswith(".placeholder") or ".tmp" in x:
                    out.append(os.path.relpath(os.path.join(base, x), node.root))
        return out

    # ---- steps: each returns (model line, real description dict)
    def step_delete_one(self, copy_row):
        from alpenhorn.io._default_asyncs import delete_async
        db = self.w.db
        node = db.StorageNode.get(id=copy_row.node_id)
        f = db.ArchiveFile.get(id=copy_row.file_id)
        before = self.w.file_on(node, f)
        elsewhere = self.archive_elsewhere(f.id, node.id)
        io = self.node_io(node)
        line = f"w.op deleteOne {self.copy_str(copy_row)} 0"
        delete_async(None, io.tree_lock, [copy_row])
        after = self.w.file_on(node, f)
        return line, dict(kind="deleteOne", node=node.id, file=f.id, unlinked=before is not None and after is None,
                          elsewhere_before=elsewhere, root_ok=os.path.isdir(node.root),
                          marker_ok=os.path.exists(os.path.join(node.root, "ALPENHORN_NODE")))

    def step_check(self, copy_row):
        from alpenhorn.io._default_asyncs import check_async
        db = self.w.db
        node = db.StorageNode.get(id=copy_row.node_id)
        line = f"w.op check {self.copy_str(copy_row)} 1"
        check_async(None, self.node_io(node), copy_row)
        return line, dict(kind="check", copy=copy_row.id, has=db.ArchiveFileCopy.get(id=copy_row.id).has_file)

    def step_decide(self, req_row):
        db = self.w.db
        g = db.StorageGroup.get(id=req_row.group_to_id)
        nodes = [n for n in db.StorageNode.select().where(db.StorageNode.group == g)]
        ug, un, q = self.ugroup(g, nodes[0])
        called = []
        ug.io.pull = lambda r: called.append("pull")
        ug.io.pull_force = lambda r: called.append("force")
        line = f"w.op decide {self.req_str(req_row)} 1"
        self.env.set_host("h1")
        ug.update_pull(req_row)
        row = db.ArchiveFileCopyRequest.get(id=req_row.id)
        dec = "dispatch:1" if called == ["force"] else "dispatch:0" if called == ["pull"] else \
            ("cancel" if row.cancelled and not req_row.cancelled else "skip")
        return line, dict(kind="decide", decision=dec)

    def step_search(self, req_row, dest):
        from alpenhorn.io._default_asyncs import group_search_async
        db = self.w.db
        g = db.StorageGroup.get(id=req_row.group_to_id)
        ug, un, q = self.ugroup(g, dest)
        passed = []
        ug.io.pull_force = lambda r: passed.append(1)
        f = db.ArchiveFile.get(id=req_row.file_id)
        on = os.path.isfile(os.path.join(dest.root, f.acq.name, f.name))
        line = f"w.op search {self.req_str(req_row)} {dest.id} {int(on)}"
        group_search_async(None, ug.io, req_row)
        return line, dict(kind="search", passOn=bool(passed))

    def feasible_transfers(self, src, dest):
        """(Transfer, PATH dir, tool mode) combinations the real code can be driven into for this pair"""
        local = src.host == "h1"
        same_arch = (src.storage_type == "A") == (dest.storage_type == "A")
        opts = []
        if not local:
            if src.address is None or src.username is None:
                return [("noRoute", "both", "ok")]
            opts += [("ok", "bbcp-only", "ok"), ("ok", "rsync-only", "ok"), ("ok", "both", "ok"),
                     ("digestMismatch", "both", "badmd5"), ("failedNoCheck", "bbcp-only", "garbled"),
                     ("failedCheckSrc", "rsync-only", "fail-src"), ("failedCheckSrc", "rsync-only", "partial"),
                     ("failedNoCheck", "rsync-only", "fail-mkstemp"), ("failedNoCheck", "rsync-only", "fail-write"),
                     ("failedNoCheck", "none", "ok"), ("failedCheckSrc", "bbcp-only", "fail-src"),
                     ("failedCheckSrc", "rsync-only", "hang")]
        else:
            if same_arch:
                opts += [("ok", "both", "ok"), ("ok", "none", "ok")]            # hard link
            else:
                opts += [("ok", "rsync-only", "ok"), ("ok", "none", "ok"),      # rsync / internal copy
                         ("digestMismatch", "none", "truncate"),                 # internal copy that silently writes half the file
                         ("failedCheckSrc", "rsync-only", "fail-src"), ("failedCheckSrc", "rsync-only", "partial"),
                         ("failedNoCheck", "rsync-only", "fail-mkstemp"), ("failedNoCheck", "rsync-only", "fail-write"),
                         ("failedCheckSrc", "rsync-only", "hang")]
        return opts

    def step_pull(self, req_row, dest, want=None):
        """run pull_async for req_row onto dest with a scripted transport outcome"""
        import alpenhorn.scheduler.task as tmod
        from alpenhorn.io._default_asyncs import pull_async
        from alpenhorn.io import default as dmod
        from alpenhorn.scheduler import FairMultiFIFOQueue
        db = self.w.db
        rng = self.rng
        src = db.StorageNode.get(id=req_row.node_from_id)
        f = db.ArchiveFile.get(id=req_row.file_id)
        opts = self.feasible_transfers(src, dest)
        if want:
            o2 = [o for o in opts if (o == tuple(want) if isinstance(want, (tuple, list)) else o[0] == want)]
            opts = o2 or opts
        transfer, pathdir, mode = rng.choice(opts)
        src_bytes = self.w.file_on(src, f)
        if mode == "truncate" and (src_bytes is None or len(src_bytes) < 2 or worldmod.md5(src_bytes) != f.md5sum):
            # the truncating copy is only meaningful on an intact source of at least two bytes (half of a damaged or tiny file
            # could coincide with the registered content)
            return self.step_pull(req_row, dest, want=("ok", "none", "ok"))
        local = src.host == "h1"
        same_arch = (src.storage_type == "A") == (dest.storage_type == "A")
        # what will really happen (the scripted mode is only reached through some tools)
        if transfer == "ok":
            if src_bytes is None:
                transfer = "failedCheckSrc" if (not local or not same_arch or pathdir != "none") else "failedCheckSrc"
                if local and pathdir == "none":
                    transfer = "failedCheckSrc"       # shutil.copy2 raises -> ret 1, check_src default True
            elif (not local and pathdir in ("bbcp-only", "both")) or (local and not same_arch and pathdir == "none"):
                # digest is checked on this route
                if worldmod.md5(src_bytes) != f.md5sum:
                    transfer = "digestMismatch"
        if transfer == "digestMismatch" and src_bytes is None:
            transfer = "failedCheckSrc"
        if transfer == "failedNoCheck" and mode == "garbled" and src_bytes is None:
            transfer = "failedCheckSrc"       # bbcp never gets as far as printing a (garbled) digest: it fails on the missing source
        ctl = os.path.join(self.env.tmp, "toolctl.json")
        with open(ctl, "w") as fh:
            json.dump({"mode": mode}, fh)
        old_path = os.environ.get("PATH", "")
        os.environ["PATH"] = os.path.join(FAKE, pathdir)
        os.environ["VERIF_TOOL_CTL"] = ctl
        self.env.config.config["daemon"]["pull_timeout_base"] = 0.25 if mode == "hang" else 300
        self.env.set_host("h1")
        io = self.node_io(dest)
        q = FairMultiFIFOQueue()
        line = f"w.op pull {self.req_str(req_row)} {dest.id} {transfer}"
        av_before = db.StorageNode.get(id=dest.id).avail_gb          # (the task updates the row object it was given in place)
        dst_before = self.w.file_on(dest, f)
        import shutil as _sh
        real_copy2 = _sh.copy2
        if mode == "truncate":
            def short_copy2(srcp, dstp, *a, **k):
                out = real_copy2(srcp, dstp, *a, **k)
                with open(out, "rb+") as fh_:          # the copy "succeeds" but half of the bytes never reach the disk
                    fh_.truncate(max(0, os.path.getsize(out) // 2))
                return out
            _sh.copy2 = short_copy2
        try:
            if f.size_b is not None:
                io.reserve_bytes(f.size_b)
            task = tmod.Task(func=pull_async, queue=q, key="k", args=(io, io.tree_lock, req_row), name="pull")
            item = q.get(timeout=0.001)
            raised = None
            try:
                item[0]()
            except Exception as ex:  # noqa  -- an uncaught exception in a task aborts the daemon
                raised = f"{type(ex).__name__}: {ex}"
                try:
                    item[0].do_cleanup()
                except Exception:
                    pass
            q.task_done(item[1])
        finally:
            os.environ["PATH"] = old_path
            _sh.copy2 = real_copy2
        row = db.ArchiveFileCopyRequest.get(id=req_row.id)
        dst_after = self.w.file_on(dest, f)
        with dmod._mutex:
            reserved = dmod._reserved_bytes.get(dest.name, 0)
            dmod._reserved_bytes[dest.name] = 0
        # the pull task ends by measuring the destination's free space and recording it in the index
        av_after = db.StorageNode.get(id=dest.id).avail_gb
        if av_after != av_before:
            line += f"\nw.op measure {dest.id} {'-' if av_after is None else round(av_after * 2 ** 20)}"
        return line, dict(kind="pull", transfer=transfer, route=pathdir, mode=mode, completed=bool(row.completed),
                          cancelled=bool(row.cancelled), src=src_bytes, dst_before=dst_before, dst_after=dst_after,
                          leftovers=self.leftovers(dest), reserved_after=reserved, dest=dest.id, file=f.id, src_node=src.id, raised=raised)


# ------------------------------------------------------------------------------------------------ histories
def healthy_bytes(case):
    db = case.w.db
    out = {}
    for c in db.ArchiveFileCopy.select().where(db.ArchiveFileCopy.has_file == "Y"):
        n = db.StorageNode.get(id=c.node_id)
        f = db.ArchiveFile.get(id=c.file_id)
        p = os.path.join(n.root, f.acq.name, f.name)
        if os.path.exists(p):
            st = os.stat(p)
            out[(c.node_id, c.file_id)] = (case.w.file_on(n, f), st.st_mtime_ns)
    return out


def transfer_chain(case, rq, problems, want=None):
    """the daemon's own chain for one pending request: update_pull -> [pre-pull search ->] pull task; returns the list of
    (model line, step dict) or None when the destination is not served by h1"""
    db = case.w.db
    dest = db.StorageNode.get(db.StorageNode.group == rq.group_to_id)
    if dest.host != "h1" or not dest.active:
        return None
    f = db.ArchiveFile.get(id=rq.file_id)
    chain = dict(kind="chain", file=f.id, dest=dest.id, dst_at_start=case.w.file_on(dest, f),
                 dest_state_at_start=(db.ArchiveFileCopy.get_or_none(file=f, node=dest) or type("x", (), {"has_file": "N"})).has_file)
    sub = []
    l1, d1 = case.step_decide(db.ArchiveFileCopyRequest.get(id=rq.id))
    sub.append((l1, d1))
    go = d1["decision"].startswith("dispatch")
    force = d1["decision"] == "dispatch:1"
    if go and not force:
        l2, d2 = case.step_search(db.ArchiveFileCopyRequest.get(id=rq.id), dest)
        sub.append((l2, d2))
        go = d2["passOn"]
    if go:
        l3, d3 = case.step_pull(db.ArchiveFileCopyRequest.get(id=rq.id), dest, want)
        d3["chain"] = chain
        d3["forced"] = force
        sub.append((l3, d3))
        if (chain["dst_at_start"] is not None and d3["dst_after"] is not None and d3["dst_after"] != chain["dst_at_start"]
                and chain["dest_state_at_start"] != "X"):
            problems.append(("overwrite", f"destination file of file {f.id} on node {dest.id} (copy state "
                             f"{chain['dest_state_at_start']}) was overwritten by a pull without having been verified corrupt", d3))
    return sub


def random_history(case, nsteps, weights):
    """runs a random history on the real code; returns dict(lines, exp, steps, problems)
       weights: dict kind -> weight for kinds in select_delete, delete, check, decide, search, pull, op"""
    rng = case.rng
    db = case.w.db
    lines = case.setup_lines() + ["w.dump"]
    exp = [None] * (len(lines) - 1) + [case.real_dump()]
    steps = []
    problems = []
    pending_deletes = []          # copy rows selected by update_delete and not yet processed
    kinds = list(weights)
    for si in range(nsteps):
        kind = rng.choices(kinds, [weights[k] for k in kinds])[0]
        hb = healthy_bytes(case)
        line = None
        d = None
        if kind == "select_delete":
            import alpenhorn.daemon.update as upd
            from alpenhorn.scheduler import FairMultiFIFOQueue
            locals_ = [n for n in db.StorageNode.select() if n.host == "h1"]
            if not locals_:
                continue
            node = rng.choice(locals_)
            un = upd.UpdateableNode(FairMultiFIFOQueue(), node)
            sel = []
            un.io.delete = lambda copies: sel.extend(copies)
            case.env.set_host("h1")
            un.update_delete()
            sizes = ",".join(f"{case.mid_copy.get(c.id, c.id)}:{c.size_b}" for c in db.ArchiveFileCopy.select().where(
                db.ArchiveFileCopy.node == node) if c.size_b is not None) or "-"
            line = f"w.q updateDeleteSized {node.id} {sizes}"
            real_ids = ",".join(str(case.mid_copy.get(c.id, c.id)) for c in sel) or "-"
            d = dict(kind="select_delete", node=node.id, selected=[c.id for c in sel])
            lines.append(line); exp.append(real_ids)
            # property oracle on the selection (fresh index reads)
            for c in sel:
                row = db.ArchiveFileCopy.get(id=c.id)
                nd = db.StorageNode.get(id=row.node_id)
                pend = db.ArchiveFileCopyRequest.select().where(
                    db.ArchiveFileCopyRequest.file == row.file_id, db.ArchiveFileCopyRequest.node_from == nd.id,
                    db.ArchiveFileCopyRequest.completed == 0, db.ArchiveFileCopyRequest.cancelled == 0).count()
                under = nd.avail_gb is not None and nd.avail_gb < nd.min_avail_gb
                okw = row.wants_file == "N" or (row.wants_file == "M" and nd.storage_type != "A" and under)
                if not okw or pend or row.has_file == "N":
                    problems.append(("select", f"copy {c.id} (has={row.has_file} wants={row.wants_file}, node type {nd.storage_type}, "
                                     f"under_min={under}, pending source={bool(pend)}) was selected for deletion", d))
            pending_deletes += sel
            steps.append(d)
            continue
        if kind == "delete":
            if pending_deletes and rng.random() < 0.8:
                row = pending_deletes.pop(0)
            else:
                rows = [c for c in db.ArchiveFileCopy.select()
                        if db.StorageNode.get(id=c.node_id).host == "h1"]
                if not rows:
                    continue
                row = rng.choice(rows)
            line, d = case.step_delete_one(row)
            if d["unlinked"] and d["elsewhere_before"] < 2:
                problems.append(("unlink", f"file {d['file']} unlinked from node {d['node']} while the index recorded only "
                                 f"{d['elsewhere_before']} healthy archive copies elsewhere", d))
            if not d["root_ok"] or not d["marker_ok"]:
                problems.append(("root", "node root or marker removed by a delete", d))
        elif kind == "check":
            rows = list(db.ArchiveFileCopy.select())
            if not rows:
                continue
            line, d = case.step_check(rng.choice(rows))
        elif kind == "transfer":
            # the daemon's own chain for one pending request: update_pull -> [pre-pull search ->] pull task,
            # with operator commands (never environment faults) possibly in between
            rows = [r for r in db.ArchiveFileCopyRequest.select() if not r.completed and not r.cancelled]
            if not rows:
                continue
            rq = rng.choice(rows)
            sub = transfer_chain(case, rq, problems)
            if sub is None:
                continue
            for (l, dd) in sub:
                for l_ in l.split("\n"):
                    lines.append(l_); exp.append(None)
                lines.append("w.dump"); exp.append(None)
                steps.append(dd)
            exp[-1] = case.real_dump()
            continue
        elif kind in ("decide", "search", "pull"):
            rows = list(db.ArchiveFileCopyRequest.select())
            if kind == "pull":
                # a pull task exists only for a request that was pending when it was dispatched; one that has been completed or
                # cancelled since is still possible (stale task) but must at least have been dispatched: keep to pending ones
                rows = [r for r in rows if not r.completed and not r.cancelled]
            if not rows:
                continue
            rq = rng.choice(rows)
            dest = db.StorageNode.get(db.StorageNode.group == rq.group_to_id)
            if kind == "decide":
                line, d = case.step_decide(rq)
            elif kind == "search":
                line, d = case.step_search(rq, dest)
            else:
                line, d = case.step_pull(rq, dest)
        elif kind == "stale":
            # an operator (or another task) changes a copy that a queued delete task already holds a snapshot of
            if not pending_deletes:
                continue
            c = rng.choice(pending_deletes)
            h, wn = rng.choice([("Y", "N"), ("Y", "N"), ("Y", "Y"), ("X", "N")])
            db.ArchiveFileCopy.update(has_file=h, wants_file=wn).where(db.ArchiveFileCopy.id == c.id).execute()
            line = f"w.op opSetCopy {case.mid_copy.get(c.id, c.id)} {h} {wn}"
            d = dict(kind="op", what="stale-setCopy")
        elif kind == "op":
            r = rng.random()
            rows = list(db.ArchiveFileCopy.select())
            if r < 0.6 and rows:
                c = rng.choice(rows)
                h, wn = rng.choice("YYMXN"), rng.choice("YMN")
                db.ArchiveFileCopy.update(has_file=h, wants_file=wn).where(db.ArchiveFileCopy.id == c.id).execute()
                line = f"w.op opSetCopy {case.mid_copy.get(c.id, c.id)} {h} {wn}"
                d = dict(kind="op", what="setCopy")
            elif r < 0.85:
                f = rng.choice(case.files)
                src = rng.choice(case.nodes)
                g = rng.choice([g for g in case.groups if g.id != src.group_id] or case.groups)
                db.ArchiveFileCopyRequest.create(file=f, node_from=src, group_to=g)
                line = f"w.op opAddReq {f.id} {src.id} {g.id}"
                d = dict(kind="op", what="addReq")
            else:
                reqs = list(db.ArchiveFileCopyRequest.select())
                if not reqs:
                    continue
                rq = rng.choice(reqs)
                db.ArchiveFileCopyRequest.update(cancelled=True).where(db.ArchiveFileCopyRequest.id == rq.id).execute()
                line = f"w.op opCancelReq {case.mid_req.get(rq.id, rq.id)}"
                d = dict(kind="op", what="cancelReq")
        elif kind == "fault":
            n = rng.choice(case.nodes)
            f = rng.choice(case.files)
            if rng.random() < 0.5:
                case.w.put_bytes(n, f, None)
                line = f"w.op fault {n.id} {f.id}"
            else:
                data = case.w.contents[f.id] + b"#"
                case.w.put_bytes(n, f, data)
                line = f"w.op fault {n.id} {f.id} {len(data)} {case.did(worldmod.md5(data))}"
            d = dict(kind="fault")
        if line is None:
            continue
        # healthy copies untouched by anything but a justified delete / the environment
        if d["kind"] not in ("fault",):
            hb2 = healthy_bytes(case)
            for key, (data, mt) in hb.items():
                if d["kind"] == "deleteOne" and key == (d["node"], d["file"]):
                    continue
                n = db.StorageNode.get(id=key[0]); f = db.ArchiveFile.get(id=key[1])
                now = case.w.file_on(n, f)
                if now != data:
                    problems.append(("healthy-touched", f"step {d['kind']} changed the bytes of file {key[1]} on node {key[0]} "
                                     f"which the index recorded as healthy", d))
        for l_ in line.split("\n"):
            lines.append(l_); exp.append(None)
        lines.append("w.dump"); exp.append(case.real_dump())
        steps.append(d)
    return dict(lines=lines, exp=exp, steps=steps, problems=problems)


# ------------------------------------------------------------------------------------------------ DB-fault sweeps
def run_worker(queue, max_tasks=50):
    """run the real Worker.run() in this thread until the queue is empty or the worker exits; returns exit code"""
    import alpenhorn.scheduler.pool as pmod

    class OneShot:
        def __init__(self, q):
            self.q = q
            self.worker = None

        def get(self, timeout=None):
            r = self.q.get(timeout=0.0005)
            if r is None:
                self.worker._worker_stop.set()
            return r

        def task_done(self, key):
            return self.q.task_done(key)

        def put(self, *a, **kw):
            return self.q.put(*a, **kw)
    wrap = OneShot(queue)
    w = pmod.Worker(queue=wrap, index=0)
    wrap.worker = w
    return w.run()


def fixed_world(env, variant=0):
    """a small deterministic world for fault / crash sweeps"""
    import shutil
    w = worldmod.World(env)
    db = w.db
    for m in (db.StorageTransferAction, db.ArchiveFileCopyRequest, db.ArchiveFileImportRequest, db.ArchiveFileCopy,
              db.ArchiveFile, db.ArchiveAcq, db.StorageNode, db.StorageGroup):
        m.delete().execute()
    shutil.rmtree(os.path.join(env.tmp, "roots"), ignore_errors=True)
    g1, g2, g3, g4 = (w.group(f"g{i}") for i in (1, 2, 3, 4))
    n1 = w.node("n1", g1, stype="A")
    # variant >= 10: the destination has a total-size limit configured (its quota check is one more query in the dispatch)
    n2 = w.node("n2", g2, stype="A" if variant % 2 == 0 else "F", max_kib=(10 ** 9 if variant >= 10 else None))
    n3 = w.node("n3", g3, stype="A")
    n4 = w.node("n4", g4, stype="A")
    acq = w.acq("acq")
    # variant 13: the file sits two directories deep, and those directories hold nothing else
    f = w.file(acq, "deep/er/f.dat" if variant == 13 else "sub/f.dat" if variant % 3 else "f.dat", b"0123456789" * 5)
    f2 = w.file(acq, "g.dat", b"abc")
    w.copy(f, n1, has="Y", wants="Y")
    w.copy(f, n3, has="Y", wants="Y")
    w.copy(f, n4, has="Y", wants="N")            # released copy: deletable (n1, n3 healthy archive copies)
    w.copy(f2, n4, has="M", wants="Y")           # suspect copy: to be checked
    w.copy(f2, n1, has="Y", wants="Y")
    req = w.req(f, n1, g2)
    w.edge(n2, g3, autosync=True)
    w.edge(n2, g4, autosync=True)
    w.edge(n1, g2, autoclean=True)
    w.edge(n3, g2, autosync=True)                # an arrival on n3 (import sweeps) must create one request n3 -> g2
    return w, dict(n1=n1, n2=n2, n3=n3, n4=n4, f=f, f2=f2, req=req, g2=g2)


def fault_sweep(env, kind, variant=0, pathdir="none", mode="ok"):
    """Runs task `kind` in a real Worker with an OperationalError injected at statement k, for every k.
       Yields dict per k with before/after dumps and the observations the oracles need."""
    import alpenhorn.scheduler.pool as pmod
    from alpenhorn.io import default as dmod
    import alpenhorn.daemon.update as upd
    from alpenhorn.scheduler import FairMultiFIFOQueue
    k = -1
    nstmt = None
    while True:
        w, o = fixed_world(env, variant)
        db = w.db
        env.set_host("h1")
        ctl = os.path.join(env.tmp, "toolctl.json")
        with open(ctl, "w") as fh:
            json.dump({"mode": mode}, fh)
        old_path = os.environ.get("PATH", "")
        os.environ["PATH"] = os.path.join(FAKE, pathdir)
        os.environ["VERIF_TOOL_CTL"] = ctl
        with dmod._mutex:
            dmod._reserved_bytes.clear()
        q = FairMultiFIFOQueue()
        un = {name: upd.UpdateableNode(q, o[name]) for name in ("n1", "n2", "n3", "n4")}
        before = envmod.dump_index()
        pmod.global_abort.clear()
        try:
            if kind == "pull":
                un["n2"].io.pull(db.ArchiveFileCopyRequest.get(id=o["req"].id))
            elif kind == "check":
                un["n4"].io.check(db.ArchiveFileCopy.get(file=o["f2"], node=o["n4"]))
            elif kind == "delete":
                un["n4"].io.delete([db.ArchiveFileCopy.get(file=o["f"], node=o["n4"])])
            elif kind in ("search", "search-pass"):
                ug = upd.UpdateableGroup(queue=q, group=o["g2"], nodes=[un["n2"]], idle=True)
                if kind == "search":
                    w.put_bytes(o["n2"], o["f"], b"unregistered")      # the search finds a file and stops
                # "search-pass": nothing there, the search task hands the request on (space and quota checks, reservation,
                # pull task) inside the worker
                ug.io.pull(db.ArchiveFileCopyRequest.get(id=o["req"].id))
            elif kind in ("import-event", "import-request"):
                import pathlib
                import verif_idext
                from alpenhorn.daemon import auto_import
                verif_idext.MODE[:] = ["first", 1]
                newp = os.path.join(o["n3"].root, "acq", "sub" if variant % 2 else "", "new.dat")
                os.makedirs(os.path.dirname(newp), exist_ok=True)
                with open(newp, "wb") as fh:
                    fh.write(b"fresh data")
                rel = os.path.relpath(newp, o["n3"].root)
                ireq = None
                if kind == "import-request":
                    ireq = db.ArchiveFileImportRequest.create(node=o["n3"], path=rel, recurse=False, register=True)
                    before = envmod.dump_index()
                auto_import.import_file(un["n3"], q, pathlib.PurePath(newp if kind == "import-event" else rel), True, ireq)
            queued = q.qsize
            envmod.verif_dbext.reset_counters()
            envmod.verif_dbext.CTL["fault_at"] = {k} if k >= 0 else set()
            code = run_worker(q)
        finally:
            envmod.verif_dbext.CTL["fault_at"] = set()
            os.environ["PATH"] = old_path
        n = envmod.verif_dbext.CTL["count"]
        after = envmod.dump_index()
        with dmod._mutex:
            reserved = dict(dmod._reserved_bytes)
        requeued = q.qsize
        after2 = None
        if kind.startswith("import") and k >= 0:
            # the respawned worker / the next update pass: whatever was re-queued runs now, without faults
            aborted1 = pmod.global_abort.is_set()
            pmod.global_abort.clear()
            if kind == "import-request" and not q.qsize:
                for r_ in db.ArchiveFileImportRequest.select().where(db.ArchiveFileImportRequest.completed == 0):
                    auto_import.import_file(un["n3"], q, pathlib.PurePath(r_.path), True, r_)      # what update_import does next pass
            run_worker(q)
            after2 = envmod.dump_index()
            if aborted1:
                pmod.global_abort.set()
        res = dict(kind=kind, k=k, variant=variant, route=pathdir, statements=n, exit_code=code, aborted=pmod.global_abort.is_set(),
                   before=before, after=after, reserved=reserved, qsize=q.qsize, inprogress=q.inprogress_size, requeued=requeued, after2=after2,
                   dest_bytes=w.file_on(o["n2"], o["f"]), src_bytes=w.file_on(o["n1"], o["f"]),
                   del_bytes=w.file_on(o["n4"], o["f"]), ids=dict(req=o["req"].id, f=o["f"].id, n2=o["n2"].id, n1=o["n1"].id, n4=o["n4"].id))
        pmod.global_abort.clear()
        yield res
        if k == -1:
            nstmt = n
        k += 1
        if nstmt is None or k >= nstmt:
            break


def judge_fault(res, ref):
    """property-text oracles for one faulted run; `ref` = the fault-free run of the same scenario"""
    probs = []
    if res["k"] < 0:
        return probs
    ids = res["ids"]
    if res["aborted"]:
        probs.append("global abort after a transient DB error")
    if res["exit_code"] != 1:
        probs.append(f"worker did not exit for respawn (exit code {res['exit_code']})")
    if res["inprogress"]:
        probs.append("queue slot not released")
    if any(v != 0 for v in res["reserved"].values()):
        probs.append(f"space reservation not released: {res['reserved']}")
    a = res["after"]
    reqs = {r[0]: r for r in a["req"]}
    r = reqs.get(ids["req"])
    dest = [c for c in a["copy"] if c[1] == ids["f"] and c[2] == ids["n2"]]
    dest_healthy = bool(dest) and dest[0][3] == "Y"
    if res["kind"] in ("pull", "search-pass"):
        if r is not None and r[4] and not dest_healthy:
            probs.append("request completed but no healthy destination copy recorded")
        if dest_healthy and not (r is not None and r[4]):
            probs.append("healthy destination copy recorded but the request is not completed (half-applied update)")
        if dest_healthy and res["dest_bytes"] != res["src_bytes"]:
            probs.append("healthy destination copy recorded without the source's bytes at the destination")
        # all or nothing, the post-add rules included: the index is what it was before the task, or what an undisturbed run
        # leaves (copy record, completed request, autosync requests created, autoclean sources released)
        if ref is not None and ref["after"]["req"] != ref["before"]["req"] or ref is not None and ref["after"]["copy"] != ref["before"]["copy"]:
            same_before = a["copy"] == res["before"]["copy"] and a["req"] == res["before"]["req"]
            same_done = a["copy"] == ref["after"]["copy"] and a["req"] == ref["after"]["req"]
            if not same_before and not same_done:
                diff = [x for x in a["req"] if x not in ref["after"]["req"]] + [x for x in ref["after"]["req"] if x not in a["req"]] + \
                       [x for x in a["copy"] if x not in ref["after"]["copy"]] + [x for x in ref["after"]["copy"] if x not in a["copy"]]
                probs.append(f"half-applied update: the index is neither what it was before the transfer nor what an undisturbed transfer "
                             f"leaves; rows differing from the complete result: {diff[:4]}")
    if res["kind"].startswith("import"):
        # the import is all-or-nothing, and it is not lost: after the worker is replaced (event: the task re-queued itself;
        # request: the next pass finds the request still pending) the index equals that of an undisturbed import
        probs = [p for p in probs if not p.startswith("worker did not exit")]
        final = res["after2"]
        want = ref["after"]
        strip = lambda d: {t: sorted(tuple(x[1:]) for x in d[t]) for t in ("acq", "file", "copy", "ireq", "req")}
        if strip(final) != strip(want):
            diff = {t: (strip(final)[t], strip(want)[t]) for t in ("acq", "file", "copy", "ireq", "req") if strip(final)[t] != strip(want)[t]}
            probs.append(f"import lost or half-applied: after the failed attempt and the retry the index differs from an undisturbed import "
                         f"(table: (got, expected)) {diff}")
    if res["kind"] == "delete":
        c = [c for c in a["copy"] if c[1] == ids["f"] and c[2] == ids["n4"]][0]
        if c[3] == "Y" and c[4] != "N":
            probs.append("delete left a wanted healthy row")
    return probs
