import Alpen.Model.Transport
/-! lemmas about `minKey` -/
namespace Alpen

theorem minKey_mem (best : Option TNode) (l : List TNode) (r : TNode) (h : minKey best l = some r) :
    best = some r ∨ r ∈ l := by
  induction l generalizing best with
  | nil => left; simpa [minKey] using h
  | cons n ns ih =>
    cases best with
    | none =>
      simp only [minKey] at h
      rcases ih _ h with h1 | h1
      · right; simp at h1; rw [h1]; exact List.mem_cons_self
      · right; exact List.mem_cons_of_mem _ h1
    | some b =>
      simp only [minKey] at h
      split at h
      · rcases ih _ h with h1 | h1
        · right; simp at h1; rw [h1]; exact List.mem_cons_self
        · right; exact List.mem_cons_of_mem _ h1
      · rcases ih _ h with h1 | h1
        · left; exact h1
        · right; exact List.mem_cons_of_mem _ h1

theorem minKey_le (best : Option TNode) (l : List TNode) (r : TNode) (h : minKey best l = some r) :
    (∀ b, best = some b → r.key ≤ b.key) ∧ ∀ m ∈ l, r.key ≤ m.key := by
  induction l generalizing best with
  | nil =>
    simp only [minKey] at h
    exact ⟨fun b hb => (by rw [h] at hb; cases hb; exact Int.le_refl _), fun m hm => (by cases hm)⟩
  | cons n ns ih =>
    cases best with
    | none =>
      simp only [minKey] at h
      obtain ⟨h1, h2⟩ := ih _ h
      refine ⟨fun b hb => (by cases hb), fun m hm => ?_⟩
      rcases List.mem_cons.mp hm with rfl | hm
      · exact h1 _ rfl
      · exact h2 m hm
    | some b =>
      simp only [minKey] at h
      split at h
      · rename_i hlt
        obtain ⟨h1, h2⟩ := ih _ h
        have hn := h1 n rfl
        refine ⟨fun b' hb' => (by cases hb'; omega), fun m hm => ?_⟩
        rcases List.mem_cons.mp hm with rfl | hm
        · exact hn
        · exact h2 m hm
      · rename_i hge
        obtain ⟨h1, h2⟩ := ih _ h
        have hb := h1 b rfl
        refine ⟨fun b' hb' => (by cases hb'; exact hb), fun m hm => ?_⟩
        rcases List.mem_cons.mp hm with rfl | hm
        · omega
        · exact h2 m hm

theorem minKey_none (l : List TNode) : minKey none l = none ↔ l = [] := by
  cases l with
  | nil => simp [minKey]
  | cons n ns =>
    simp only [minKey]
    constructor
    · intro h
      have : ∀ (b : TNode) (l : List TNode), minKey (some b) l ≠ none := by
        intro b l
        induction l generalizing b with
        | nil => simp [minKey]
        | cons m ms ih => simp only [minKey]; split <;> exact ih _
      exact absurd h (this n ns)
    · intro h; cases h
end Alpen
