import Alpen.Model.Basic
/-
  Models of the record selection of the CLI commands `node clean`, `node verify`,
  `group sync` / `node sync` (and their cancel forms), of `check_then_update` and of
  `check_if_from_stdin`.  Core Lean only.
-/
namespace Alpen

/-- one copy row on the node a command works on, with what the filters look at -/
structure KCopy where
  id : Nat
  file : Nat
  has : Has
  wants : Wants
  fsize : Option Nat        -- file.size_b
  deriving DecidableEq, Repr

/-! ### check_then_update -/

/-- does the update pass of `check_then_update(do_check, do_update, …)` run? -/
def updateRuns (doCheck doUpdate confirmed : Bool) : Bool :=
  doUpdate && (!doCheck || confirmed)

/-- `check_if_from_stdin(path, check, force)` -/
def checkIfFromStdin (isStdin check force : Bool) : Bool :=
  if check || force then check else isStdin

/-- how a command is run: `--check`, `--force`, file list from stdin, answer at the prompt -/
def commandUpdates (check force isStdin confirmed : Bool) : Bool :=
  let chk := checkIfFromStdin isStdin check force
  updateRuns (!force) (!chk) confirmed

/-! ### node clean -/

/-- the goal state of `node clean`: default M (mark removable), `--now` N, `--cancel` Y -/
abbrev CleanGoal := Wants

/-- copies the SQL query keeps when no size budget is given -/
def cleanWantsFilter (goal : CleanGoal) (c : KCopy) : Bool :=
  if goal = .M then c.wants == .Y else c.wants != goal

/-- copy already counts toward the size budget without being changed -/
def alreadyAtGoal (goal : CleanGoal) (c : KCopy) : Bool :=
  c.wants == goal || (goal == .M && c.wants == .N)

/-- the loop of `_run_query` over the id-ordered candidate rows (all other filters applied);
    returns the ids updated. `size = none`: no budget. -/
def cleanLoop (goal : CleanGoal) (size : Option Nat) : Nat → List KCopy → List Nat
  | _, [] => []
  | total, c :: cs =>
    match size with
    | none => c.id :: cleanLoop goal size total cs
    | some s =>
      let total' := total + c.fsize.getD 0
      if alreadyAtGoal goal c then
        if total' ≥ s then [] else cleanLoop goal size total' cs
      else
        if total' ≥ s then [c.id] else c.id :: cleanLoop goal size total' cs

/-- candidates: present-filter (healthy only, or anything not absent with --include-bad) plus the
    remaining filters abstracted as `keep` (acquisition, file list, target groups, registration age) -/
def cleanCandidates (includeBad : Bool) (keep : KCopy → Bool) (goal : CleanGoal) (size : Option Nat)
    (copies : List KCopy) : List KCopy :=
  copies.filter (fun c => (if includeBad then c.has != .N else c.has == .Y) && keep c &&
    (match size with | none => cleanWantsFilter goal c | some _ => true))

def nodeClean (includeBad : Bool) (keep : KCopy → Bool) (goal : CleanGoal) (size : Option Nat)
    (copies : List KCopy) : List Nat :=
  cleanLoop goal size 0 (cleanCandidates includeBad keep goal size copies)

/-- apply the update -/
def applyClean (goal : CleanGoal) (ids : List Nat) (copies : List KCopy) : List KCopy :=
  copies.map (fun c => if ids.contains c.id then { c with wants := goal } else c)

/-- specification of the size budget: the shortest id-ordered prefix whose sizes reach `s`
    (the whole list if they never do) -/
def budgetPrefix (s : Nat) : Nat → List KCopy → List KCopy
  | _, [] => []
  | total, c :: cs =>
    let total' := total + c.fsize.getD 0
    if total' ≥ s then [c] else c :: budgetPrefix s total' cs

/-! ### node verify -/

/-- `state_constraint(corrupt, healthy, missing)` -/
def verifyMatches (corrupt healthy missing : Bool) (c : KCopy) : Bool :=
  (corrupt && c.has == .X && c.wants != .N) || (healthy && c.has == .Y && c.wants != .N) ||
  (missing && c.has == .N && c.wants == .Y)

/-- verification request: selected copies get has := M -/
def nodeVerify (corrupt healthy missing : Bool) (keep : KCopy → Bool) (copies : List KCopy) : List Nat :=
  (copies.filter (fun c => verifyMatches corrupt healthy missing c && keep c)).map (·.id)

/-- cancel form: suspect, not released copies are forced to `goal` (Y, N or X) -/
def nodeVerifyCancel (keep : KCopy → Bool) (copies : List KCopy) : List Nat :=
  (copies.filter (fun c => c.has == .M && c.wants != .N && keep c)).map (·.id)

def applyHas (h : Has) (ids : List Nat) (copies : List KCopy) : List KCopy :=
  copies.map (fun c => if ids.contains c.id then { c with has := h } else c)

/-! ### group sync / node sync -/

structure KReq where
  file : Nat
  nodeFrom : Nat
  groupTo : Nat
  completed : Bool
  cancelled : Bool
  deriving DecidableEq, Repr

/-- files for which a new request (node → group) is created: healthy on the source node (id order),
    not skipped (healthy in the destination group or in any target group), passing the other
    filters, and without a pending request for the same (file, node, group) -/
def syncSel (srcCopies : List KCopy) (skipped : Nat → Bool) (keep : Nat → Bool)
    (reqs : List KReq) (node group : Nat) : List Nat :=
  ((srcCopies.filter (fun c => c.has == .Y && !skipped c.file && keep c.file)).map (·.file)).filter
    (fun f => !reqs.any (fun r => r.file == f && r.nodeFrom == node && r.groupTo == group && !r.completed && !r.cancelled))

def applySync (files : List Nat) (node group : Nat) (reqs : List KReq) : List KReq :=
  reqs ++ files.map (fun f => ⟨f, node, group, false, false⟩)

/-- cancel form: pending requests matching the filters -/
def syncCancelSel (reqs : List KReq) (node group : Option Nat) (keep : Nat → Bool) : List KReq :=
  reqs.filter (fun r => !r.cancelled && !r.completed && (match node with | some n => r.nodeFrom == n | none => true) &&
    (match group with | some g => r.groupTo == g | none => true) && keep r.file)

end Alpen
