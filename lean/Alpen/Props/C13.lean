import Alpen.Model.UpDown
import Alpen.Legacy.UpDown
import Alpen.Lemmas.UpDown
/-!
# C13 — directory-tree lock: two-state exclusion without lost wake-ups

"The directory-tree lock is never held in the 'up' and 'down' states at the same time, may be
re-acquired by a holder in the same state, refuses a holder asking for the opposite state,
and rejects a release by a non-holder. Under every thread schedule a blocking acquire
returns once the lock becomes available (no lost wake-up or deadlock) and a timed acquire
returns within its timeout."

All theorems are for any number of threads and any schedule (`ops : List UOp`, one entry per
critical section in mutex-acquisition order).
-/
namespace Alpen

-- the invariant structure `UDInv` (unchanged) and its preservation lemmas live in `Alpen/Lemmas/UpDown.lean`

theorem C13_inv_init : UDInv UD.init := by
  exact UDInv.init

theorem C13_inv_step (s : UD) (op : UOp) (h : UDInv s) : UDInv (ustep s op).1 := by
  exact h.step op

/-- the invariant holds in every reachable state, for every schedule -/
theorem C13_inv_reachable (ops : List UOp) : UDInv (urun UD.init ops) := by
  exact UDInv.init.run ops

/-- **C13.1 mutual exclusion** in no reachable state do an "up" holder and a "down" holder coexist;
    and the counter is the signed number of outstanding acquisitions. -/
theorem C13_mutual_exclusion (ops : List UOp) :
    let s := urun UD.init ops
    ¬ (s.ups ≠ [] ∧ s.downs ≠ []) ∧ s.count = (s.ups.length : Int) - (s.downs.length : Int) := by
  intro s
  have h : UDInv s := C13_inv_reachable ops
  by_cases hc : 0 ≤ s.count
  · obtain ⟨hd, hl⟩ := h.ups_len hc
    refine ⟨fun ⟨_, h2⟩ => h2 hd, ?_⟩
    rw [hd]; simp; omega
  · obtain ⟨hu, hl⟩ := h.downs_len (by omega)
    refine ⟨fun ⟨h1, _⟩ => h1 hu, ?_⟩
    rw [hu]; simp; omega

/-- **C13.2a re-entrant** a thread that holds the lock in some state (and is not parked) gets it
    again in the same state at once -/
theorem C13_reentrant (ops : List UOp) (t : Nat) (isDown blocking : Bool) (timeout : Option Nat) :
    let s := urun UD.init ops
    s.parked t = none →
    (if isDown then t ∈ s.downs else t ∈ s.ups) →
    (ustep s (.acq t isDown blocking timeout)).2 = .acquired := by
  intro s hp hm
  have h : UDInv s := C13_inv_reachable ops
  have ok : okToLock s.count isDown = true := by
    cases isDown
    · simp at hm
      simp [okToLock]
      by_cases hc : 0 ≤ s.count
      · exact hc
      · have := (h.downs_len (by omega)).1
        rw [this] at hm; simp at hm
    · simp at hm
      simp [okToLock]
      by_cases hc : s.count ≤ 0
      · exact hc
      · have := (h.ups_len (by omega)).1
        rw [this] at hm; simp at hm
  simp [ustep, hp, attempt, ok]

/-- **C13.2b** a holder asking for the opposite state is refused with an error and nothing changes
    except that it is (still) not parked -/
theorem C13_opposite_refused (ops : List UOp) (t : Nat) (isDown blocking : Bool) (timeout : Option Nat) :
    let s := urun UD.init ops
    s.parked t = none →
    (if isDown then t ∈ s.ups else t ∈ s.downs) →
    (ustep s (.acq t isDown blocking timeout)).2 = .error ∧
    (ustep s (.acq t isDown blocking timeout)).1.count = s.count ∧
    (ustep s (.acq t isDown blocking timeout)).1.owners = s.owners := by
  intro s hp hm
  have h : UDInv s := C13_inv_reachable ops
  have hown : s.owners t > 0 := by
    rw [h.owners_eq t]
    cases isDown
    · simp at hm
      have := List.count_pos_iff.2 hm; omega
    · simp at hm
      have := List.count_pos_iff.2 hm; omega
  have nok : okToLock s.count isDown = false := by
    cases isDown
    · simp at hm
      simp [okToLock]
      by_cases hc : 0 ≤ s.count
      · have := (h.ups_len hc).1
        rw [this] at hm; simp at hm
      · omega
    · simp at hm
      simp [okToLock]
      by_cases hc : s.count ≤ 0
      · have := (h.downs_len hc).1
        rw [this] at hm; simp at hm
      · omega
  simp [ustep, hp, attempt, nok, hown]

/-- **C13.2c** a release by a thread that does not hold the lock in that state is rejected and
    changes nothing -/
theorem C13_release_nonholder (ops : List UOp) (t : Nat) (isDown : Bool) :
    let s := urun UD.init ops
    s.parked t = none →
    (if isDown then t ∉ s.downs else t ∉ s.ups) →
    ustep s (.rel t isDown) = (s, .error) := by
  intro s hp hm
  have h : UDInv s := C13_inv_reachable ops
  cases isDown
  · simp at hm
    by_cases hc : s.count > 0
    · have hd := (h.ups_len (by omega)).1
      have ho : s.owners t = 0 := by
        rw [h.owners_eq t, hd, List.count_eq_zero.2 hm]; simp
      simp [ustep, hp, ho]
    · simp [ustep, hp, hc]
  · simp at hm
    by_cases hc : s.count < 0
    · have hu := (h.downs_len (by omega)).1
      have ho : s.owners t = 0 := by
        rw [h.owners_eq t, hu, List.count_eq_zero.2 hm]; simp
      simp [ustep, hp, ho]
    · simp [ustep, hp, hc]

/-- **C13.3 no lost wake-up** in every reachable state, whenever the lock is not held in the
    state that excludes a parked thread's request (in particular whenever it is free), that
    thread has been notified, and its next critical section acquires the lock. -/
theorem C13_no_lost_wakeup (ops : List UOp) (t : Nat) (p : Park) :
    let s := urun UD.init ops
    s.parked t = some p → ¬ Blocks s.count p.isDown →
    p.notified = true ∧ (ustep s (.wake t)).2 = .acquired := by
  intro s hp hnb
  have h : UDInv s := C13_inv_reachable ops
  have ok : okToLock s.count p.isDown = true := by
    cases hk : okToLock s.count p.isDown
    · exact absurd ((blocks_iff_not_ok _ _).2 hk) hnb
    · rfl
  constructor
  · cases hn : p.notified
    · exact absurd (h.nlw t p hp hn) hnb
    · rfl
  · simp [ustep, hp, attempt, ok]

/-- **C13.3 no deadlock** in every reachable state with a parked thread, either some thread
    holds the lock (and can release it: its `rel` is accepted) or the parked thread's wake
    step acquires. -/
theorem C13_no_deadlock (ops : List UOp) (t : Nat) (p : Park) :
    let s := urun UD.init ops
    s.parked t = some p →
    (∃ h, s.parked h = none ∧ (ustep s (.rel h (decide (s.count < 0)))).2 = .released) ∨
    (ustep s (.wake t)).2 = .acquired := by
  intro s hp
  have h : UDInv s := C13_inv_reachable ops
  cases hk : okToLock s.count p.isDown
  · left
    have hb : Blocks s.count p.isDown := (blocks_iff_not_ok _ _).2 hk
    by_cases hc : s.count < 0
    · obtain ⟨hu, hl⟩ := h.downs_len (by omega)
      have hne : s.downs ≠ [] := by
        intro e; rw [e] at hl; simp at hl; omega
      obtain ⟨x, hx⟩ := List.exists_mem_of_ne_nil _ hne
      have ho : s.owners x > 0 := by
        rw [h.owners_eq x]; have := List.count_pos_iff.2 hx; omega
      have hpx : s.parked x = none := by
        cases hq : s.parked x with
        | none => rfl
        | some q => have := h.parked_free x q hq; omega
      refine ⟨x, hpx, ?_⟩
      by_cases hz : s.count + 1 = 0 <;> simp [ustep, hpx, hc, ho, hz]
    · have hc' : s.count > 0 := by
        revert hb; cases p.isDown <;> simp [Blocks] <;> omega
      obtain ⟨hd, hl⟩ := h.ups_len (by omega)
      have hne : s.ups ≠ [] := by
        intro e; rw [e] at hl; simp at hl; omega
      obtain ⟨x, hx⟩ := List.exists_mem_of_ne_nil _ hne
      have ho : s.owners x > 0 := by
        rw [h.owners_eq x]; have := List.count_pos_iff.2 hx; omega
      have hpx : s.parked x = none := by
        cases hq : s.parked x with
        | none => rfl
        | some q => have := h.parked_free x q hq; omega
      refine ⟨x, hpx, ?_⟩
      by_cases hz : s.count - 1 = 0 <;> simp [ustep, hpx, hc, hc', ho, hz]
  · right
    simp [ustep, hp, attempt, hk]

/-- **C13.4 timed acquire** a parked thread whose deadline has passed returns at its next
    critical section (acquired or timed out) — it never waits again. -/
theorem C13_timed_returns (s : UD) (t : Nat) (p : Park) (d : Nat)
    (hp : s.parked t = some p) (hd : p.deadline = some d) (hexp : d ≤ s.clock) :
    (ustep s (.wake t)).2 ≠ .parked ∧ (ustep s (.wake t)).1.parked t = none := by
  simp only [ustep, hp, attempt, hd]
  split
  · simp [grant, upd]
  · split
    · simp [upd]
    · simp [upd]

/-- a timed acquire never parks with a deadline later than `now + timeout` -/
theorem C13_deadline_bound (s : UD) (t : Nat) (isDown : Bool) (timeout : Nat) (p : Park)
    (h : (ustep s (.acq t isDown true (some timeout))).1.parked t = some p)
    (hfresh : s.parked t = none) :
    p.deadline = some (timeout + s.clock) := by
  simp only [ustep, hfresh, attempt] at h
  revert h
  split
  · simp [grant, upd]
  · split
    · simp [upd]
    · simp only [Option.map_some, Bool.not_true, Bool.false_eq_true, if_false]
      split
      · simp [upd]
      · simp only [upd, if_true]; intro e
        have e := Option.some.inj e
        rw [← e]

/-- **C13.5 (pinned structure, finding F3)** with the fast-path check under one lock and the
    wait on a condition with a *different* lock, a two-thread schedule reaches a state where
    the lock is free and a blocking acquirer waits un-notified for ever. -/
theorem C13_legacy_lost_wakeup :
    ∃ ops : List Legacy.LOp,
      let s := Legacy.lrun Legacy.LUD.init ops
      s.count = 0 ∧ s.pc 1 = .waiting false := by
  refine ⟨[.acq 0 false, .acq 1 true, .rel 0 false, .enterWait 1], ?_⟩
  decide

-- non-vacuity: a reachable state with a parked, later notified, thread
example : ((urun UD.init [.acq 0 false true none, .acq 1 true true none]).parked 1) = some ⟨true, none, false⟩ := by decide
example : ((urun UD.init [.acq 0 false true none, .acq 1 true true none, .rel 0 false]).parked 1) = some ⟨true, none, true⟩ := by decide

end Alpen
