#!/bin/sh
# Build the Lean project (models, theorems, driver) from files on disk only.  Offline.
cd "$(dirname "$0")"
/venv/bin/python harness/extract.py || exit 1
cd lean
lake build driver || exit 1           # models + driver: must always build
lake build Alpen || echo "setup: some Props modules do not build against the current /repo (checks will report this)"
exit 0
