import Alpen.Model.Cli
import Alpen.Lemmas.Cli
/-!
# C18 — CLI clean/verify/sync select exactly the documented records, idempotently

"The cleaning, verification and sync commands (node clean, node verify, node sync, group sync,
file clean and their cancel forms) change exactly the records their documented filters select —
node, acquisition, file list, target groups, registration age, size budget, copy state — and
report the same set in check mode. Repeating the same command makes no further change, and a
repeated node or group sync never creates a second pending request for the same file, source and
destination."

`keep` stands for the conjunction of the filters that look only at the file (acquisition, file
list, target groups, registration age); it does not depend on the copy's `wants`/`has`
(hypotheses `hk`).  For `node clean --now --size S --target G` with NODE's own group in G the
target set itself shrinks when copies are released, so `keep` is not stable and idempotence
fails: finding F15 (known finding), excluded by `hk`.
-/
namespace Alpen

def presentFilter (includeBad : Bool) (c : KCopy) : Bool := if includeBad then c.has != .N else c.has == .Y

/-- **node clean without a size budget** updates exactly the present copies passing the filters
    whose state differs from the goal (default goal: only wanted copies are marked removable) -/
theorem C18_clean_exact (includeBad : Bool) (keep : KCopy → Bool) (goal : CleanGoal) (copies : List KCopy) :
    nodeClean includeBad keep goal none copies =
      (copies.filter (fun c => presentFilter includeBad c && keep c && cleanWantsFilter goal c)).map (·.id) := by
  simp [nodeClean, cleanLoop_none, cleanCandidates, presentFilter]

/-- **node clean --size S** updates, among the shortest id-ordered prefix of the candidates whose
    file sizes reach S (copies already at the goal count toward S), exactly those not already at
    the goal -/
theorem C18_clean_budget (includeBad : Bool) (keep : KCopy → Bool) (goal : CleanGoal) (s : Nat) (copies : List KCopy) :
    nodeClean includeBad keep goal (some s) copies =
      ((budgetPrefix s 0 (copies.filter (fun c => presentFilter includeBad c && keep c))).filter
        (fun c => !alreadyAtGoal goal c)).map (·.id) := by
  simp [nodeClean, cleanLoop_some, cleanCandidates, presentFilter]

/-- **node clean is idempotent** (any goal, with or without budget) -/
theorem C18_clean_idempotent (includeBad : Bool) (keep : KCopy → Bool) (goal : CleanGoal) (size : Option Nat)
    (copies : List KCopy) (hk : ∀ c w, keep { c with wants := w } = keep c)
    (hids : (copies.map (·.id)).Nodup) :
    nodeClean includeBad keep goal size
      (applyClean goal (nodeClean includeBad keep goal size copies) copies) = [] := by
  -- `hids` is not needed by the proof: a row sharing its id with a selected row is set to
  -- `wants = goal` too, which is at the goal / fails the wants filter
  have _ := hids
  cases size with
  | none =>
    have hkey : ∀ l : List KCopy, nodeClean includeBad keep goal none l =
        (l.filter (fun c => presentFilter includeBad c && keep c && cleanWantsFilter goal c)).map (·.id) :=
      fun l => C18_clean_exact includeBad keep goal l
    rw [hkey, hkey]
    unfold applyClean
    rw [filter_update_selected_nil (fun c => presentFilter includeBad c && keep c && cleanWantsFilter goal c)
      (·.id) (fun c => { c with wants := goal }) copies]
    · rfl
    · intro c
      have : cleanWantsFilter goal { c with wants := goal } = false := by
        cases goal <;> simp [cleanWantsFilter]
      simp [this]
  | some s =>
    rw [C18_clean_budget includeBad keep goal s (applyClean _ _ _)]
    generalize hids' : nodeClean includeBad keep goal (some s) copies = ids
    rw [C18_clean_budget] at hids'
    have hQ : ∀ c, (presentFilter includeBad (if ids.contains c.id then { c with wants := goal } else c) &&
        keep (if ids.contains c.id then { c with wants := goal } else c)) =
        (presentFilter includeBad c && keep c) := by
      intro c
      by_cases h : ids.contains c.id = true
      · rw [if_pos h, hk]; rfl
      · rw [if_neg h]
    have hcand : (applyClean goal ids copies).filter (fun c => presentFilter includeBad c && keep c) =
        (copies.filter (fun c => presentFilter includeBad c && keep c)).map
          (fun c => if ids.contains c.id then { c with wants := goal } else c) := by
      unfold applyClean
      rw [List.filter_map]
      congr 1
      apply List.filter_congr
      intro c _
      exact hQ c
    rw [hcand, budgetPrefix_map]
    · rw [List.map_eq_nil_iff, List.filter_eq_nil_iff]
      intro c' hc'
      rcases List.mem_map.1 hc' with ⟨c, hc, rfl⟩
      by_cases h : ids.contains c.id = true
      · rw [if_pos h]; simp [alreadyAtGoal]
      · rw [if_neg h]
        intro hna
        apply h
        rw [List.contains_iff_mem, ← hids']
        exact List.mem_map.2 ⟨c, List.mem_filter.2 ⟨hc, hna⟩, rfl⟩
    · intro c
      by_cases h : ids.contains c.id = true
      · rw [if_pos h]
      · rw [if_neg h]

/-- **node verify** selects exactly the copies in the requested states passing the filters -/
theorem C18_verify_exact (corrupt healthy missing : Bool) (keep : KCopy → Bool) (copies : List KCopy) (i : Nat) :
    i ∈ nodeVerify corrupt healthy missing keep copies ↔
      ∃ c ∈ copies, c.id = i ∧ keep c = true ∧
        ((corrupt = true ∧ c.has = .X ∧ c.wants ≠ .N) ∨ (healthy = true ∧ c.has = .Y ∧ c.wants ≠ .N) ∨
         (missing = true ∧ c.has = .N ∧ c.wants = .Y)) := by
  simp only [nodeVerify, verifyMatches, List.mem_map, List.mem_filter]
  constructor
  · rintro ⟨c, ⟨hc, hm⟩, rfl⟩
    refine ⟨c, hc, rfl, ?_⟩
    simp at hm
    grind
  · rintro ⟨c, hc, rfl, hkp, hm⟩
    refine ⟨c, ⟨hc, ?_⟩, rfl⟩
    simp
    grind

theorem C18_verify_idempotent (corrupt healthy missing : Bool) (keep : KCopy → Bool) (copies : List KCopy)
    (hk : ∀ c h, keep { c with has := h } = keep c) (hids : (copies.map (·.id)).Nodup) :
    nodeVerify corrupt healthy missing keep
      (applyHas .M (nodeVerify corrupt healthy missing keep copies) copies) = [] := by
  -- `hk`, `hids` are not needed by the proof: an updated row has `has = M`, never matched
  have _ := hk; have _ := hids
  unfold nodeVerify applyHas
  rw [filter_update_selected_nil (fun c => verifyMatches corrupt healthy missing c && keep c)
      (·.id) (fun c => { c with has := .M }) copies]
  · rfl
  · intro c
    simp [verifyMatches]

theorem C18_verify_cancel_idempotent (keep : KCopy → Bool) (copies : List KCopy) (g : Has) (hg : g ≠ .M)
    (hk : ∀ c h, keep { c with has := h } = keep c) (hids : (copies.map (·.id)).Nodup) :
    nodeVerifyCancel keep (applyHas g (nodeVerifyCancel keep copies) copies) = [] := by
  -- `hk`, `hids` are not needed by the proof: an updated row has `has = g ≠ M`, never matched
  have _ := hk; have _ := hids
  unfold nodeVerifyCancel applyHas
  rw [filter_update_selected_nil (fun c => c.has == .M && c.wants != .N && keep c)
      (·.id) (fun c => { c with has := g }) copies]
  · rfl
  · intro c
    have : (g == Has.M) = false := by cases g <;> simp_all
    simp [this]

/-- **sync** creates a request for exactly the files healthy on the source, not skipped, passing
    the filters and not already pending for the same (file, source, destination) -/
theorem C18_sync_exact (src : List KCopy) (skipped keep : Nat → Bool) (reqs : List KReq) (node group f : Nat) :
    f ∈ syncSel src skipped keep reqs node group ↔
      (∃ c ∈ src, c.file = f ∧ c.has = .Y) ∧ skipped f = false ∧ keep f = true ∧
      ¬ ∃ r ∈ reqs, r.file = f ∧ r.nodeFrom = node ∧ r.groupTo = group ∧ r.completed = false ∧ r.cancelled = false := by
  simp [syncSel]
  grind

/-- **a repeated sync never creates a second pending request** -/
theorem C18_sync_no_duplicate (src : List KCopy) (skipped keep : Nat → Bool) (reqs : List KReq) (node group : Nat) :
    syncSel src skipped keep (applySync (syncSel src skipped keep reqs node group) node group reqs) node group = [] := by
  generalize hsel : syncSel src skipped keep reqs node group = sel
  unfold syncSel at hsel ⊢
  rw [List.filter_eq_nil_iff]
  intro f hf
  unfold applySync
  rw [List.any_append, Bool.not_eq_true, Bool.not_eq_false', Bool.or_eq_true]
  by_cases hp : (reqs.any (fun r => r.file == f && r.nodeFrom == node && r.groupTo == group &&
      !r.completed && !r.cancelled)) = true
  · exact Or.inl hp
  · right
    have hfs : f ∈ sel := by
      rw [← hsel]
      exact List.mem_filter.2 ⟨hf, by simpa using hp⟩
    rw [List.any_eq_true]
    exact ⟨⟨f, node, group, false, false⟩, List.mem_map.2 ⟨f, hfs, rfl⟩, by simp⟩

/-- one run creates at most one request per file (unique (file, node) copies) -/
theorem C18_sync_nodup (src : List KCopy) (skipped keep : Nat → Bool) (reqs : List KReq) (node group : Nat)
    (hu : (src.map (·.file)).Nodup) :
    (syncSel src skipped keep reqs node group).Nodup := by
  unfold syncSel
  exact List.Nodup.sublist (List.filter_sublist.trans (List.Sublist.map _ List.filter_sublist)) hu

/-- **sync --cancel** cancels exactly the pending requests matching the filters, and is idempotent -/
theorem C18_sync_cancel_idempotent (reqs : List KReq) (node group : Option Nat) (keep : Nat → Bool) :
    let sel := syncCancelSel reqs node group keep
    (∀ r ∈ sel, r.completed = false ∧ r.cancelled = false) ∧
    syncCancelSel (reqs.map (fun r => if sel.contains r then { r with cancelled := true } else r)) node group keep = [] := by
  intro sel
  constructor
  · intro r hr
    have := (List.mem_filter.1 hr).2
    simp at this
    exact ⟨this.1.1.1.2, this.1.1.1.1⟩
  · unfold syncCancelSel
    rw [List.filter_eq_nil_iff]
    intro r' hr'
    rcases List.mem_map.1 hr' with ⟨r, hr, rfl⟩
    by_cases h : sel.contains r = true
    · rw [if_pos h]; simp
    · rw [if_neg h]
      intro hp
      apply h
      rw [List.contains_iff_mem]
      exact List.mem_filter.2 ⟨hr, hp⟩

-- non-vacuity
example : nodeClean false (fun _ => true) .M (some 10)
    [⟨1, 1, .Y, .Y, some 4⟩, ⟨2, 2, .Y, .M, some 4⟩, ⟨3, 3, .Y, .Y, some 4⟩, ⟨4, 4, .Y, .Y, some 4⟩] = [1, 3] := by decide

end Alpen
