import Alpen.Model.Hsm
import Alpen.Lemmas.Hsm
/-!
# C20 — HSM residency discipline on Lustre-HSM nodes

"On HSM-backed nodes a file is opened, hashed or offered as a transfer source only while
resident on disk; released files are first restored and waited for, and restore bookkeeping is
cleared on every outcome so later requests are not skipped forever. Space is reclaimed by
releasing only healthy, ready, fully restored copies, least recently updated first, just until
the configured headroom is met, and each copy's ready flag is brought into line with the
residency state the file system reports, for any well-formed lfs output."
-/
namespace Alpen

/-- **parsers, path-independence** for every path whatsoever (including paths containing
    "archived", "released", "RESTORE" or ':'), the state parsed from `path: rest` depends only
    on `rest` and on the action output's part after its own `path:` prefix -/
theorem C20_state_path_independent (path rest arest : Str) :
    hsmStateParse path (.ok (path ++ ':' :: rest)) (.ok (path ++ ':' :: arest)) =
      some (if !isInfixB kwArchived (':' :: rest) then .unarchived
            else if !isInfixB kwReleased (':' :: rest) then .restored
            else if isInfixB kwRestore (':' :: arest) then .restoring else .released) := by
  simp only [hsmStateParse, hsmRestoringParse, stripPath_colon, Option.getD_some]
  cases isInfixB kwArchived (':' :: rest) <;> cases isInfixB kwReleased (':' :: rest) <;>
    cases isInfixB kwRestore (':' :: arest) <;> rfl

theorem C20_restoring_path_independent (path arest : Str) :
    hsmRestoringParse path (.ok (path ++ ':' :: arest)) = some (isInfixB kwRestore (':' :: arest)) := by
  simp only [hsmRestoringParse, stripPath_colon, Option.getD_some]

/-- the error cases of the state query -/
theorem C20_state_errors (path : Str) (a : LfsRun) :
    hsmStateParse path .failed a = none ∧ hsmStateParse path .timeout a = none ∧
    hsmStateParse path .missing a = some .missing ∧
    (∀ out, stripPath path out = none → hsmStateParse path (.ok out) a = none) := by
  refine ⟨rfl, rfl, rfl, ?_⟩
  intro out h
  simp only [hsmStateParse, h]

/-- pinned behaviour (finding F4): a released file that is *not* being restored, but whose path
    contains "RESTORE", is reported as being restored -/
theorem C20_legacy_path_keyword :
    ∃ path arest, isInfixB kwRestore (':' :: arest) = false ∧
      hsmRestoringLegacy path (.ok (path ++ ':' :: arest)) = some true := by
  exact ⟨"/x/RESTORE".toList, " NOOP".toList, by decide, by decide⟩

/-- **restore bookkeeping** whatever the file system answers, a restore-wait that ends (ready or
    error) leaves no trace of the file in the bookkeeping, and one that says "wait" records it -/
theorem C20_restore_bookkeeping (b : Rbk) (f : Nat) (st : Option HsmState) (rr : Option Bool) :
    let r := restoreWait b f st rr
    (r.2 ≠ .wait → f ∉ r.1.restoring ∧ f ∉ r.1.started) ∧
    (r.2 = .wait → f ∈ r.1.restoring) ∧
    (∀ g, g ≠ f → (g ∈ r.1.restoring ↔ g ∈ b.restoring)) := by
  intro r
  have hc := mem_clear b f
  rcases restoreWait_cases b f st rr with h | h | ⟨h, _⟩
  all_goals
    have hr : r = _ := h
    rw [hr]
  · refine ⟨fun _ => ⟨?_, ?_⟩, fun h => (by cases h), fun g hg => ?_⟩
    · simp [(hc f).1]
    · simp [(hc f).2]
    · simp [(hc g).1, hg]
  · exact ⟨fun h => absurd rfl h, fun _ => mem_mark_self b f, fun g hg => mem_mark_ne b f g hg⟩
  · refine ⟨fun _ => ⟨?_, ?_⟩, fun h => (by cases h), fun g hg => ?_⟩
    · simp [(hc f).1]
    · simp [(hc f).2]
    · simp [(hc g).1, hg]

/-- hence on *every* exit of the task's wait loop the bookkeeping for the file is clear, for
    every sequence of answers (later checks / ready-pulls of that file are not skipped) -/
theorem C20_loop_exit_clears (f : Nat) (b : Rbk) (answers : List (Option HsmState × Option Bool)) (r : WaitRes)
    (h : (restoreLoop f b answers).2 = some r) :
    f ∉ (restoreLoop f b answers).1.restoring ∧ f ∉ (restoreLoop f b answers).1.started ∧ r ≠ .wait := by
  induction answers generalizing b with
  | nil => simp [restoreLoop] at h
  | cons a rest ih =>
    obtain ⟨st, rr⟩ := a
    have hb := C20_restore_bookkeeping b f st rr
    simp only at hb
    unfold restoreLoop at h ⊢
    rcases hw : restoreWait b f st rr with ⟨b', w⟩
    rw [hw] at hb
    cases w
    case wait => simp only [hw] at h ⊢; exact ih b' h
    case ready =>
      simp only [hw] at h ⊢
      have hr : r = .ready := by simpa using h.symm
      have := hb.1 (by simp)
      exact ⟨this.1, this.2, by simp [hr]⟩
    case error =>
      simp only [hw] at h ⊢
      have hr : r = .error := by simpa using h.symm
      have := hb.1 (by simp)
      exact ⟨this.1, this.2, by simp [hr]⟩

/-- **resident only** the loop reports "ready" only when the last answer was a resident state -/
theorem C20_ready_only_if_resident (f : Nat) (b : Rbk) (answers : List (Option HsmState × Option Bool))
    (h : (restoreLoop f b answers).2 = some .ready) :
    ∃ pre st rr post, answers = pre ++ (some st, rr) :: post ∧ (st = .restored ∨ st = .unarchived) := by
  induction answers generalizing b with
  | nil => simp [restoreLoop] at h
  | cons a rest ih =>
    obtain ⟨st, rr⟩ := a
    unfold restoreLoop at h
    rcases restoreWait_cases b f st rr with hw | hw | ⟨hw, hst⟩
    · simp [hw] at h
    · simp only [hw] at h
      obtain ⟨pre, st', rr', post, he, hs⟩ := ih _ h
      exact ⟨(st, rr) :: pre, st', rr', post, by simp [he], hs⟩
    · rcases hst with rfl | rfl
      · exact ⟨[], .restored, rr, rest, rfl, Or.inl rfl⟩
      · exact ⟨[], .unarchived, rr, rest, rfl, Or.inr rfl⟩

/-- **offered as a source only when resident** the ready-pull task sets the ready flag (what `pull_ready` reports to
    other daemons) exactly when its loop ended on a resident answer; an lfs failure, a vanished file or a refused restore
    leave the copy not ready -/
theorem C20_ready_pull_flag (f : Nat) (b : Rbk) (answers : List (Option HsmState × Option Bool)) (b' : Rbk)
    (h : readyPullTask f b answers = (b', some true)) :
    (∃ pre st rr post, answers = pre ++ (some st, rr) :: post ∧ (st = .restored ∨ st = .unarchived)) ∧
    f ∉ b'.restoring ∧ f ∉ b'.started := by
  unfold readyPullTask at h
  cases hl : restoreLoop f b answers with
  | mk b2 r =>
    rw [hl] at h
    cases r with
    | none => simp at h
    | some r =>
      simp only [Prod.mk.injEq, Option.some.injEq, beq_iff_eq] at h
      obtain ⟨hb, hr⟩ := h
      subst hb
      have hr' : r = .ready := by cases r <;> simp_all
      subst hr'
      have h2 : (restoreLoop f b answers).2 = some .ready := by rw [hl]
      have hc := C20_loop_exit_clears f b answers .ready h2
      rw [hl] at hc
      exact ⟨C20_ready_only_if_resident f b answers h2, hc.1, hc.2.1⟩

/-- **hashed only when resident** the HSM check task opens and hashes the file only after a resident answer -/
theorem C20_check_hashes_only_resident (f : Nat) (b : Rbk) (ex : Option HsmState)
    (answers : List (Option HsmState × Option Bool)) (h : (hsmCheckTask f b ex answers).2 = true) :
    ex ≠ some .missing ∧
    ∃ pre st rr post, answers = pre ++ (some st, rr) :: post ∧ (st = .restored ∨ st = .unarchived) := by
  unfold hsmCheckTask at h
  split at h
  · simp at h
  · rename_i hne
    refine ⟨hne, ?_⟩
    cases hl : restoreLoop f b answers with
    | mk b2 r =>
      rw [hl] at h
      cases r with
      | none => simp at h
      | some r =>
        cases r <;> simp at h
        exact C20_ready_only_if_resident f b answers (by rw [hl])

theorem C20_open_only_resident (st : Option HsmState) :
    hsmOpenOk st = true ↔ (st = some .restored ∨ st = some .unarchived) := by
  rcases st with _ | st
  · simp [hsmOpenOk]
  · cases st <;> simp [hsmOpenOk]

/-- a released file is sent `hsm_restore` (the RELEASED branch) and waited for -/
theorem C20_released_waits (b : Rbk) (f : Nat) (rr : Option Bool) (h : rr ≠ some false) :
    (restoreWait b f (some .released) rr).2 = .wait := by
  rcases rr with _ | rr
  · rfl
  · cases rr
    · exact absurd rfl h
    · rfl

/-- **release selection** only fully restored copies are released, in the given
    (least-recently-updated-first) order, and just until the headroom is met: the sizes of all
    released copies but the last sum to less than what is needed -/
theorem C20_release_selection (headroom : Int) (avail : Option Int) (copies : List RCopy) :
    let sel := releaseFiles headroom avail copies
    sel.Sublist (copies.map (·.id)) ∧
    (∀ i ∈ sel, ∃ c ∈ copies, c.id = i ∧ c.state = some .restored) ∧
    (avail = none → sel = []) ∧ (∀ a, avail = some a → headroom ≤ a → sel = []) := by
  intro sel
  have key : ∀ need total, (releaseLoop need total copies).Sublist (copies.map (·.id)) ∧
      (∀ i ∈ releaseLoop need total copies, ∃ c ∈ copies, c.id = i ∧ c.state = some .restored) := by
    intro need total
    rw [releaseLoop_eq_map]
    refine ⟨(releaseLoopC_sublist need total copies).map _, ?_⟩
    intro i hi
    obtain ⟨c, hc, rfl⟩ := List.mem_map.mp hi
    exact ⟨c, (releaseLoopC_sublist need total copies).subset hc, rfl,
      releaseLoopC_restored need total copies c hc⟩
  rcases avail with _ | a
  · refine ⟨?_, ?_, fun _ => rfl, fun a h => by cases h⟩
    · exact List.nil_sublist _
    · intro i hi; simp [sel, releaseFiles] at hi
  · by_cases hh : headroom - a ≤ 0
    · have hsel : sel = [] := by simp [sel, releaseFiles, hh]
      rw [hsel]
      refine ⟨List.nil_sublist _, ?_, fun _ => rfl, fun _ _ _ => rfl⟩
      intro i hi; simp at hi
    · have hsel : sel = releaseLoop (headroom - a) 0 copies := by simp [sel, releaseFiles, hh]
      rw [hsel]
      refine ⟨(key _ _).1, (key _ _).2, fun h => (by cases h), ?_⟩
      intro a' ha' hle
      cases ha'
      omega

/- STATEMENT CHANGED (hypothesis `hlt : total < need` added).  As originally stated — without
   `hlt` — the theorem is false: if the running total already meets the need when the loop is
   entered, the loop still releases the first restored copy, and then `total + 0 < need` fails.
   Counterexample (checked below): `need = 0`, `total = 0`, `copies = [⟨1, 5, some .restored⟩]`:
   `sel = [1]`, `sel.dropLast = []`, `sizes.sum = 0`, and `0 + 0 < 0` is false.
   `total < need` is the minimal repair (for non-empty `sel` it is also necessary, since
   `sizes.sum ≥ 0`), and it is exactly the situation in `releaseFiles`, which enters the loop
   with `total = 0` only when `need = headroom - a > 0` (see `C20_release_minimal_files`). -/
example :
    ¬ (let need : Int := 0; let total : Int := 0; let copies : List RCopy := [⟨1, 5, some .restored⟩]
       releaseLoop need total copies ≠ [] →
       let sel := releaseLoop need total copies
       let sizes := sel.dropLast.map (fun i => ((copies.find? (·.id == i)).map (fun c => (c.size : Int))).getD 0)
       (copies.map (·.id)).Nodup → total + sizes.sum < need) := by decide

theorem C20_release_minimal (need : Int) (total : Int) (copies : List RCopy) (hne : releaseLoop need total copies ≠ [])
    (hlt : total < need) :
    let sel := releaseLoop need total copies
    let sizes := sel.dropLast.map (fun i => ((copies.find? (·.id == i)).map (fun c => (c.size : Int))).getD 0)
    (copies.map (·.id)).Nodup → total + sizes.sum < need := by
  intro sel sizes hnd
  have hsel : sel = (releaseLoopC need total copies).map (·.id) := releaseLoop_eq_map need total copies
  have hneC : releaseLoopC need total copies ≠ [] := by
    intro e; apply hne; rw [releaseLoop_eq_map, e]; rfl
  have hsizes : sizes = (releaseLoopC need total copies).dropLast.map (fun c => (c.size : Int)) := by
    simp only [sizes, hsel, ← List.map_dropLast, List.map_map]
    apply List.map_congr_left
    intro c hc
    have hc' : c ∈ copies :=
      (releaseLoopC_sublist need total copies).subset (List.dropLast_subset _ hc)
    simp [find_id_of_mem_nodup copies hnd c hc']
  rw [hsizes]
  exact releaseLoopC_minimal need total copies hlt hneC

/-- added corollary: for `releaseFiles` itself the original conclusion holds with no extra
    hypothesis (the loop is entered with `total = 0 < need = headroom - a`) -/
theorem C20_release_minimal_files (headroom : Int) (avail : Option Int) (copies : List RCopy)
    (hne : releaseFiles headroom avail copies ≠ []) :
    let sel := releaseFiles headroom avail copies
    let sizes := sel.dropLast.map (fun i => ((copies.find? (·.id == i)).map (fun c => (c.size : Int))).getD 0)
    (copies.map (·.id)).Nodup → ∃ a, avail = some a ∧ sizes.sum < headroom - a := by
  intro sel sizes hnd
  rcases avail with _ | a
  · exact absurd rfl hne
  · by_cases hh : headroom - a ≤ 0
    · exact absurd (by simp [releaseFiles, hh]) hne
    · have hsel : releaseFiles headroom (some a) copies = releaseLoop (headroom - a) 0 copies := by
        simp [releaseFiles, hh]
      have := C20_release_minimal (headroom - a) 0 copies (by rw [← hsel]; exact hne) (by omega) hnd
      refine ⟨a, rfl, ?_⟩
      simp only [sizes, sel, hsel]
      simpa using this

/-- **refresh** the ready flag is brought into line with the reported residency; a missing file
    is recorded absent; no answer ⇒ no change -/
theorem C20_refresh_exact (ready : Bool) (st : Option HsmState) :
    let newReady := match refreshOne ready st with | some (_, r) => r | none => ready
    (st = none → refreshOne ready st = none) ∧
    (st = some .missing → refreshOne ready st = some (.N, false)) ∧
    (∀ s, st = some s → s ≠ .missing → (newReady = true ↔ (s = .restored ∨ s = .unarchived))) := by
  intro newReady
  refine ⟨fun h => by rw [h]; rfl, fun h => by rw [h]; rfl, ?_⟩
  intro s hs hm
  subst hs
  cases s <;> cases ready <;> simp_all [newReady, refreshOne]

-- non-vacuity
example : hsmStateParse "/l/RESTORE_1/archived.dat".toList
    (.ok "/l/RESTORE_1/archived.dat: (0x0000000d) released exists archived, archive_id:1".toList)
    (.ok "/l/RESTORE_1/archived.dat: NOOP".toList) = some .released := by decide
example : releaseFiles 100 (some 40) [⟨1, 30, some .restored⟩, ⟨2, 10, some .released⟩, ⟨3, 40, some .restored⟩, ⟨4, 5, some .restored⟩] = [1, 3] := by decide

end Alpen
