"""C13 — directory-tree lock under the deterministic scheduler: real UpDownLock vs Lean UD model."""
import importlib
import itertools
import json
import random

import common
import sched as schedmod

MODULE = "Alpen.Props.C13"


def gen_program(rng, maxlen, sleeps=False):
    """a per-thread list of lock calls"""
    prog = []
    held = []
    for _ in range(rng.randint(1, maxlen)):
        r = rng.random()
        if sleeps and r < 0.15:
            prog.append(("sleep", rng.choice([1, 2, 3, 4])))
        elif held and r < 0.45:
            prog.append(("rel", held.pop()))
        else:
            d = rng.random() < 0.5
            mode = rng.choice(["block", "block", "nonblock", "timed", "timed0"])
            prog.append(("acq", d, mode))
            held.append(d)          # optimistic; a failed acquire makes the later release an error case (also interesting)
    if rng.random() < 0.9:
        while held:
            prog.append(("rel", held.pop()))
    if rng.random() < 0.15:
        prog.append(("rel", rng.random() < 0.5))     # release by a (possible) non-holder
    return prog


def execute(progs, choices=None, rng=None):
    """Run thread programs on the real UpDownLock under the scheduler.
    Returns dict(result, oplog=[model op lines], outs=[observed outputs], final, taken)"""
    import alpenhorn.io.updownlock as udl
    importlib.reload(udl)
    s = schedmod.Scheduler(choices=choices, rng=rng)
    fake = s.threading_module()
    udl.threading = fake

    class FakeTime:
        monotonic = staticmethod(s.monotonic)
        time = staticmethod(s.monotonic)
        sleep = staticmethod(s.sleep)
    udl.time = FakeTime
    lock = udl.UpDownLock()
    internals = lock._internals
    mutex = getattr(internals, "_lock", None)
    mutex_name = getattr(mutex, "name", None)
    cur = {}          # thread idx -> [op description, number of critical sections so far]
    events = []       # ("cs", tid, kind) | ("ret", tid, value) | ("tick", dt)
    late = []         # timed / non-blocking calls that returned after their deadline (virtual clock)

    def snapshot():
        owners = dict(getattr(internals, "_owners", {}))
        return internals.count, {k: v for k, v in owners.items() if v}

    snaps = []       # (index into s.log, count, owners, parked {tid: (wants_down, notified)})

    def take(ev):
        parked = {}
        for th in s.threads:
            if th.status == schedmod.WAITING and th.idx in cur and cur[th.idx][0][0] == "acq":
                parked[th.idx] = (bool(cur[th.idx][0][1]), bool(th.notified))
        c, o = snapshot()
        snaps.append((len(s.log) - 1, c, o, parked))
    s.on_event = lambda ev: take(ev) if ev[0] == "wait" else None

    def mk(tid, prog):
        def body():
            for op in prog:
                if op[0] == "sleep":
                    s.sleep(op[1])
                    s.log.append(("ret", tid, "slept"))
                    continue
                t0 = s.clock
                log0 = len(s.log)
                if op[0] == "acq":
                    _, d, mode = op
                    acc = lock.down if d else lock.up
                    cur[tid] = [op, 0]
                    try:
                        if mode == "block":
                            r = acc.acquire()
                        elif mode == "nonblock":
                            r = acc.acquire(blocking=False)
                        elif mode == "timed":
                            r = acc.acquire(timeout=5)
                        else:
                            r = acc.acquire(timeout=0)
                        out = "acquired" if r else "false"
                    except RuntimeError:
                        out = "error"
                else:
                    _, d = op
                    acc = lock.down if d else lock.up
                    cur[tid] = [op, 0]
                    try:
                        acc.release()
                        out = "released"
                    except RuntimeError:
                        out = "error"
                events.append(("ret", tid, out, snapshot()))
                if op[0] == "acq" and op[2] in ("timed", "timed0", "nonblock"):
                    # a timed call may be delayed by the scheduler before it first looks at the clock, but from its first
                    # sleep on it has a fixed deadline (first sleep + time-out): no later sleep may reach beyond it, and no
                    # single sleep may be longer than the time-out
                    limit = 5 if op[2] == "timed" else 0
                    first = None
                    for ev in s.log[log0:]:
                        if ev[0] == "wait" and ev[1] == tid:
                            if first is None:
                                first = ev[4] + limit
                            if ev[3] is None or ev[3] > first:
                                late.append(f"thread {tid}: {'down' if op[1] else 'up'}.acquire({'timeout=%d' % limit if op[2] != 'nonblock' else 'blocking=False'}) "
                                            f"started waiting at t={first - limit} (deadline t={first}) but at t={ev[4]} went to sleep until "
                                            f"t={ev[3]}, beyond its deadline (returned {out!r} at t={s.clock})")
                                break
                cur.pop(tid, None)
                s.log.append(("ret", tid, out))
                take(s.log[-1])
        return body
    for i, p in enumerate(progs):
        s.spawn(mk(i, p), f"T{i}")
    # translate the scheduler log as it grows: we post-process after the run
    res = s.run()
    # merge: scheduler log has ("acq", tid, lockname) for every mutex acquisition and ("tick", dt)
    wants = {tid: v[0] for tid, v in cur.items()}
    return dict(result=res, sched_log=list(s.log), events=events, taken=list(s.taken), mutex=mutex_name,
                final=snapshot(), blocked=s.blocked_desc if res != "done" else [], progs=progs, wants=wants, snaps=snaps, late=late)


def snaps_by_cs(run):
    """snapshot taken at the end of each critical section, in order (a section ends at a `wait` or a `ret` event)"""
    return [sn for sn in run["snaps"]]


def to_model_ops(run):
    """Critical sections in mutex-acquisition order -> model op lines.  Needs the interleaved order of mutex
    acquisitions, ticks and call returns; the scheduler log and the event list are merged by replaying per-thread
    program counters: the k-th mutex acquisition of a thread inside one call is `acq` (k=0) or `wake` (k>0)."""
    progs = run["progs"]
    pc = [0] * len(progs)
    ncs = [0] * len(progs)
    rets = {i: [e for e in run["events"] if e[1] == i] for i in range(len(progs))}
    lines = []
    for ev in run["sched_log"]:
        if ev[0] == "tick":
            lines.append(f"u.tick {int(ev[1])}")
        elif ev[0] == "acq" and ev[2] == run["mutex"]:
            tid = ev[1]
            if pc[tid] >= len(progs[tid]):
                continue
            op = progs[tid][pc[tid]]
            if op[0] == "sleep":
                continue
            if op[0] == "acq":
                if ncs[tid] == 0:
                    mode = op[2]
                    blocking = 0 if mode == "nonblock" else 1
                    timeout = {"block": "-", "nonblock": "-", "timed": "5", "timed0": "0"}[mode]
                    lines.append(f"u.acq {tid} {int(op[1])} {blocking} {timeout}")
                else:
                    lines.append(f"u.wake {tid}")
                ncs[tid] += 1
            else:
                lines.append(f"u.rel {tid} {int(op[1])}")
                ncs[tid] += 1
        elif ev[0] == "ret":
            pc[ev[1]] += 1
            ncs[ev[1]] = 0
    return lines


def run_one(progs, choices=None, rng=None):
    run = execute(progs, choices=choices, rng=rng)
    return run


def judge(ctx, run, drv_lines_out=None):
    """model-independent oracle on one real execution"""
    probs = []
    if run["result"] == "deadlock":
        cnt = run["final"][0]
        # threads that ended while holding the lock make a *program* deadlock; it is a lock defect only if some
        # blocked acquirer asks for a state the current count does not exclude (lost wake-up / missed hand-over)
        for tid, op in run["wants"].items():
            if op[0] == "acq":
                want_down = op[1]
                excluded = cnt > 0 if want_down else cnt < 0
                if not excluded:
                    probs.append(f"thread {tid} is blocked for ever acquiring {'down' if want_down else 'up'} although the lock "
                                 f"count is {cnt} (lost wake-up): blocked {run['blocked']}")
            else:
                probs.append(f"thread {tid} is blocked for ever inside release(): {run['blocked']}")
    elif run["result"] == "steps":
        probs.append("schedule did not terminate (livelock)")
    probs += run.get("late", [])
    # sequential reference over the call returns: who holds what
    hold = {}       # (tid, is_down) -> count
    pcs = {}
    for ev in run["events"]:
        _, tid, out = ev[0], ev[1], ev[2]
        k = pcs.get(tid, 0)
        prog = [op for op in run["progs"][tid] if op[0] != "sleep"]
        if k >= len(prog):
            continue
        op = prog[k]
        pcs[tid] = k + 1
        if op[0] == "acq" and hold.get((tid, not bool(op[1])), 0) > 0 and out != "error":
            probs.append(f"thread {tid} holds {'up' if op[1] else 'down'} and asked for {'down' if op[1] else 'up'} ({op[2]}): the request "
                         f"must be refused with an error, it returned {out!r} (holder asking for the opposite state)")
        if op[0] == "acq" and out == "acquired":
            d = bool(op[1])
            others = [(t, dd) for (t, dd), c in hold.items() if c > 0 and dd != d]
            if others:
                probs.append(f"thread {tid} acquired {'down' if d else 'up'} while {others} hold the opposite state (mutual exclusion)")
            hold[(tid, d)] = hold.get((tid, d), 0) + 1
        elif op[0] == "rel":
            d = bool(op[1])
            if out == "released":
                if hold.get((tid, d), 0) == 0:
                    probs.append(f"thread {tid} released {'down' if d else 'up'} without holding it and the call was accepted "
                                 f"(holders: {[(t, dd, c) for (t, dd), c in hold.items() if c > 0]})")
                else:
                    hold[(tid, d)] -= 1
            elif out == "error" and hold.get((tid, d), 0) > 0:
                probs.append(f"thread {tid} holds {'down' if d else 'up'} but its release was rejected")
    for (li, cnt, owners, parked) in run["snaps"]:
        for tid, (want_down, notified) in parked.items():
            excluded = cnt > 0 if want_down else cnt < 0
            if not notified and not excluded:
                probs.append(f"thread {tid} is parked un-notified waiting for {'down' if want_down else 'up'} while the lock "
                             f"count is {cnt} (lost wake-up) after scheduler event {li}")
                return probs
    return probs


def instrumented_execute(progs, choices=None, rng=None):
    """execute + interleave call returns into the scheduler log (so the model ops and outputs can be aligned)"""
    import alpenhorn.io.updownlock as udl
    run = None
    # monkeypatch: we want ("ret", ...) events inside sched.log in true order
    orig_execute = execute

    return orig_execute(progs, choices, rng)


def snap_str(sn):
    _, cnt, owners, parked = sn
    o = ",".join(f"{k}:{v}" for k, v in sorted(owners.items())) or "-"
    p = ",".join(f"{k}:{int(d)}:{int(n)}" for k, (d, n) in sorted(parked.items())) or "-"
    return f"count={cnt} owners={o} parked={p}"


def compare_with_model(ctx, runs):
    """feed every run's critical-section sequence to the Lean model; after every critical section compare the model's
    outcome, count, owners and parked/notified sets with the real lock's"""
    drv = common.Driver()
    lines, spans = [], []
    for r in runs:
        ops = to_model_ops(r)
        start = len(lines)
        lines.append("u.reset")
        for op in ops:
            lines.append(op)
            if not op.startswith("u.tick"):
                lines.append("u.dump")
        spans.append((start, len(lines)))
    outs = drv.batch(lines)
    ndiv = 0
    for r, (a, b) in zip(runs, spans):
        seg_l, seg_o = lines[a + 1:b], outs[a + 1:b]
        mops = [(l, o) for l, o in zip(seg_l, seg_o) if not l.startswith("u.dump") and not l.startswith("u.tick")]
        dumps = [o for l, o in zip(seg_l, seg_o) if l.startswith("u.dump")]
        ok = True
        why = None
        # per critical section: state
        for k, (d, sn) in enumerate(zip(dumps, r["snaps"])):
            if not d.startswith(snap_str(sn) + " clock="):
                ok = False
                why = {"section": k, "op": mops[k][0] if k < len(mops) else None, "real": snap_str(sn), "model": d}
                break
        if ok and len(dumps) != len(r["snaps"]) and r["result"] == "done":
            ok = False
            why = {"sections_model": len(dumps), "sections_real": len(r["snaps"])}
        # per call: outcome
        if ok:
            per_thread = {}
            for op, o in mops:
                tid = int(op.split()[1])
                if op.startswith("u.wake") and per_thread.get(tid):
                    per_thread[tid][-1] = o
                else:
                    per_thread.setdefault(tid, []).append(o)
            real_rets = {}
            for e in r["events"]:
                real_rets.setdefault(e[1], []).append(e[2])
            for tid, calls in real_rets.items():
                norm = [{"refused": "false", "timedOut": "false"}.get(x, x) for x in per_thread.get(tid, [])]
                if norm[:len(calls)] != calls:
                    ok = False
                    why = {"thread": tid, "real_returns": calls, "model_returns": norm}
        if not ok:
            ndiv += 1
            if len(ctx.corr_broken) < 4:
                ctx.corr_broken.append({"stream": "UpDownLock-vs-UD", "progs": r["progs"], "schedule": r["taken"],
                                        "first_divergence": why, "result": r["result"]})
    return ndiv


def corpus():
    """minimised past failures, run first.  F3: B fails the fast path, A releases, B then waits."""
    A = [("acq", False, "block"), ("rel", False)]
    B = [("acq", True, "block"), ("rel", True)]
    return [([A, B], None)]


def run(ctx):
    ok = common.proof_stage(ctx, MODULE)
    rng = ctx.rng
    runs = []
    # 1. corpus: exhaustive schedules (choices in {0,1}) of bounded length for the F3 pair
    for progs, _ in corpus():
        depth = 10 if ctx.quick() else 13
        for ch in itertools.product([0, 1], repeat=depth):
            r = execute(progs, choices=list(ch))
            runs.append(r)
    # 1b. corpus: a timed waiter that is woken before its deadline while the lock is still taken (re-taken in the other
    # state by the releasing thread): the remaining time, not the whole time-out, must be waited for
    A = [("acq", False, "block"), ("sleep", 3), ("rel", False), ("acq", False, "block"), ("sleep", 4), ("rel", False)]
    B = [("acq", True, "timed"), ("rel", True)]
    C = [("sleep", 2), ("acq", False, "block"), ("sleep", 2), ("rel", False)]
    for progs in ([A, B], [A, B, C], [A, B, B]):
        for sd in range(400 if ctx.quick() else 4000):
            runs.append(execute(progs, rng=random.Random(sd)))
    # 2. random programs and schedules
    n = 1200 if ctx.quick() else 40000
    for i in range(n):
        nthreads = rng.choice([2, 2, 3])
        progs = [gen_program(rng, 4, sleeps=(i % 3 == 0)) for _ in range(nthreads)]
        r = execute(progs, rng=random.Random(rng.getrandbits(32)))
        runs.append(r)
    nd = 0
    for r in runs:
        key = (json.dumps(r["progs"]), tuple(r["taken"]))
        nwait = sum(1 for e in r["sched_log"] if e[0] == "wait")
        ctx.count(f"{r['result']}:waits={min(nwait, 3)}")
        ctx.case(key, nontrivial=len(r["sched_log"]) > 4,
                 sample={"programs": r["progs"], "schedule": r["taken"], "returns": [(e[1], e[2]) for e in r["events"]],
                         "final_count": r["final"][0]} if nwait and len(ctx.samples) < 3 else None)
        for p in judge(ctx, r):
            free = r["final"][0] == 0
            ctx.violation(("late:" if "beyond its deadline" in p else "holder:" if ("without holding" in p or "mutual exclusion" in p or "was rejected" in p or "opposite state" in p) else "lostwake:" if free else "deadlock:") + json.dumps(r["progs"])[:50], p,
                          {"kind": "schedule", "programs": r["progs"], "schedule": r["taken"], "problem": p,
                           "sched_log": r["sched_log"][-30:]})
    compare_with_model(ctx, runs)
    ctx.coverage["rule"] = ("2-3 threads, programs of <=4 up/down acquire (blocking, non-blocking, timed 5, timed 0) / release calls on "
                            "the real UpDownLock with its threading/time modules replaced by the cooperative shim; scheduling points at "
                            "every lock acquisition, condition wait and time-out; corpus (F3 pair) under all 2^10 binary schedules, then "
                            "random programs and schedules; every run's critical-section sequence replayed on the Lean model "
                            "(returns, count, owners compared) and judged by a deadlock / lost-wake-up oracle. distinct = (programs, "
                            "schedule); non-trivial = more than 4 scheduler events")
    from props.c06 import finish_search
    finish_search(ctx, ok)


def replay(ctx, path):
    r = json.load(open(path))
    progs = [[tuple(op) for op in p] for p in r["programs"]]
    run = execute(progs, choices=list(r["schedule"]))
    print("result:", run["result"], "final:", run["final"], "blocked:", run["blocked"])
    return 1 if run["result"] != "done" else 0
