/- Basic vocabulary shared by the index-level models. Core Lean only. -/
namespace Alpen

inductive Has | N | Y | M | X deriving DecidableEq, Repr, Inhabited
inductive Wants | Y | M | N deriving DecidableEq, Repr, Inhabited
inductive SType | A | T | F deriving DecidableEq, Repr, Inhabited

def Has.ofString : String → Option Has
  | "N" => some .N | "Y" => some .Y | "M" => some .M | "X" => some .X | _ => none
def Wants.ofString : String → Option Wants
  | "Y" => some .Y | "M" => some .M | "N" => some .N | _ => none
def SType.ofString : String → Option SType
  | "A" => some .A | "T" => some .T | "F" => some .F | _ => none
def Has.toString : Has → String | .N => "N" | .Y => "Y" | .M => "M" | .X => "X"
def Wants.toString : Wants → String | .Y => "Y" | .M => "M" | .N => "N"
def SType.toString : SType → String | .A => "A" | .T => "T" | .F => "F"

/-- Python truthiness of an optional integer (`None` and `0` are falsy). -/
def truthy : Option Nat → Bool
  | some n => n != 0
  | none => false

end Alpen
