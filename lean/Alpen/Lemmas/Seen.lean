import Alpen.Model.Daemon
/-! lemmas about `firstPerFile` (the `seen_files` set of the group update) -/
namespace Alpen
open World

/-! ### `seen_files` -/

theorem firstPerFile_mem (seen : List (Nat × Nat)) (rs : List WReq) (x : WReq) :
    x ∈ firstPerFile seen rs → x ∈ rs ∧ (x.file, x.groupTo) ∉ seen := by
  induction rs generalizing seen with
  | nil => intro h; cases h
  | cons r rs ih =>
    intro h
    unfold firstPerFile at h
    split at h
    · obtain ⟨h1, h2⟩ := ih seen h
      exact ⟨List.mem_cons_of_mem _ h1, h2⟩
    · rename_i hns
      rcases List.mem_cons.mp h with rfl | h
      · refine ⟨List.mem_cons_self, ?_⟩
        intro hm
        exact hns (List.contains_iff_mem.mpr hm)
      · obtain ⟨h1, h2⟩ := ih _ h
        exact ⟨List.mem_cons_of_mem _ h1, fun hm => h2 (List.mem_cons_of_mem _ hm)⟩

theorem firstPerFile_pairwise (seen : List (Nat × Nat)) (rs : List WReq) :
    (firstPerFile seen rs).Pairwise (fun a b => (a.file, a.groupTo) ≠ (b.file, b.groupTo)) := by
  induction rs generalizing seen with
  | nil => exact List.Pairwise.nil
  | cons r rs ih =>
    unfold firstPerFile
    split
    · exact ih seen
    · refine List.Pairwise.cons ?_ (ih _)
      intro b hb heq
      have := (firstPerFile_mem _ rs b hb).2
      exact this (heq ▸ List.mem_cons_self)

theorem firstPerFile_first (seen : List (Nat × Nat)) (pre post : List WReq) (r : WReq)
    (hs : (r.file, r.groupTo) ∉ seen) (hpre : ∀ q ∈ pre, (q.file, q.groupTo) ≠ (r.file, r.groupTo)) :
    r ∈ firstPerFile seen (pre ++ r :: post) := by
  induction pre generalizing seen with
  | nil =>
    simp only [List.nil_append]
    unfold firstPerFile
    simp [hs]
  | cons q pre ih =>
    simp only [List.cons_append]
    unfold firstPerFile
    have hq := hpre q List.mem_cons_self
    have hrest : ∀ q' ∈ pre, (q'.file, q'.groupTo) ≠ (r.file, r.groupTo) := fun q' h => hpre q' (List.mem_cons_of_mem _ h)
    split
    · exact ih seen hs hrest
    · refine List.mem_cons_of_mem _ (ih _ ?_ hrest)
      intro hm
      rcases List.mem_cons.mp hm with h | h
      · exact hq h.symm
      · exact hs h
theorem eq_of_key_eq_of_pairwise {α β : Type} (k : α → β) (l : List α)
    (h : l.Pairwise (fun a b => k a ≠ k b)) : ∀ a ∈ l, ∀ b ∈ l, k a = k b → a = b := by
  induction h with
  | nil => intro a ha; cases ha
  | cons hx _ ih =>
    intro a ha b hb hk
    rcases List.mem_cons.mp ha with ha | ha <;> rcases List.mem_cons.mp hb with hb | hb
    · rw [ha, hb]
    · rw [ha] at hk; exact absurd hk (hx b hb)
    · rw [hb] at hk; exact absurd hk.symm (hx a ha)
    · exact ih a ha b hb hk

end Alpen
