#!/bin/bash
# usage: seedall.sh [seed ids...]   -- runs every stored seeded change against the check(s) expected to catch it (on a scratch
# worktree, /repo is not touched); one line per seed
cd /verif
declare -A OVERRIDE=( [C06-1]="C04" [C06-2]="C04" [C05-2]="C05 C20" [C05-3]="C02" [C12-3]="C10" [C16-3]="C16 C10" [C08-3]="C08 C04" [C08-4]="C08 C02" [C09-4]="C02" [C20-4]="C20 C04" [C06-4]="C04" [C12-4]="C12 C10" [C08-5]="C08 C01" [C09-5]="C09 C05" [C17-5]="C18" [C02-6]="C02 C01" [C08-6]="C08" [C01-7]="C01 C15" [C06-7]="C06 C04" [C09-7]="C09 C05" )
declare -A SKIP=( [C07-3]="neutralised by fix f308783 (see meta.json)" )
ids=${@:-$(ls seeded | grep -E '^C[0-9]+-[0-9]+$')}
for id in $ids; do
  if [ -n "${SKIP[$id]}" ]; then echo "$id skipped: ${SKIP[$id]}"; continue; fi
  props=${OVERRIDE[$id]:-${id%%-*}}
  out=$(harness/seedtest2.sh /verif/seeded/$id $props 2>&1)
  nv=$(echo "$out" | grep -c "^VIOLATION")
  conc=$(echo "$out" | grep "^VIOLATION" | grep -vc "no-failing-input-found")
  echo "$id by=$props violations=$nv concrete=$conc $(echo "$out" | grep -E 'does not apply|INFRA' | head -1)"
done
