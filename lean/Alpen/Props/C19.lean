import Alpen.Model.Walker
import Alpen.Lemmas.Walker
/-!
# C19 — auto-verification cycles through every copy without starvation

"With auto-verify enabled on a node, successive idle iterations walk the node's tracked
copies in a cycle: each call yields the requested number of copies, continuing where the
previous one stopped and wrapping around, so every copy that exists throughout is selected
again within ceil(N/k)+1 iterations even as other records are added or removed. Only
copies whose last update is older than the configured minimum age are re-queued."

Tables are id lists in strictly ascending order (`Asc`), as SQL `ORDER BY id` on a primary
key returns them.  `N` is the number of distinct ids seen in the window (`univ`), which is
the reading under which the bound is true when records may be inserted ahead of the cursor.
-/
namespace Alpen

def Asc (l : List Nat) : Prop := l.Pairwise (· < ·)

/-- **C19.1** each call on a non-empty table yields exactly the requested number of ids, all
    from the table, and the new cursor is one past the last id returned. -/
theorem C19_get_length (table : List Nat) (c k : Nat) (hk : 1 ≤ k) (hne : table ≠ []) :
    ∃ items, walkerGet table c k = .ok items (items.getLast?.getD 0 + 1) ∧ items.length = k ∧
      (∀ x ∈ items, x ∈ table) := by
  refine ⟨_, walkerGet_ok table c k hk hne, ?_, ?_⟩
  · rw [List.length_append, wrapFill_length table hne _ _ (Nat.le_refl _)]
    have : ((table.filter (fun i => decide (c ≤ i))).take k).length ≤ k := by
      rw [List.length_take]; omega
    omega
  · intro x hx
    rcases List.mem_append.mp hx with h | h
    · exact (List.mem_filter.mp (List.mem_of_mem_take h)).1
    · exact wrapFill_subset table _ _ x h

/-- the error cases of the real method -/
theorem C19_get_errors (table : List Nat) (c : Nat) :
    walkerGet table c 0 = .valueError ∧ (∀ k, 1 ≤ k → walkerGet [] c k = .doesNotExist) := by
  constructor
  · simp [walkerGet]
  · intro k hk
    have : ¬ k < 1 := by omega
    have h2 : 0 < k := by omega
    simp [walkerGet, this, h2]

/-- **C19.2** continues where the previous call stopped: the first id returned is the least
    id ≥ cursor if there is one, else (wrap-around) the least id of the table. -/
theorem C19_continues (table : List Nat) (c k : Nat) (hk : 1 ≤ k) (hasc : Asc table)
    (items : List Nat) (c' : Nat) (h : walkerGet table c k = .ok items c') :
    items.head? = (match table.find? (fun i => decide (c ≤ i)) with
                   | some y => some y
                   | none => table.head?) := by
  have hne : table ≠ [] := by
    intro hh
    subst hh
    have h1 : ¬ k < 1 := by omega
    have h2 : 0 < k := by omega
    simp [walkerGet, h1, h2] at h
  rw [walkerGet_ok table c k hk hne] at h
  injection h with hitems _
  rw [← hitems]
  cases hF : table.filter (fun i => decide (c ≤ i)) with
  | nil =>
    have hfind : table.find? (fun i => decide (c ≤ i)) = none := by
      rw [← List.head?_filter, hF]; rfl
    rw [hfind]
    obtain ⟨k', rfl⟩ : ∃ k', k = k' + 1 := ⟨k - 1, by omega⟩
    cases table with
    | nil => exact absurd rfl hne
    | cons a t => simp [wrapFill]
  | cons a F' =>
    have hfind : table.find? (fun i => decide (c ≤ i)) = some a := by
      rw [← List.head?_filter, hF]; rfl
    rw [hfind]
    obtain ⟨k', rfl⟩ : ∃ k', k = k' + 1 := ⟨k - 1, by omega⟩
    simp

/-- when the call does not need to wrap, it returns the `k` smallest ids ≥ cursor, in order -/
theorem C19_no_wrap (table : List Nat) (c k : Nat) (hk : 1 ≤ k)
    (hlen : k ≤ (table.filter (fun i => decide (c ≤ i))).length) :
    walkerGet table c k =
      .ok ((table.filter (fun i => decide (c ≤ i))).take k)
          (((table.filter (fun i => decide (c ≤ i))).take k).getLast?.getD 0 + 1) := by
  have hne : table ≠ [] := by
    intro hh; subst hh; simp at hlen; omega
  rw [walkerGet_ok table c k hk hne]
  have hl : ((table.filter (fun i => decide (c ≤ i))).take k).length = k := by
    rw [List.length_take]; omega
  rw [hl, Nat.sub_self, wrapFill_zero, List.append_nil]

/-- a run over non-empty tables never raises and performs every call -/
theorem C19_run_total (tables : Nat → List Nat) (c0 k m : Nat) (hk : 1 ≤ k)
    (hne : ∀ i, i < m → tables i ≠ []) :
    ∃ rets c, walkerRun tables c0 k m = some (rets, c) ∧ rets.length = m ∧
      ∀ r ∈ rets, r.length = k := by
  induction m with
  | zero => exact ⟨[], c0, rfl, rfl, by simp⟩
  | succ m ih =>
    obtain ⟨rets, c, hrun, hlen, hall⟩ := ih (fun i hi => hne i (by omega))
    obtain ⟨items, hget, hil, _⟩ := C19_get_length (tables m) c k hk (hne m (by omega))
    refine ⟨rets ++ [items], items.getLast?.getD 0 + 1, ?_, ?_, ?_⟩
    · simp only [walkerRun, hrun, hget]
    · simp [hlen]
    · intro r hr
      rcases List.mem_append.mp hr with hr | hr
      · exact hall r hr
      · simp at hr; subst hr; exact hil

/-- **C19.3 (no starvation, counting form)** if an id `x` is present in every table of the
    window and none of the first `m` calls returned it, then those calls returned `m·k`
    pairwise distinct ids other than `x`, so `m·k + 1 ≤ N` where `N` bounds the number of
    distinct ids seen (`univ` is any list containing every id of every table in the window).

    (`1 ≤ m`: for the empty window the claim would be vacuous-false; the variant with `x ∈ univ`
    instead, valid for every `m`, is `walkerRun_no_starvation` in `Alpen/Lemmas/Walker.lean`.) -/
theorem C19_no_starvation (tables : Nat → List Nat) (c0 k m : Nat) (hk : 1 ≤ k) (x : Nat)
    (hm : 1 ≤ m)
    (hasc : ∀ i, i < m → Asc (tables i)) (hx : ∀ i, i < m → x ∈ tables i)
    (univ : List Nat) (hu : ∀ i, i < m → ∀ y ∈ tables i, y ∈ univ)
    (rets : List (List Nat)) (c : Nat) (hrun : walkerRun tables c0 k m = some (rets, c))
    (hnot : ∀ r ∈ rets, x ∉ r) :
    m * k + 1 ≤ univ.length := by
  exact walkerRun_no_starvation tables c0 k m hk x hasc hx univ hu
    (hu 0 (by omega) x (hx 0 (by omega))) rets c hrun hnot

/-- **C19.3 (bound)** every id that exists throughout is returned within
    `⌊(N−1)/k⌋ + 1 ≤ ⌈N/k⌉ + 1` calls. -/
theorem C19_selected_within (tables : Nat → List Nat) (c0 k : Nat) (hk : 1 ≤ k) (x : Nat)
    (univ : List Nat) (m : Nat) (hm : m = (univ.length - 1) / k + 1)
    (hasc : ∀ i, i < m → Asc (tables i)) (hx : ∀ i, i < m → x ∈ tables i)
    (hu : ∀ i, i < m → ∀ y ∈ tables i, y ∈ univ) :
    ∃ rets c, walkerRun tables c0 k m = some (rets, c) ∧ (∃ r ∈ rets, x ∈ r) ∧
      m ≤ (univ.length + k - 1) / k + 1 := by
  have hne : ∀ i, i < m → tables i ≠ [] := fun i hi => List.ne_nil_of_mem (hx i hi)
  obtain ⟨rets, c, hrun, _, _⟩ := C19_run_total tables c0 k m hk hne
  refine ⟨rets, c, hrun, ?_, ?_⟩
  · apply Classical.byContradiction
    intro hno
    have hnot : ∀ r ∈ rets, x ∉ r := by
      intro r hr hxr; exact hno ⟨r, hr, hxr⟩
    have hb := C19_no_starvation tables c0 k m hk x (by rw [hm]; exact Nat.le_add_left 1 _) hasc hx univ hu rets c hrun hnot
    have h1 : univ.length - 1 < k * ((univ.length - 1) / k + 1) :=
      Nat.lt_mul_div_succ _ (by omega)
    rw [hm, Nat.mul_comm] at hb
    omega
  · rw [hm]
    have : (univ.length - 1) / k ≤ (univ.length + k - 1) / k :=
      Nat.div_le_div_right (by omega)
    omega

/-- **C19.4** only copies older than the configured minimum age are re-queued. -/
theorem C19_age_filter (now minDays : Int) (batch : List (Nat × Int)) (i : Nat) :
    i ∈ autoVerifySelect now minDays batch ↔
      ∃ lu, (i, lu) ∈ batch ∧ now - lu > 86400 * minDays := by
  unfold autoVerifySelect tooNew
  simp only [List.mem_map, List.mem_filter, Bool.not_eq_true', decide_eq_false_iff_not,
    Int.not_le]
  constructor
  · rintro ⟨⟨i', lu⟩, ⟨hmem, hlt⟩, rfl⟩
    exact ⟨lu, hmem, hlt⟩
  · rintro ⟨lu, hmem, hlt⟩
    exact ⟨(i, lu), ⟨hmem, hlt⟩, rfl⟩

-- non-vacuity: a concrete wrapping run, with churn, that exhibits the bound being attained
example : walkerGet [2, 5, 9] 6 2 = .ok [9, 2] 3 := by decide
example : walkerGet [2, 5, 9] 10 5 = .ok [2, 5, 9, 2, 5] 6 := by decide
example : walkerRun (fun i => if i = 0 then [1, 2, 3] else [1, 2, 3, 4]) 2 2 2
    = some ([[2, 3], [4, 1]], 2) := by decide

end Alpen
