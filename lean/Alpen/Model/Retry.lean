/-
  Model of `alpenhorn.db._base.RetryOperationalError.execute_sql` and of `WorkerPool.check`.
  Core Lean only.
-/
namespace Alpen

inductive RetryEv where
  | attempt (ok : Bool)      -- one call of the underlying execute_sql
  | close                    -- the broken connection is closed
  deriving DecidableEq, Repr

/-- `outcomes i` = does the i-th attempt succeed?  Returns (events, success). -/
def retryExecute (autoconnect inTxn isClosed : Bool) (outcomes : Nat → Bool) : List RetryEv × Bool :=
  if outcomes 0 then ([.attempt true], true)
  else if !autoconnect || inTxn then ([.attempt false], false)
  else
    let pre := if isClosed then [RetryEv.attempt false] else [.attempt false, .close]
    (pre ++ [.attempt (outcomes 1)], outcomes 1)

def attempts (evs : List RetryEv) : Nat :=
  (evs.filter (fun e => match e with | .attempt _ => true | _ => false)).length

/-- `WorkerPool.check`: every dead worker is replaced in place (`alive i` = is worker i alive);
    returns the new liveness list. Nothing happens after a global abort. -/
def poolCheck (aborted : Bool) (alive : List Bool) : List Bool :=
  if aborted then alive else alive.map (fun _ => true)

end Alpen
