"""C10 — database faults are contained: real Worker/Task with faults in body and clean-ups (every position),
pool respawn on the real WorkerPool, the retry mixin over a scripted base class."""
import itertools
import json
import time

import common
import taskharness

MODULE = "Alpen.Props.C10"


def all_fault_tasks(ctx):
    """every fault position for small task shapes: body fault after s segments, each clean-up failing or not"""
    rng = ctx.rng
    shapes = []
    for nseg in (1, 2, 3):
        for ncl in (0, 1, 2, 3):
            shapes.append((nseg, ncl))
    for nseg, ncl in shapes:
        for last in ("d", "e"):
            for dbmask in itertools.product([0, 1], repeat=ncl):
                for requeue in (False, True):
                    segs = []
                    ids = list(range(1, ncl + 1))
                    per = [[] for _ in range(nseg)]
                    for i in ids:
                        per[rng.randrange(nseg)].append((i, rng.random() < 0.5))
                    for s in range(nseg):
                        segs.append((per[s], last if s == nseg - 1 else rng.choice(["yN", "y0", "y3"])))
                    yield dict(key=rng.choice([1, 2]), excl=rng.random() < 0.5, requeue=requeue, segs=segs,
                               db=[i for i, b in zip(ids, dbmask) if b], other=[])


def stage_worker(ctx):
    tasks = list(all_fault_tasks(ctx))
    rng = ctx.rng
    tasks += [taskharness.gen_task(rng, allow_other=True) for _ in range(400 if ctx.quick() else 20000)]
    outs = common.Driver().batch([taskharness.model_line(t) for t in tasks])
    for t, o in zip(tasks, outs):
        ev, left = taskharness.run_real(t)
        real = " ".join(ev) or "-"
        dbfault = bool(t["db"]) or any(e == "e" for _, e in t["segs"])
        other = bool(t["other"]) or any(e == "x" for _, e in t["segs"])
        ctx.count(f"worker:dbfault={int(dbfault)}:other={int(other)}:requeue={int(t['requeue'])}")
        ctx.case(("task", taskharness.model_line(t)), nontrivial=dbfault,
                 sample={"task": taskharness.model_line(t), "real_events": real, "model_events": o}
                 if dbfault and t["db"] and len(ctx.samples) < 4 else None)
        if real != o and len(ctx.corr_broken) < 6:
            ctx.corr_broken.append({"stream": "Worker.run-vs-workerHandle", "task": taskharness.model_line(t), "real": real, "model": o})
        if other:
            continue        # non-DB exceptions abort the daemon by design; outside the property
        # --- oracle from the property text (DB faults only)
        body_fault = any(e == "e" for _, e in t["segs"])
        # which clean-ups were registered before the task ended?
        reg = []
        for regs, e in t["segs"]:
            reg += [i for i, _ in regs]
            if e in ("e", "d"):
                break
        cleanup_fault = any(i in t["db"] for i in reg) and (body_fault or any(e == "d" for _, e in t["segs"]))
        faulted = body_fault or cleanup_fault
        if "A" in ev:
            ctx.violation("worker:abort", "a transient DB failure made the daemon abort", {"kind": "task", "task": t, "events": ev})
        for i in reg:
            if ev.count(f"c{i}") != 1:
                ctx.violation("worker:cleanup-count", f"clean-up {i} started {ev.count(f'c{i}')} times after a DB fault",
                              {"kind": "task", "task": t, "events": ev})
        # the queue slot (and with it an exclusive task's lock on its FIFO) is given back only after the clean-ups have run
        last_done = max([k for k, e_ in enumerate(ev) if e_.startswith("D:")], default=-1)
        late = [e_ for e_ in ev[last_done + 1:] if e_.startswith("c")] if last_done >= 0 else []
        if late:
            ctx.violation("worker:slot-before-cleanup", f"after a DB fault the task's queue slot was released (task_done) before its clean-up "
                          f"actions {late} ran: the next task of an exclusive FIFO could start while this one was still cleaning up",
                          {"kind": "task", "task": t, "events": ev})
        ndone = sum(1 for e in ev if e.startswith("D:"))
        nsteps = sum(1 for e in ev if e.startswith("P:")) + 1
        if ndone != nsteps:
            ctx.violation("worker:slot", f"{nsteps} task steps but task_done called {ndone} times", {"kind": "task", "task": t, "events": ev})
        if left["inprogress"] or left["locked"]:
            ctx.violation("worker:slot-left", f"queue slot not released: {left}", {"kind": "task", "task": t, "events": ev})
        rq = any(e.startswith("Q:") for e in ev)
        if faulted and rq != t["requeue"]:
            ctx.violation("worker:requeue", f"task created with requeue={t['requeue']} but re-queued={rq} after a DB fault",
                          {"kind": "task", "task": t, "events": ev})
        if faulted and "X1" not in ev:
            ctx.violation("worker:exit", "worker did not exit (to be respawned) after a DB fault", {"kind": "task", "task": t, "events": ev})
        if not faulted and ("X1" in ev or rq):
            ctx.violation("worker:spurious", "worker exited / re-queued without any fault", {"kind": "task", "task": t, "events": ev})


def stage_pool(ctx):
    """real WorkerPool: a worker killed by a DB error is replaced by check(), size kept, daemon not aborted"""
    import peewee as pw
    import alpenhorn.scheduler.queue as qmod
    import alpenhorn.scheduler.pool as pmod
    import alpenhorn.scheduler.task as tmod
    import importlib
    importlib.reload(qmod)

    class FastQ(qmod.FairMultiFIFOQueue):
        __slots__ = []

        def get(self, timeout=None):
            return super().get(timeout=0.02)
    for nworkers in ((1, 2, 3) if ctx.quick() else (1, 2, 3, 4, 6)):
        for nfail in range(0, nworkers + 1):
            q = FastQ()
            pmod.global_abort.clear()
            pool = pmod.WorkerPool(nworkers, q)
            ran = []

            def fail(task, i):
                ran.append(i)
                raise pw.OperationalError("injected")

            def fine(task, i):
                ran.append(i)
            for i in range(nfail):
                tmod.Task(func=fail, queue=q, key=f"k{i}", args=(i,), name=f"fail{i}")
            for i in range(2):
                tmod.Task(func=fine, queue=q, key="ok", args=(100 + i,), name=f"ok{i}")
            deadline = time.time() + 5
            while (q.qsize or q.inprogress_size) and time.time() < deadline:
                time.sleep(0.01)
            time.sleep(0.05)
            dead_before = sum(1 for w in pool._workers if not w.is_alive())
            pool.check()
            time.sleep(0.02)
            alive_after = sum(1 for w in pool._workers if w.is_alive())
            size = len(pool)
            aborted = pmod.global_abort.is_set()
            pool.shutdown()
            ctx.count(f"pool:workers={nworkers}:faults={nfail}")
            ctx.case(("pool", nworkers, nfail), nontrivial=nfail > 0,
                     sample={"workers": nworkers, "tasks_failing_with_db_error": nfail, "dead_before_check": dead_before,
                             "alive_after_check": alive_after, "size": size} if nfail == nworkers and len(ctx.samples) < 6 else None)
            if aborted:
                ctx.violation("pool:abort", "global abort set after DB faults in workers", {"kind": "pool", "workers": nworkers, "faults": nfail})
            if size != nworkers or alive_after != nworkers:
                ctx.violation("pool:respawn", f"{nworkers} workers, {dead_before} died; after check(): size {size}, alive {alive_after}",
                              {"kind": "pool", "workers": nworkers, "faults": nfail})
            if dead_before != min(nfail, nworkers) and len(ctx.corr_broken) < 6:
                ctx.notes.append(f"pool: {dead_before} dead workers for {nfail} DB faults with {nworkers} workers")
            if q.qsize or q.inprogress_size:
                ctx.violation("pool:stuck", f"tasks left: queued {q.qsize}, in progress {q.inprogress_size}",
                              {"kind": "pool", "workers": nworkers, "faults": nfail})
            pmod.global_abort.clear()


def stage_real_tasks(ctx):
    """OperationalError at the k-th statement, for every k, of the real pull / check / delete / pre-pull-search tasks run
    by the real Worker on a real index and real node directories"""
    import env as envmod
    import wharness
    scenarios = [("pull", 0, "none", "ok"), ("pull", 1, "rsync-only", "ok"), ("pull", 1, "rsync-only", "fail-src"),
                 ("pull", 2, "none", "ok"), ("check", 0, "none", "ok"), ("delete", 0, "none", "ok"), ("search", 0, "none", "ok"), ("search", 10, "none", "ok"), ("search-pass", 0, "none", "ok"), ("search-pass", 10, "none", "ok"),
                 ("pull", 10, "none", "ok"),
                 ("import-event", 0, "none", "ok"), ("import-event", 1, "none", "ok"), ("import-request", 0, "none", "ok"),
                 ("import-request", 1, "none", "ok")]
    if not ctx.quick():
        scenarios += [("pull", v, r, m) for v in range(3, 6) for (r, m) in (("none", "ok"), ("rsync-only", "partial"), ("rsync-only", "fail-mkstemp"))]
    with envmod.Env() as e:
        for kind, variant, route, mode in scenarios:
            ref = None
            for res in wharness.fault_sweep(e, kind, variant=variant, pathdir=route, mode=mode):
                if res["k"] < 0:
                    ref = res
                    ctx.coverage.setdefault("statements_per_task", {})[f"{kind}/{variant}/{route}/{mode}"] = res["statements"]
                    continue
                ctx.count(f"realtask:{kind}:fault")
                ctx.case(("realtask", kind, variant, route, mode, res["k"]), nontrivial=True,
                         sample={"task": kind, "route": route, "tool_mode": mode, "fault_at_statement": res["k"],
                                 "of": res["statements"], "worker_exit": res["exit_code"], "reserved_after": res["reserved"],
                                 "request_rows_after": res["after"]["req"]} if kind == "pull" and res["k"] == 3 and len(ctx.samples) < 6 else None)
                for p in wharness.judge_fault(res, ref):
                    ctx.violation(f"realtask:{kind}:{p[:30]}", f"{kind} task, DB error at statement {res['k']} of {res['statements']}: {p}",
                                  {"kind": "fault", "task": kind, "variant": variant, "route": route, "mode": mode, "k": res["k"],
                                   "after": res["after"], "before": res["before"]})


def stage_retry(ctx):
    """the real RetryOperationalError mixin over a scripted base with the peewee-3 signature"""
    import peewee as pw
    from alpenhorn.db._base import RetryOperationalError
    cases = list(itertools.product([0, 1], repeat=5))
    ops, reals = [], []
    for ac, tx, cl, o0, o1 in cases:
        events = []
        outcomes = [bool(o0), bool(o1)]

        class Base:
            def __init__(self):
                self.autoconnect = bool(ac)
                self.closed = bool(cl)
                self.n = 0

            def in_transaction(self):
                return bool(tx)

            def is_closed(self):
                return self.closed

            def is_connection_usable(self):          # peewee's own definition for these drivers
                return not self.closed

            def close(self):
                events.append("close")
                self.closed = True

            def execute_sql(self, sql, params=None, commit=None):
                ok = outcomes[self.n] if self.n < 2 else False
                self.n += 1
                events.append(f"a{int(ok)}")
                if not ok:
                    raise pw.OperationalError("scripted")
                self.closed = False
                return "cursor"
        DB = type("DB", (RetryOperationalError, Base), {})
        db = DB()
        try:
            db.execute_sql("select 1")
            res = 1
        except pw.OperationalError:
            res = 0
        reals.append(" ".join(events) + f" -> {res}")
        ops.append(f"retry {ac} {tx} {cl} {o0} {o1}")
    outs = common.Driver().batch(ops)
    for op, real, out in zip(ops, reals, outs):
        ctx.case(op, nontrivial=True, sample={"case(autoconnect,in_txn,closed,ok0,ok1)": op, "real": real, "model": out}
                 if op == "retry 1 0 0 0 1" else None)
        ctx.count("retry:" + ("retried" if real.count("a") == 2 else "single"))
        if real != out:
            ctx.corr_broken.append({"stream": "RetryOperationalError-vs-retryExecute", "case": op, "real": real, "model": out})
        ac, tx, cl, o0, o1 = map(int, op.split()[1:])
        n = real.count("a")
        should_retry = (not o0) and ac and not tx
        if n > 2 or (n == 2) != bool(should_retry):
            ctx.violation("retry:count", f"{n} attempts for case {op} ({real})", {"kind": "retry", "case": op, "real": real})
        if should_retry and not cl and "close" not in real:
            ctx.violation("retry:fresh", f"retry without closing the broken connection: {real}", {"kind": "retry", "case": op})


def run(ctx):
    ok = common.proof_stage(ctx, MODULE)
    import env as envmod
    envmod.quiet_logging()
    stage_worker(ctx)
    stage_pool(ctx)
    stage_real_tasks(ctx)
    stage_retry(ctx)
    ctx.assumptions.append("URL-configured databases cannot be opened with the installed peewee 4.5.1 (alpenhorn.db._connect raises "
                           "TypeError: finding F8, DESIGN §6); the retry mixin is therefore exercised over a scripted base class with the "
                           "peewee-3 execute_sql signature")
    ctx.coverage["rule"] = ("worker: every fault position of small task shapes (1-3 segments, 0-3 clean-ups, body ending done/DB-error, every "
                            "subset of clean-ups failing with a DB error, requeue on/off) plus random tasks incl. non-DB exceptions, run by "
                            "the real Worker.run; pool: real WorkerPool with 1-3 threads and 0..n failing tasks; retry: all 32 cases of the "
                            "real mixin over a scripted base. Each compared with the Lean model and judged by property-text oracles; "
                            "non-trivial = a DB fault occurs")
    from props.c06 import finish_search
    finish_search(ctx, ok)


def replay(ctx, path):
    import sys
    return common.replay_by_rerun(ctx, path, sys.modules[__name__])
