/-
  Dispatch across update passes: when does a pass process a group's pull requests at all?
  (`update_loop` / `UpdateableGroup.update`.)  Core Lean only.
-/
namespace Alpen

/-- what a pass sees of one group on this host: how many tasks are queued or running in the group's own FIFO (pre-pull
    searches) and in the FIFO of each of its usable nodes (transfers, checks, deletions) -/
structure GroupQueues where
  groupFifo : Nat
  nodeFifos : List Nat
  deriving DecidableEq, Repr

/-- the group is processed only if nothing of it is queued or running anywhere -/
def GroupQueues.idle (q : GroupQueues) : Bool := q.groupFifo == 0 && q.nodeFifos.all (· == 0)

/-- pinned behaviour (finding F25): the group's own FIFO was not looked at -/
def GroupQueues.idleLegacy (q : GroupQueues) : Bool := q.nodeFifos.all (· == 0)

/-- where a transfer that has been dispatched and has not ended sits -/
inductive InFlight where
  | searching              -- the pre-pull search is queued / running in the group's FIFO
  | pulling (node : Nat)   -- the transfer task is queued / running in the FIFO of the `node`-th usable node
  deriving DecidableEq, Repr

/-- the queues contain that task -/
def InFlight.accountedIn (t : InFlight) (q : GroupQueues) : Prop :=
  match t with
  | .searching => 0 < q.groupFifo
  | .pulling i => ∃ n, q.nodeFifos[i]? = some n ∧ 0 < n

/-- requests a pass dispatches for the group: one per file (the first pending one), and none at all while the group is busy -/
def dispatchPass (q : GroupQueues) (firstPerFile : List Nat) : List Nat :=
  if q.idle then firstPerFile else []

def dispatchPassLegacy (q : GroupQueues) (firstPerFile : List Nat) : List Nat :=
  if q.idleLegacy then firstPerFile else []

end Alpen
