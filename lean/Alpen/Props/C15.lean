import Alpen.Model.Clean
import Alpen.Lemmas.Clean
/-!
# C15 — discretionary cleaning is minimal and only under space pressure

"Copies merely marked removable are deleted only on non-archive nodes whose free space is
below the configured minimum, in record order, and only as many as needed to cover the
shortfall after counting the released copies queued in the same pass; when free space is
sufficient or unknown, none are touched."

Reading of "after counting the released copies queued in the same pass": those queued
*before* the removable copy in record (id) order — what a single ordered pass can mean.
`copies` is the node's copy table in id order.
-/
namespace Alpen

/-- **C15.1** without space pressure (enough space, unknown free space, or archive node) no
    merely-removable (`wants = M`) copy is selected. -/
theorem C15_no_M_without_pressure (avail : Option Int) (minK : Int) (archive : Bool)
    (pending : Nat → Bool) (copies : List DCopy)
    (h : pressure avail minK archive = false) :
    ∀ c ∈ selectDelete avail minK archive pending copies, c.wants = .N := by
  intro c hc
  unfold selectDelete at hc
  simp only [h] at hc
  have hmem := (selectLoop_sublist _ _ _).subset hc
  have hcand := (List.mem_filter.mp hmem).2
  exact (candidate_spec false c hcand).2.2 rfl

/-- unknown free space is never pressure; an archive node is never under pressure -/
theorem C15_pressure_cases (minK : Int) (archive : Bool) (a : Int) :
    pressure none minK archive = false ∧ pressure (some a) minK true = false ∧
    (minK ≤ a → pressure (some a) minK archive = false) := by
  refine ⟨by simp [pressure, underMin], by simp [pressure], ?_⟩
  intro h
  have : ¬ a < minK := by omega
  simp [pressure, underMin, this]

/-- **C15.2** record order: the selection is a sub-list of the table (so it is in id order
    whenever the table is), and every selected copy is a candidate: present in some form
    (`has ≠ N`), not wanted (`wants ≠ Y`). -/
theorem C15_order (avail : Option Int) (minK : Int) (archive : Bool)
    (pending : Nat → Bool) (copies : List DCopy) :
    (selectDelete avail minK archive pending copies).Sublist copies ∧
    ∀ c ∈ selectDelete avail minK archive pending copies, c.has ≠ .N ∧ c.wants ≠ .Y := by
  unfold selectDelete
  refine ⟨(selectLoop_sublist _ _ _).trans List.filter_sublist, ?_⟩
  intro c hc
  have hmem := (selectLoop_sublist _ _ _).subset hc
  have hcand := candidate_spec _ c (List.mem_filter.mp hmem).2
  exact ⟨hcand.1, hcand.2.1⟩

/-- **C15.4** no copy that is the source of a pending request is selected; every released
    (`wants = N`) candidate that is not a pending source is selected. -/
theorem C15_released_all (avail : Option Int) (minK : Int) (archive : Bool)
    (pending : Nat → Bool) (copies : List DCopy) :
    (∀ c ∈ selectDelete avail minK archive pending copies, pending c.file = false) ∧
    (∀ c ∈ copies, c.wants = .N → c.has ≠ .N → pending c.file = false →
        c ∈ selectDelete avail minK archive pending copies) := by
  unfold selectDelete
  refine ⟨selectLoop_pending _ _ _, ?_⟩
  intro c hc hw hh hp
  apply selectLoop_mem_of_not_M _ _ _ c _ (by simp [hw]) hp
  exact List.mem_filter.mpr ⟨hc, candidate_of_released _ c hw hh⟩

/-- **C15.3 (minimality)** split the candidate list at any removable (`wants = M`) copy `c`:
    `c` is selected iff it is not a pending source and the shortfall still remaining after the
    copies before it is positive.  `needAfter` is the shortfall minus the credit of every copy
    selected earlier in the pass (released ones included), never credited below what was selected. -/
theorem C15_minimal (pending : Nat → Bool) (need : Int) (pre post : List DCopy) (c : DCopy)
    (hc : c.wants = .M) :
    selectLoop pending need (pre ++ c :: post) =
      selectLoop pending need pre ++
        (if pending c.file = false ∧ needAfter pending need pre > 0
         then c :: selectLoop pending (needAfter pending need pre - credit c) post
         else selectLoop pending (needAfter pending need pre) post) := by
  exact selectLoop_split_M pending need pre post c hc

/-- the remaining shortfall is the initial one minus the credits of the selected copies, as
    long as it stays positive: it never increases, and once ≤ 0 it stays put -/
theorem C15_need_monotone (pending : Nat → Bool) (need : Int) (l : List DCopy) :
    needAfter pending need l ≤ need ∧ (need ≤ 0 → needAfter pending need l = need) := by
  exact ⟨needAfter_le pending need l, needAfter_nonpos pending need l⟩

/-- once the shortfall is covered, no further removable copy is selected -/
theorem C15_covered_stops (pending : Nat → Bool) (need : Int) (l : List DCopy) (h : need ≤ 0) :
    ∀ c ∈ selectLoop pending need l, c.wants ≠ .M := by
  exact selectLoop_nonpos_not_M pending need l h

/-- **C15.5** batching: the batches handed to `io.delete` concatenate to the selection, none
    is empty, and none exceeds ten copies. -/
theorem C15_batches (l : List DCopy) :
    (batches10 l).flatten = l ∧ ∀ b ∈ batches10 l, b ≠ [] ∧ b.length ≤ 10 := by
  exact batchesF_spec l.length l (Nat.le_refl _)

-- non-vacuity: pressure of 1500 bytes; released 1000-byte copy first, then two removable ones
example :
    (selectDelete (some 0) 1 false (fun _ => false)
      [⟨1, 1, .Y, .N, some 500, none⟩, ⟨2, 2, .Y, .M, some 400, none⟩,
       ⟨3, 3, .Y, .M, none, some 400⟩, ⟨4, 4, .Y, .M, some 1, none⟩]).map (·.id) = [1, 2, 3] := by decide

end Alpen
