import Alpen.Model.FileWalk
/-! helper lemmas for the `file_walk` model (mutual structural recursion over the nested tree) -/
namespace Alpen

mutual
theorem walkNode_length (pfx : List String) : (t : FsNode) → (walkNode pfx t).length = leavesNode t
  | .file => by simp [walkNode, leavesNode]
  | .symFile => by simp [walkNode, leavesNode]
  | .other => by simp [walkNode, leavesNode]
  | .dir _ cs => by simp only [walkNode, leavesNode]; exact walkList_length pfx cs
theorem walkList_length (pfx : List String) : (cs : List (String × FsNode)) → (walkList pfx cs).length = leavesList cs
  | [] => by simp [walkList, leavesList]
  | (n, x) :: rest => by
      simp only [walkList, leavesList, List.length_append, walkNode_length (pfx ++ [n]) x, walkList_length pfx rest]
end

mutual
theorem walkNode_reach (pfx : List String) : (t : FsNode) → ∀ p, p ∈ walkNode pfx t → Reach pfx t p
  | .file => by intro p h; simp [walkNode] at h; subst h; exact .file _
  | .symFile => by intro p h; simp [walkNode] at h
  | .other => by intro p h; simp [walkNode] at h
  | .dir s cs => by
      intro p h; simp only [walkNode] at h
      obtain ⟨n, x, hm, hr⟩ := walkList_reach pfx cs p h
      exact .dir pfx s cs n x p hm hr
theorem walkList_reach (pfx : List String) : (cs : List (String × FsNode)) → ∀ p, p ∈ walkList pfx cs →
    ∃ n x, (n, x) ∈ cs ∧ Reach (pfx ++ [n]) x p
  | [] => by intro p h; simp [walkList] at h
  | (n, x) :: rest => by
      intro p h; simp only [walkList, List.mem_append] at h
      rcases h with h | h
      · exact ⟨n, x, List.mem_cons_self, walkNode_reach (pfx ++ [n]) x p h⟩
      · obtain ⟨m, y, hm, hr⟩ := walkList_reach pfx rest p h
        exact ⟨m, y, List.mem_cons_of_mem _ hm, hr⟩
end

theorem mem_walkList_of_mem (pfx : List String) (n : String) (x : FsNode) (p : List String)
    (hp : p ∈ walkNode (pfx ++ [n]) x) : ∀ cs : List (String × FsNode), (n, x) ∈ cs → p ∈ walkList pfx cs
  | [] => by intro h; simp at h
  | (m, y) :: rest => by
      intro h
      simp only [walkList, List.mem_append]
      rcases List.mem_cons.mp h with h | h
      · left; cases h; exact hp
      · right; exact mem_walkList_of_mem pfx n x p hp rest h

theorem reach_walkNode {pfx : List String} {t : FsNode} {p : List String} (h : Reach pfx t p) : p ∈ walkNode pfx t := by
  induction h with
  | file pfx => simp [walkNode]
  | dir pfx s cs n x p hm _ ih => simp only [walkNode]; exact mem_walkList_of_mem pfx n x p ih cs hm

theorem reach_prefix {pfx : List String} {t : FsNode} {p : List String} (h : Reach pfx t p) : pfx <+: p := by
  induction h with
  | file pfx => exact List.prefix_refl _
  | dir pfx s cs n x p _ _ ih => exact List.IsPrefix.trans (List.prefix_append pfx [n]) ih

end Alpen
