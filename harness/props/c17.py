"""C17 — CLI: check mode / refusals never mutate; DB fault at every statement of every mutating command: all or nothing."""
import json
import random

import common
import cliharness
import env as envmod

MODULE = "Alpen.Props.C17"


def bulk_index(e, nfiles):
    """a large, regular index: every file healthy on SRC (group GS); DST (group GD) empty; some copies on OLD released"""
    from alpenhorn import db
    for m in (db.StorageTransferAction, db.ArchiveFileCopyRequest, db.ArchiveFileImportRequest, db.ArchiveFileCopy,
              db.ArchiveFile, db.ArchiveAcq, db.StorageNode, db.StorageGroup):
        m.delete().execute()
    gs, gd = db.StorageGroup.create(name="GS"), db.StorageGroup.create(name="GD")
    src = db.StorageNode.create(name="SRC", group=gs, root=e.root("SRC"), host="h1", active=True, storage_type="F")
    dst = db.StorageNode.create(name="DST", group=gd, root=e.root("DST"), host="h1", active=True, storage_type="A")
    acq = db.ArchiveAcq.create(name="A1")
    files = [dict(acq=acq.id, name=f"f{i:04d}.dat", size_b=1000, md5sum="0" * 32) for i in range(nfiles)]
    with db.database_proxy.atomic():
        for i in range(0, nfiles, 90):
            db.ArchiveFile.insert_many(files[i:i + 90]).execute()
        ids = [f.id for f in db.ArchiveFile.select()]
        rows = [dict(file=fid, node=src.id, has_file="Y", wants_file="Y", ready=True) for fid in ids]
        for i in range(0, nfiles, 90):
            db.ArchiveFileCopy.insert_many(rows[i:i + 90]).execute()
    return src, dst


BULK = [["group", "sync", "GD", "SRC", "--force"], ["node", "sync", "SRC", "GD", "--force"],
        ["node", "clean", "SRC", "--force"], ["node", "clean", "SRC", "--now", "--force"],
        ["node", "verify", "SRC", "--all", "--force"], ["node", "verify", "SRC", "--force"]]


def stage_bulk(ctx, e, nfiles):
    """commands whose number of affected rows grows with the index, on an index larger than any batching constant:
    an OperationalError at each statement must leave the before- or the after-state"""
    for argv in BULK:
        bulk_index(e, nfiles)
        before = cliharness.full_dump()
        rc, out, exc = e.cli(argv)
        nstmt = e.last_stmt_count
        after = cliharness.full_dump()
        changed = after != before
        ctx.count(f"bulk:{argv[0]} {argv[1]}:{'changed' if changed else 'unchanged'}")
        ctx.case(("bulk", tuple(argv), nfiles), nontrivial=changed,
                 sample={"argv": argv, "files": nfiles, "statements": nstmt, "exit": rc,
                         "rows_changed": {t: sum(1 for a, b in zip(before[t], after[t]) if a != b) + abs(len(after[t]) - len(before[t])) for t in after if after[t] != before[t]}}
                 if changed and len(ctx.samples) < 5 else None)
        if not changed or rc != 0:
            continue
        for k in range(nstmt):
            bulk_index(e, nfiles)
            rc2, out2, exc2 = e.cli(argv, faults={k})
            a2 = cliharness.full_dump()
            ctx.count("bulk:fault-run")
            ctx.case(("bulk-fault", tuple(argv), nfiles, k), nontrivial=True)
            if a2 != before and a2 != after:
                diff = {t: f"{len(a2[t])} rows (before {len(before[t])}, complete {len(after[t])})" for t in after if a2[t] != before[t]}
                ctx.violation(f"partial:bulk:{argv[0]} {argv[1]}", f"`alpenhorn {' '.join(argv)}` on {nfiles} files with a DB error at statement "
                              f"{k} of {nstmt} applied part of its changes: {diff}",
                              {"kind": "cli-bulk-fault", "argv": argv, "files": nfiles, "k": k, "exit": rc2})
                break


FLAGSETS = {
    "node verify": (lambda ix: ["node", "verify", ix.node(bad=0)], ["--cancel", "--all", "--healthy", "--missing", "--corrupt", "--force"]),
    "node clean": (lambda ix: ["node", "clean", ix.node(bad=0)], ["--now", "--cancel", "--archive-ok", "--include-bad", "--force"]),
    "group sync": (lambda ix: ["group", "sync", ix.group(bad=0), ix.node(bad=0)], ["--cancel", "--show-acqs", "--show-files", "--force"]),
    "node sync": (lambda ix: ["node", "sync", ix.node(bad=0), ix.group(bad=0)], ["--cancel", "--show-acqs", "--show-files", "--force"]),
}


def stage_check_mode_grid(ctx, e):
    """check mode never mutates, whatever else is on the command line: every subset of the boolean options of the four
    check-then-update commands together with --check (usage errors included), and every subset with the confirmation
    declined, on random indexes with suspect / released / healthy copies"""
    import itertools
    for kind, (base, flags) in FLAGSETS.items():
        for r in range(len(flags) + 1):
            for subset in itertools.combinations(flags, r):
                for mode in ("check", "declined"):
                    if mode == "declined" and "--force" in subset:
                        continue
                    seed = ctx.rng.getrandbits(40)
                    ix = cliharness.Index(e, random.Random(seed))
                    argv = base(ix) + list(subset) + (["--check"] if mode == "check" else [])
                    before = cliharness.full_dump()
                    rc, out, exc = e.cli(argv, input=None if mode == "check" else "n\n")
                    after = cliharness.full_dump()
                    ctx.count(f"grid:{kind}:{mode}:{'usage' if rc == 2 else 'ran'}")
                    ctx.case(("checkgrid", kind, subset, mode, seed), nontrivial=True)
                    if after != before:
                        ctx.violation(f"mutated:grid:{kind}:{mode}", f"`alpenhorn {' '.join(argv)}`"
                                      f"{' (confirmation declined)' if mode == 'declined' else ''} (exit {rc}) changed the index: "
                                      f"{[t for t in after if after[t] != before[t]]}",
                                      {"kind": "cli", "argv": argv, "stdin": None if mode == "check" else "n\n", "seed": seed, "exit": rc,
                                       "output": out[-400:]})


def stage_lookup_lists(ctx, e, nidx):
    """a look-up error inside a list of names: the four commands with a repeatable --acq option (and their --cancel forms),
    in update mode, with one acquisition that exists and one that does not, in both orders.  The index must not change; the
    same command without the unknown name is run as a control (it usually does change the index)."""
    forms = [("node clean", lambda n, g: ["node", "clean", n, "--force", "--archive-ok"]),
             ("node clean --now", lambda n, g: ["node", "clean", n, "--force", "--archive-ok", "--now"]),
             ("node clean --cancel", lambda n, g: ["node", "clean", n, "--force", "--cancel"]),
             ("node verify", lambda n, g: ["node", "verify", n, "--force", "--all"]),
             ("node verify --cancel", lambda n, g: ["node", "verify", n, "--force", "--cancel"]),
             ("node sync", lambda n, g: ["node", "sync", n, g, "--force"]),
             ("node sync --cancel", lambda n, g: ["node", "sync", n, g, "--force", "--cancel"]),
             ("group sync", lambda n, g: ["group", "sync", g, n, "--force"]),
             ("group sync --cancel", lambda n, g: ["group", "sync", g, "--all", "--force", "--cancel"])]
    for k in range(nidx):
        for fi, (label, mk) in enumerate(forms):
            seed = 7000 + k
            outcomes = []
            for variant in ("control", "unknown-last", "unknown-first"):
                ix = cliharness.Index(e, random.Random(seed))
                n = ix.nodes[(k + fi) % len(ix.nodes)]
                g = [x for x in ix.groups if x.id != n.group_id][0]
                a = ix.acqs[k % len(ix.acqs)].name
                extra = {"control": ["--acq", a], "unknown-last": ["--acq", a, "--acq", "NOPE"], "unknown-first": ["--acq", "NOPE", "--acq", a]}[variant]
                argv = mk(n.name, g.name) + extra
                before = cliharness.full_dump()
                rc, out, exc = e.cli(argv)
                after = cliharness.full_dump()
                outcomes.append((variant, rc, after != before))
                if variant != "control":
                    ctx.case(("lookup-list", label, variant, seed), nontrivial=True)
                    if after != before:
                        ctx.violation(f"mutated:{label}:lookup-list", f"`alpenhorn {' '.join(argv)}` names an acquisition that does not exist "
                                      f"but went ahead (exit code {rc}) and changed {[t for t in after if after[t] != before[t]]}",
                                      {"kind": "cli", "argv": argv, "stdin": None, "seed": seed, "exit": rc, "output": out[-400:]})
            ctx.count(f"lookup-list:{label}:control-{'changed' if outcomes[0][2] else 'unchanged'}")


def stage_file_verify_grid(ctx, e):
    """`file verify FILE NODE` over every state of the copy record (has_file x wants_file, and no record at all).  Its help
    text: "If there is no copy of FILE on NODE, an error is returned" - a record that says the file is gone and not wanted
    back (has_file N, wants_file M or N) is no copy; a missing file that is wanted (N / Y) may be re-verified.  Refused
    invocations, and those with nothing to do, leave the index unchanged."""
    from alpenhorn import db
    for has, wants in [(h, w_) for h in "YMXN" for w_ in "YMN"] + [(None, None)]:
        ix = cliharness.Index(e, random.Random(4242))
        f, n = ix.files[0], ix.nodes[0]
        db.ArchiveFileCopy.delete().where(db.ArchiveFileCopy.file == f.id, db.ArchiveFileCopy.node == n.id).execute()
        if has is not None:
            db.ArchiveFileCopy.create(file=f, node=n, has_file=has, wants_file=wants)
        argv = ["file", "verify", f"{f.acq.name}/{f.name}", n.name]
        before = cliharness.full_dump()
        rc, out, exc = e.cli(argv)
        after = cliharness.full_dump()
        no_copy = has is None or (has == "N" and wants != "Y")
        ctx.case(("file-verify-grid", has, wants), nontrivial=True)
        ctx.count(f"file-verify:{'no-copy' if no_copy else 'copy'}:{'changed' if after != before else 'unchanged'}")
        if no_copy and (after != before or rc == 0):
            ctx.violation("mutated:file verify:no-copy", f"`alpenhorn {' '.join(argv)}` with the copy record "
                          f"{'absent' if has is None else f'has_file={has} wants_file={wants}'} (there is no copy of the file on the node) "
                          f"exited {rc} and {'changed' if after != before else 'did not change'} the index",
                          {"kind": "cli", "argv": argv, "stdin": None, "seed": 4242, "exit": rc, "state": [has, wants]})
        elif rc != 0 and after != before:
            ctx.violation("mutated:file verify:refused", f"`alpenhorn {' '.join(argv)}` exited {rc} but changed the index",
                          {"kind": "cli", "argv": argv, "seed": 4242, "exit": rc})


def run(ctx):
    ok = common.proof_stage(ctx, MODULE)
    rng = ctx.rng
    ncmd = 168 if ctx.quick() else 4800
    model_lines, model_meta = [], []
    with envmod.CliEnv() as e:
        for ci in range(ncmd):
            seed = rng.getrandbits(40)
            ix = cliharness.Index(e, random.Random(seed))
            kind = cliharness.KINDS[ci % len(cliharness.KINDS)]
            corpus = ci < 2 * len(cliharness.KINDS)          # first: the corpus of well-formed mutating invocations
            gen = cliharness.canonical if corpus else cliharness.gen_command
            argv, stdin, meta = gen(ix, kind)
            before = cliharness.full_dump()
            rc, out, exc = e.cli(argv, input=stdin)
            nstmt = e.last_stmt_count
            after = cliharness.full_dump()
            changed = after != before
            if exc is not None and not isinstance(exc, SystemExit):
                ctx.count("cli:exception:" + type(exc).__name__)
            ctx.count(f"cli:{meta['kind']}:{'changed' if changed else 'unchanged'}")
            ctx.case((tuple(argv), stdin, seed), nontrivial=changed or rc != 0,
                     sample={"argv": argv, "stdin": stdin, "exit": rc, "statements": nstmt, "changed_tables": [t for t in after if after[t] != before[t]],
                             "output": out[:200]} if changed and meta["mode"] != "plain" and len(ctx.samples) < 4 else None)
            # --- refusals and check mode never mutate
            refused = rc != 0
            nomut_mode = meta["mode"] in ("check", "confirm-no", "stdin")
            if changed and (refused or nomut_mode):
                why = f"exit code {rc}" if refused else f"mode {meta['mode']}"
                ctx.violation(f"mutated:{meta['kind']}:{why}", f"`alpenhorn {' '.join(argv)}` ({why}) changed the index: "
                              f"{[t for t in after if after[t] != before[t]]}",
                              {"kind": "cli", "argv": argv, "stdin": stdin, "seed": seed, "exit": rc, "output": out[-500:]})
            # a name that does not exist in the index (the generator's "NOPE") is a look-up error wherever it stands - alone, or
            # in a list next to names that do exist: the command must not go ahead on the part it could resolve
            if changed and "NOPE" in argv:
                ctx.violation(f"mutated:{meta['kind']}:lookup", f"`alpenhorn {' '.join(argv)}` names something that does not exist (NOPE) "
                              f"but changed the index (exit code {rc}): {[t for t in after if after[t] != before[t]]}",
                              {"kind": "cli", "argv": argv, "stdin": stdin, "seed": seed, "exit": rc, "output": out[-500:]})
            if meta["mode"] != "plain":
                chk = "--check" in argv
                force = "--force" in argv
                is_stdin = "--file-list" in argv and argv[argv.index("--file-list") + 1] == "-"
                confirmed = stdin is not None and stdin.startswith("y")
                model_lines.append(f"cmdupd {int(chk)} {int(force)} {int(is_stdin)} {int(confirmed)}")
                model_meta.append((argv, changed, rc))
            # --- all or nothing under a DB error at each statement
            if changed and rc == 0:
                for k in range(nstmt):
                    ix2 = cliharness.Index(e, random.Random(seed))
                    argv2, stdin2, _ = gen(ix2, kind)
                    b2 = cliharness.full_dump()
                    if b2 != before:
                        ctx.notes.append("index rebuild not deterministic")
                        break
                    rc2, out2, exc2 = e.cli(argv, input=stdin, faults={k})
                    a2 = cliharness.full_dump()
                    ctx.count("cli:fault-run")
                    ctx.case(("fault", tuple(argv), seed, k), nontrivial=True)
                    if a2 != before and a2 != after:
                        diff = [t for t in after if a2[t] != before[t]]
                        ctx.violation(f"partial:{meta['kind']}", f"`alpenhorn {' '.join(argv)}` with a DB error at statement {k} of {nstmt} "
                                      f"applied part of its changes (tables {diff})",
                                      {"kind": "cli-fault", "argv": argv, "stdin": stdin, "seed": seed, "k": k, "exit": rc2})
        stage_check_mode_grid(ctx, e)
        stage_lookup_lists(ctx, e, 6 if ctx.quick() else 60)
        stage_file_verify_grid(ctx, e)
        stage_bulk(ctx, e, 260 if ctx.quick() else 1200)
    outs = common.Driver().batch(model_lines) if model_lines else []
    for line, (argv, changed, rc), o in zip(model_lines, model_meta, outs):
        if o == "0" and changed:
            ctx.corr_broken.append({"stream": "check_then_update-vs-commandUpdates", "argv": argv, "model_updates": o, "real_changed": changed})
    ctx.corr_broken = ctx.corr_broken[:5]
    ctx.coverage["rule"] = ("random indexes (2-4 groups, 2-5 nodes, acquisitions, files with/without sizes and past/future registration, copies "
                            "in all states, requests, rules) and random invocations of 27 mutating sub-commands with random flag "
                            "combinations, existing and non-existing names, good/bad file lists, --check/--force/confirm yes/no/stdin; "
                            "full dump of all tables before/after; every command that changed something is re-run with an OperationalError "
                            "at each of its statements. distinct = (argv, stdin, index seed[, fault index])")
    from props.c06 import finish_search
    finish_search(ctx, ok)


def replay(ctx, path):
    r = json.load(open(path))
    print(json.dumps(r, indent=1)[:3000])
    if r.get("kind") == "cli-bulk-fault":
        with envmod.CliEnv() as e:
            bulk_index(e, r["files"])
            before = cliharness.full_dump()
            e.cli(r["argv"])
            after = cliharness.full_dump()
            bulk_index(e, r["files"])
            rc, out, exc = e.cli(r["argv"], faults={r["k"]})
            a2 = cliharness.full_dump()
            bad = a2 != before and a2 != after
            print("exit", rc, "partial" if bad else "all-or-nothing")
        return 1 if bad else 0
    with envmod.CliEnv() as e:
        cliharness.Index(e, random.Random(r["seed"]))
        before = cliharness.full_dump()
        rc, out, exc = e.cli(r["argv"], input=r.get("stdin"), faults={r["k"]} if "k" in r else None)
        after = cliharness.full_dump()
        print("exit", rc, "changed tables", [t for t in after if after[t] != before[t]])
        print(out[-800:])
    return 1
