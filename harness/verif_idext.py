"""import-detect extension for the harness.  Behaviour is controlled through MODE:
   ("first", k): acquisition name = first k components of the path (needs > k components)
   ("reject",): never accepts
   ("fixed", acqname): always returns acqname (possibly hostile / non-ancestor)
   callable: called directly
"""
import pathlib

MODE = ["first", 1]
CALLS = []


def detect(path, node):
    CALLS.append(str(path))
    m = MODE
    if callable(m[0]):
        return m[0](path, node)
    if m[0] == "reject":
        return None, None
    if m[0] == "fixed":
        return m[1], None
    parts = pathlib.PurePath(path).parts
    k = m[1]
    if len(parts) <= k:
        return None, None
    return "/".join(parts[:k]), None


def register_extension():
    return {"import-detect": detect}
