import Alpen.Model.Str
import Alpen.Model.Basic
/-
  Models for the Lustre-HSM I/O classes (alpenhorn/io/lfs.py, lustrehsm.py): the parsers of
  `lfs hsm_state` / `lfs hsm_action` output, the restore-wait bookkeeping, the release
  selection, the idle state refresh, and the residency guard of `open`.  Core Lean only.
-/
namespace Alpen

inductive HsmState where
  | missing | unarchived | restored | restoring | released
  deriving DecidableEq, Repr

/-- outcome of running `lfs` -/
inductive LfsRun where
  | ok (stdout : Str)
  | missing            -- "No such file or directory"
  | failed
  | timeout
  deriving DecidableEq, Repr

def kwArchived : Str := "archived".toList
def kwReleased : Str := "released".toList
def kwRestore : Str := "RESTORE".toList

/-- strip `path ++ ":"` from the front of the output, if it is there -/
def stripPath (path out : Str) : Option Str :=
  if (path ++ [':']).isPrefixOf out then some (out.drop path.length) else none

/-- `LFS.hsm_restoring` (repaired: the path is stripped before looking for the keyword;
    output that does not start with the path is searched as a whole) -/
def hsmRestoringParse (path : Str) : LfsRun → Option Bool
  | .ok out => some (isInfixB kwRestore ((stripPath path out).getD out))
  | _ => none

/-- pinned behaviour: the keyword is searched in the whole output, path included -/
def hsmRestoringLegacy (_path : Str) : LfsRun → Option Bool
  | .ok out => some (isInfixB kwRestore out)
  | _ => none

/-- `LFS.hsm_state`: `stateRun` = result of `lfs hsm_state`, `actionRun` = result of the
    `lfs hsm_action` call made only when the flags say archived + released -/
def hsmStateParse (path : Str) (stateRun actionRun : LfsRun) : Option HsmState :=
  match stateRun with
  | .failed | .timeout => none
  | .missing => some .missing
  | .ok out =>
    match stripPath path out with
    | none => none
    | some rest =>
      if !isInfixB kwArchived rest then some .unarchived
      else if !isInfixB kwReleased rest then some .restored
      else match hsmRestoringParse path actionRun with
        | some true => some .restoring
        | _ => some .released          -- `if self.hsm_restoring(path)`: None and False are both falsy

/-! ### restore-wait bookkeeping (`LustreHSMNodeIO._restore_wait`) -/

structure Rbk where
  restoring : List Nat           -- `_restoring`
  started : List Nat             -- keys of `_restore_start`
  deriving DecidableEq, Repr

inductive WaitRes where
  | wait | ready | error
  deriving DecidableEq, Repr

def Rbk.clear (b : Rbk) (f : Nat) : Rbk := ⟨b.restoring.filter (· != f), b.started.filter (· != f)⟩
def Rbk.mark (b : Rbk) (f : Nat) : Rbk :=
  if b.restoring.contains f then b else ⟨f :: b.restoring, f :: b.started⟩

/-- `restoreResult` = what `lfs.hsm_restore` returned (`some true`, `some false`, `none` = time-out);
    only consulted in the RELEASED state -/
def restoreWait (b : Rbk) (f : Nat) (state : Option HsmState) (restoreResult : Option Bool) : Rbk × WaitRes :=
  match state with
  | none => (b.clear f, .error)
  | some .missing => (b.clear f, .error)
  | some .restoring => (b.mark f, .wait)
  | some .released =>
    match restoreResult with
    | some false => (b.clear f, .error)
    | _ => (b.mark f, .wait)
  | some _ => (b.clear f, .ready)            -- RESTORED or UNARCHIVED

/-- the generator loop of the check / ready-pull tasks: one answer per segment; returns the
    bookkeeping when the loop exits and how it exits (`fuel` = segments available) -/
def restoreLoop (f : Nat) : Rbk → List (Option HsmState × Option Bool) → Rbk × Option WaitRes
  | b, [] => (b, none)                        -- still waiting (task alive)
  | b, (st, rr) :: rest =>
    match restoreWait b f st rr with
    | (b', .wait) => restoreLoop f b' rest
    | (b', r) => (b', some r)

/-! ### the two tasks built on the loop -/

/-- the `ready_pull` task (offering a file as a transfer source): when the loop ends, the copy's ready flag becomes
    "the loop ended with the file resident"; `none` = the task is still waiting when the answers run out -/
def readyPullTask (f : Nat) (b : Rbk) (answers : List (Option HsmState × Option Bool)) : Rbk × Option Bool :=
  match restoreLoop f b answers with
  | (b', none) => (b', none)
  | (b', some r) => (b', some (r == .ready))

/-- the `check` task on an HSM node: first answer MISSING (file gone) records the copy absent without hashing; otherwise
    the loop runs and the file is opened and hashed only if the loop ended `ready`; returns (bookkeeping, hashed?) -/
def hsmCheckTask (f : Nat) (b : Rbk) (existsAnswer : Option HsmState) (answers : List (Option HsmState × Option Bool)) :
    Rbk × Bool :=
  if existsAnswer = some .missing then (b, false)
  else match restoreLoop f b answers with
    | (b', some .ready) => (b', true)
    | (b', _) => (b', false)

/-! ### release selection (`release_files`) -/

structure RCopy where
  id : Nat
  size : Nat
  state : Option HsmState         -- what `lfs hsm_state` answers for this copy
  deriving DecidableEq, Repr

/-- copies are the healthy, ready copies in `last_update` order; released until the headroom is met -/
def releaseLoop (need : Int) : Int → List RCopy → List Nat
  | _, [] => []
  | total, c :: cs =>
    if c.state = some .restored then
      let total' := total + c.size
      if total' ≥ need then [c.id] else c.id :: releaseLoop need total' cs
    else releaseLoop need total cs

/-- `release_files`: `availBytes` unknown ⇒ nothing; headroom met ⇒ nothing -/
def releaseFiles (headroom : Int) (availBytes : Option Int) (copies : List RCopy) : List Nat :=
  match availBytes with
  | none => []
  | some a => if headroom - a ≤ 0 then [] else releaseLoop (headroom - a) 0 copies

/-! ### idle refresh -/

/-- effect of the state check on one copy: new (has, ready); `none` = row left unchanged -/
def refreshOne (ready : Bool) : Option HsmState → Option (Has × Bool)
  | none => none
  | some .missing => some (.N, false)
  | some .released | some .restoring => if ready then some (.Y, false) else none
  | some _ => if ready then none else some (.Y, true)

/-- `LustreHSMNodeIO.open`: succeeds only for resident files -/
def hsmOpenOk : Option HsmState → Bool
  | some .restored | some .unarchived => true
  | _ => false

end Alpen
