/-
  String-level models (core Lean only): path splitting/joining, infix test,
  `posixpath.normpath`.  Strings are `List Char`.
-/
namespace Alpen

abbrev Str := List Char

def slash : Char := '/'

/-- `s.split('/')` of Python: never empty. -/
def splitSlash : Str → List Str
  | [] => [[]]
  | c :: cs =>
    if c = slash then [] :: splitSlash cs
    else match splitSlash cs with
      | [] => [[c]]
      | h :: t => (c :: h) :: t

/-- `'/'.join(cs)` -/
def joinSlash : List Str → Str
  | [] => []
  | [a] => a
  | a :: b :: t => a ++ slash :: joinSlash (b :: t)

/-- `w in s` of Python for strings (substring test). -/
def isInfixB (w : Str) : Str → Bool
  | [] => w.isPrefixOf []
  | c :: cs => w.isPrefixOf (c :: cs) || isInfixB w cs

def dot : Str := ['.']
def dotdot : Str := ['.', '.']

/-- A canonical relative path: every `/`-component is non-empty and neither "." nor "..". -/
def CanonicalComps (cs : List Str) : Prop :=
  ∀ c ∈ cs, c ≠ [] ∧ c ≠ dot ∧ c ≠ dotdot

def Canonical (s : Str) : Prop := CanonicalComps (splitSlash s)

instance (cs : List Str) : Decidable (CanonicalComps cs) := by
  unfold CanonicalComps; infer_instance
instance (s : Str) : Decidable (Canonical s) := by
  unfold Canonical; infer_instance

/-- the component loop of `posixpath.normpath`; `abs` = path had leading slash(es);
    `acc` is the list of kept components, most recent first. -/
def normLoop (abs : Bool) : List Str → List Str → List Str
  | [], acc => acc.reverse
  | c :: cs, acc =>
    if c = [] ∨ c = dot then normLoop abs cs acc
    else if c ≠ dotdot ∨ (!abs ∧ acc = []) ∨ (acc.head? = some dotdot) then
      normLoop abs cs (c :: acc)
    else normLoop abs cs acc.tail

/-- number of leading slashes as Python counts them: 0, 1, or 2 (exactly two). -/
def initialSlashes : Str → Nat
  | '/' :: '/' :: '/' :: _ => 1
  | '/' :: '/' :: _ => 2
  | '/' :: _ => 1
  | _ => 0

/-- `posixpath.normpath` -/
def normpath (s : Str) : Str :=
  if s = [] then dot else
  let n := initialSlashes s
  let comps := normLoop (n != 0) (splitSlash s) []
  let p := List.replicate n slash ++ joinSlash comps
  if p = [] then dot else p

/-- hand-written model of `alpenhorn.common.util.invalid_import_path`
    (`none` = accepted, `some i` = i-th rejection reason).  The driver uses this one; the
    theorems in `Props/C06.lean` are proved for the function *translated from the source*
    (`Gen.invalidImportPathGen`) and for this one, so the two provably accept the same strings. -/
def invalidImportPath (s : Str) : Option Nat :=
  if s = [] then some 0
  else if s = dot ∨ s = dotdot then some 1
  else if [slash].isPrefixOf s || ['.', '/'].isPrefixOf s || ['.', '.', '/'].isPrefixOf s then some 2
  else if [slash].isSuffixOf s || ['/', '.'].isSuffixOf s || ['/', '.', '.'].isSuffixOf s then some 3
  else if isInfixB ['/', '/'] s then some 4
  else if isInfixB ['/', '.', '/'] s then some 5
  else if isInfixB ['/', '.', '.', '/'] s then some 6
  else none

end Alpen
