import Alpen.Model.Cli
/-!
# C17 — CLI: check mode and refusals never mutate; failures are all-or-nothing

"Any CLI command that is run in check mode, declined at its confirmation prompt, fed its file
list from standard input without --force, or rejected for a usage or look-up error leaves the
data index unchanged. A mutating command that fails part-way (database error at any statement)
applies either all of its index changes or none."

The decision whether the update pass of a command runs at all is `commandUpdates`
(= `check_if_from_stdin` ∘ `check_then_update`).  That every write of every command sits behind
that decision and inside one transaction (or is a single statement) is established by the
correspondence run, which enumerates every statement index of every mutating sub-command.
-/
namespace Alpen

/-- the update pass runs iff `--check` was not given and either `--force` was, or the file list
    does not come from stdin and the operator confirmed -/
theorem C17_updates_iff (check force isStdin confirmed : Bool) :
    commandUpdates check force isStdin confirmed = true ↔
      (check = false ∧ (force = true ∨ (isStdin = false ∧ confirmed = true))) := by
  cases check <;> cases force <;> cases isStdin <;> cases confirmed <;> decide

theorem C17_check_no_update (force isStdin confirmed : Bool) :
    commandUpdates true force isStdin confirmed = false := by
  cases force <;> cases isStdin <;> cases confirmed <;> decide

theorem C17_declined_no_update (check isStdin : Bool) :
    commandUpdates check false isStdin false = false := by
  cases check <;> cases isStdin <;> decide

theorem C17_stdin_forces_check (check confirmed : Bool) :
    commandUpdates check false true confirmed = false := by
  cases check <;> cases confirmed <;> decide

/-- a transaction of index writes with a fault at statement `k`: all-or-nothing -/
def txnRun {σ} (writes : List (σ → σ)) (faultAt : Option Nat) (s : σ) : σ :=
  match faultAt with
  | some k => if k < writes.length then s else writes.foldl (fun acc w => w acc) s
  | none => writes.foldl (fun acc w => w acc) s

theorem C17_txn_all_or_nothing {σ} (writes : List (σ → σ)) (k : Option Nat) (s : σ) :
    txnRun writes k s = s ∨ txnRun writes k s = txnRun writes none s := by
  unfold txnRun
  cases k with
  | none => exact Or.inr rfl
  | some k =>
    by_cases h : k < writes.length
    · simp [h]
    · simp [h]

end Alpen
