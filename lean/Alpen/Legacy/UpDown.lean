/-
  The *pinned* structure of `_UpDownLock.acquire` (before the repair): the fast-path test runs
  under `_lock`; a thread that fails it leaves `_lock` and only then waits on a condition that
  has its own, different lock.  Between the two it is in the `gap` state, where a `release`
  can notify nobody.  Used only for the counter-example theorem of C13.  Core Lean only.
-/
namespace Alpen.Legacy

inductive LPc where
  | idle
  | gap                      -- failed the fast path, not yet waiting
  | waiting (notified : Bool)
  deriving DecidableEq, Repr

structure LUD where
  count : Int
  owners : Nat → Nat
  pc : Nat → LPc

def LUD.init : LUD := ⟨0, fun _ => 0, fun _ => .idle⟩

def lupd {α} (f : Nat → α) (k : Nat) (v : α) : Nat → α := fun i => if i = k then v else f i

inductive LOp where
  | acq (t : Nat) (isDown : Bool)     -- fast path of a blocking acquire
  | enterWait (t : Nat)               -- `with _is_unlocked: wait()`
  | rel (t : Nat) (isDown : Bool)
  deriving DecidableEq, Repr

def lstep (s : LUD) : LOp → LUD
  | .acq t isDown =>
    let ok := if isDown then decide (s.count ≤ 0) else decide (s.count ≥ 0)
    if ok then { s with count := if isDown then s.count - 1 else s.count + 1,
                        owners := lupd s.owners t (s.owners t + 1) }
    else { s with pc := lupd s.pc t .gap }
  | .enterWait t =>
    match s.pc t with
    | .gap => { s with pc := lupd s.pc t (.waiting false) }
    | _ => s
  | .rel t isDown =>
    let okc := if isDown then decide (s.count < 0) else decide (s.count > 0)
    if okc && decide (s.owners t > 0) then
      let c' := if isDown then s.count + 1 else s.count - 1
      let s' := { s with count := c', owners := lupd s.owners t (s.owners t - 1) }
      if c' = 0 then
        { s' with pc := fun i => match s'.pc i with | .waiting _ => .waiting true | x => x }
      else s'
    else s

def lrun (s : LUD) (ops : List LOp) : LUD := ops.foldl lstep s

end Alpen.Legacy
