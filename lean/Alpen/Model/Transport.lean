/-
  Transport groups: which node of the group a pull is handed to (`TransportGroupIO.pull_force`).  Core Lean only.
-/
namespace Alpen

/-- what `TransportGroupIO.pull_force` looks at for each local transport node of the group -/
structure TNode where
  id : Nat
  availKiB : Option Int          -- `avail_gb` (KiB-exact); `none` = unknown
  underMin : Bool                -- `node.db.under_min`
  overMax : Bool                 -- `node.db.check_over_max()`
  fits : Bool                    -- `node.io.fits(size)` (free space minus reservations)
  deriving DecidableEq, Repr

/-- sort key: free space, unknown free space counts as enormous (`id * 1e9` GiB) -/
def TNode.key (n : TNode) : Int := match n.availKiB with
  | some a => a
  | none => (n.id : Int) * 1000000000 * 1048576

def TNode.eligible (n : TNode) : Bool := !n.underMin && !n.overMax && n.fits

/-- first node of minimal key (= first in a stable sort by key) -/
def minKey : Option TNode → List TNode → Option TNode
  | best, [] => best
  | none, n :: ns => minKey (some n) ns
  | some b, n :: ns => if n.key < b.key then minKey (some n) ns else minKey (some b) ns

/-- `pull_force`: non-local sources are ignored; otherwise the fullest node that can take the file -/
def transportPick (srcLocal : Bool) (nodes : List TNode) : Option Nat :=
  if srcLocal then (minKey none (nodes.filter TNode.eligible)).map (·.id) else none

end Alpen
