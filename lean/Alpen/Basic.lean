def hello := "world"
