import Alpen.Model.World
/-
  Histories over the world model: operator commands, external faults and daemon task steps
  in any interleaving (one `WOp` per step).  Core Lean only.
-/
namespace Alpen

inductive WOp where
  | deleteOne (c : WCopy) (unlinkFails : Bool)          -- one copy of a delete task
  | check (snap : WCopy) (statOk : Bool)                -- a check task
  | decide (r : WReq) (srcReady : Bool)                 -- update_pull in the main loop
  | search (r : WReq) (dest : Nat) (onDisk : Bool)      -- pre-pull search task
  | pull (r : WReq) (dest : Nat) (t : World.Transfer)       -- pull task
  | opSetCopy (id : Nat) (has : Has) (wants : Wants)    -- operator: file state / clean / verify / modify
  | opAddReq (f nf gt : Nat)                            -- operator: sync
  | opCancelReq (id : Nat)
  | opAddCopy (f n : Nat) (has : Has) (wants : Wants)   -- import-like registration of a copy
  | fault (n f : Nat) (c : Option OnDisk)               -- external damage to storage
  | measure (n : Nat) (avail : Option Int)              -- free space of node n measured and recorded (update_free_space, end of a pull task)
  deriving DecidableEq, Repr

namespace World

def wstep (w : World) : WOp → World × List Eff
  | .deleteOne c uf => w.deleteOne c uf
  | .check snap ok => w.checkStep snap ok
  | .decide r sr => w.applyDecision r (w.updatePull r sr)
  | .search r d od => let x := w.groupSearch r d od; (x.1, x.2.1)
  | .pull r d t => w.pullTask r d t
  | .opSetCopy id h wn => (w.mapCopy id (fun c => { c with has := h, wants := wn }), [])
  | .opAddReq f nf gt => ({ w with reqs := w.reqs ++ [⟨w.nextId, f, nf, gt, false, false⟩], nextId := w.nextId + 1 }, [])
  | .opCancelReq id => (w.mapReq id (fun r => { r with cancelled := true }), [])
  | .opAddCopy f n h wn =>
    match w.copyAt f n with
    | some _ => (w, [])
    | none => ({ w with copies := w.copies ++ [⟨w.nextId, f, n, h, wn, true⟩], nextId := w.nextId + 1 }, [])
  | .fault n f c => (w.setDisk n f c, [])
  | .measure n a => ({ w with nodes := w.nodes.map (fun x => if x.id == n then { x with availKiB := a } else x) }, [])

/-- the trace of a history: (state before the step, the step, its effects) -/
def trace (w : World) : List WOp → List (World × WOp × List Eff)
  | [] => []
  | op :: ops => (w, op, (w.wstep op).2) :: trace (w.wstep op).1 ops

def runOps (w : World) (ops : List WOp) : World := ops.foldl (fun s op => (s.wstep op).1) w

/-- at most one copy row per (file, node): the unique index of ArchiveFileCopy -/
def UniqueCopies (w : World) : Prop :=
  w.copies.Pairwise (fun a b => ¬ (a.file = b.file ∧ a.node = b.node))

end World
end Alpen
