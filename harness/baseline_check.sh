#!/bin/sh
# Runs the repository's baseline test command (guard off) and compares with BASELINE.json's stable_pass list.
out=${1:-/tmp/alpen-baseline.junit.xml}
cd /repo && env -u ALPENHORN_VERIF /venv/bin/python -m pytest -ra -q -p no:cacheprovider --timeout=900 --continue-on-collection-errors --junitxml=$out >/dev/null 2>&1
/venv/bin/python - "$out" <<'PY'
import json, sys, xml.etree.ElementTree as ET
base = json.load(open('/root/.vp/BASELINE.json'))
t = ET.parse(sys.argv[1])
passed = set()
for tc in t.iter('testcase'):
    if not any(ch.tag in ('failure', 'error', 'skipped') for ch in tc):
        passed.add(tc.get('classname') + '::' + tc.get('name'))
missing = [x for x in base['stable_pass'] if x not in passed]
print('baseline stable_pass:', len(base['stable_pass']), 'now passing of those:', len(base['stable_pass']) - len(missing))
print('MISSING:', missing)
PY
