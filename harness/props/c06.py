"""C06 — path confinement.  Part 1: strings (invalid_import_path / normpath)."""
import itertools
import json
import posixpath

import common
from common import enc, dec

MODULE = "Alpen.Props.C06"


def oracle_canonical(s: str) -> bool:
    """The property text: non-empty, no leading or trailing slash, no empty, '.' or '..' component."""
    if s == "":
        return False
    return all(c not in ("", ".", "..") for c in s.split("/"))


def oracle_accept_ok(s: str):
    """Property clauses about an *accepted* name. Returns None or a description of what fails."""
    if not oracle_canonical(s):
        return "accepted name is not a canonical relative path"
    if posixpath.normpath(s) != s:
        return "accepted name differs from its normalised form"
    root = "/data/node1"
    full = posixpath.normpath(posixpath.join(root, s))
    if not full.startswith(root + "/"):
        return "accepted name resolves to the node root or outside it"
    return None


def strings(ctx):
    seen = set()
    def emit(alpha, n):
        for L in range(0, n + 1):
            for t in itertools.product(alpha, repeat=L):
                s = "".join(t)
                if s not in seen:
                    seen.add(s)
                    yield s
    if ctx.quick():
        yield from emit("/.a", 9)
        yield from emit("/.a \n", 5)
    else:
        yield from emit("/.a", 11)
        yield from emit("/.a \n", 6)
        yield from emit("/.a\\\x00é", 5)
    # random longer strings
    rng = ctx.rng
    parts = ["", ".", "..", "a", "b.c", ".hid", "...", " ", "a b", "x" * 40, "é", "..a", "a..", ". "]
    for _ in range(4000 if ctx.quick() else 60000):
        k = rng.randint(1, 6)
        s = "/".join(rng.choice(parts) for _ in range(k))
        if rng.random() < 0.2:
            s = rng.choice(["/", "./", "../", "//"]) + s
        if rng.random() < 0.2:
            s = s + rng.choice(["/", "/.", "/..", "//"])
        if s not in seen:
            seen.add(s)
            yield s


def run_strings(ctx, only=None):
    from alpenhorn.common.util import invalid_import_path
    drv = common.Driver()
    ss = list(strings(ctx)) if only is None else only
    ops = []
    for s in ss:
        ops.append("iip " + enc(s))
        ops.append("normpath " + enc(s))
    outs = drv.batch(ops)
    div_iip = []
    div_norm = []
    for i, s in enumerate(ss):
        real = invalid_import_path(s)
        real_acc = real is None
        model_acc = outs[2 * i] == "none"
        ctx.case(("s", s), nontrivial=("/" in s or "." in s),
                 sample={"input": s, "real": real, "model": outs[2 * i]} if i % 9973 == 7 else None)
        ctx.count("accepted" if real_acc else "rejected:" + str(real))
        if real_acc != model_acc:
            div_iip.append(s)
        # model validation of normpath (model vs CPython's posixpath)
        if "\x00" not in s:
            mn = dec(outs[2 * i + 1])
            if mn != posixpath.normpath(s):
                div_norm.append((s, mn, posixpath.normpath(s)))
        # oracle on every real execution
        if real_acc:
            bad = oracle_accept_ok(s)
            if bad:
                ctx.violation("iip:" + enc(s)[:60], f"invalid_import_path({s!r}) -> None but {bad}",
                              {"kind": "strings", "input": s, "real_result": real, "oracle": bad})
    if div_norm:
        # the *model* of normpath disagrees with CPython: a modelling error, not a code defect
        ctx.notes.append(f"normpath model diverges from posixpath on {len(div_norm)} strings, e.g. {div_norm[:3]}")
        ctx.corr_broken.append({"stream": "normpath-model-vs-posixpath", "examples": div_norm[:5]})
    if div_iip:
        ctx.corr_broken.append({"stream": "invalid_import_path-vs-model", "examples": div_iip[:10]})
    return div_iip, div_norm


_MON = {"on": False, "events": []}
_HOOKED = [False]


def _install_monitor():
    import os
    import sys
    if _HOOKED[0]:
        return
    _HOOKED[0] = True
    names = {"os.remove": 0, "os.rmdir": 0, "os.mkdir": 0, "os.utime": 0, "os.truncate": 0, "os.chmod": 0}

    def hook(event, args):
        if not _MON["on"]:
            return
        import dharness
        if not dharness.DAEMON_ACTIVE[0]:
            return                  # the harness's own set-up / operator / fault actions
        try:
            if event in names:
                p = os.fspath(args[0])
                _MON["events"].append((event, os.path.realpath(os.path.dirname(p)) + "/" + os.path.basename(p)))
            elif event in ("os.rename", "os.link", "os.symlink"):
                p = os.fspath(args[1])
                _MON["events"].append((event, os.path.realpath(os.path.dirname(p)) + "/" + os.path.basename(p)))
                if event == "os.rename":
                    p0 = os.fspath(args[0])
                    _MON["events"].append(("os.rename-from", os.path.realpath(os.path.dirname(p0)) + "/" + os.path.basename(p0)))
            elif event == "open" and isinstance(args[1], str) and any(ch in args[1] for ch in "wax+"):
                p = os.fspath(args[0]) if not isinstance(args[0], int) else None
                if p:
                    _MON["events"].append(("open-write", os.path.realpath(os.path.dirname(p)) + "/" + os.path.basename(p)))
        except Exception:
            pass
    sys.addaudithook(hook)


def stage_effects(ctx):
    """every mutating file-system call the daemons make during real multi-host histories (audit hook; realpath of the
    containing directory taken at the instant of the call) stays strictly inside a managed node root and never removes a
    root or a marker; a sentinel directory outside all roots stays untouched (covers tool sub-processes)"""
    import os
    import env as envmod
    from props import c07
    import dharness
    _install_monitor()
    rng = ctx.rng
    nh = 30 if ctx.quick() else 1000
    with envmod.Env() as e:
        outside = os.path.join(e.tmp, "outside")
        os.makedirs(outside, exist_ok=True)
        with open(os.path.join(outside, "sentinel.dat"), "wb") as f:
            f.write(b"do not touch")
        # the host's temporary directory, as the daemon sees it, is a directory under observation (outside every node root):
        # scratch files the daemon makes "somewhere in /tmp" are effects outside the roots like any other
        import tempfile
        systmp = os.path.join(e.tmp, "systmp")
        os.makedirs(systmp, exist_ok=True)
        saved_tmp = (tempfile.tempdir, os.environ.get("TMPDIR"))
        tempfile.tempdir = systmp
        os.environ["TMPDIR"] = systmp
        ctx._c06_restore_tmp = saved_tmp
        for i in range(nh):
            def on_step(case, desc):
                pass
            _MON["events"].clear()
            # the monitor is on for the whole history; operator/fault steps of the harness itself write through world.put_bytes
            # (suffix .verifnew / direct marker writes) and are filtered out below
            _MON["on"] = True
            try:
                case, p7, p8, log = c07.run_history(ctx, e, rng, rng.randint(8, 28))
                case.set_tools(rng.choice(["rsync-only", "none", "none", "both"]), "ok")
                dharness.round_all(case)
            finally:
                _MON["on"] = False
                os.environ["PATH"] = "/usr/local/bin:/usr/bin:/bin"
            roots = [os.path.realpath(n.root) for n in case.w.db.StorageNode.select()]
            nev = 0
            for ev, p in _MON["events"]:
                if p.endswith(".verifnew") or ev == "os.rename-from" and p.endswith(".verifnew"):
                    continue
                if "/roots/" not in p and e.tmp not in p:
                    continue                 # interpreter / harness files elsewhere (database, tool control file)
                if p.startswith(os.path.join(e.tmp, "index.db")) or p.endswith("toolctl.json") or p.endswith("lfs_state.json"):
                    continue
                nev += 1
                inside = [r for r in roots if p.startswith(r + "/")]
                if not inside:
                    ctx.violation("effect-outside:" + ev, f"daemon file-system call {ev} on {p}, which is not strictly inside any node root",
                                  {"kind": "effects", "event": ev, "path": p, "history": log})
                elif ev in ("os.remove", "os.rmdir", "os.rename-from") and any(p == r + "/ALPENHORN_NODE" for r in roots):
                    ctx.violation("marker-removed", f"{ev} removed a node marker: {p}", {"kind": "effects", "event": ev, "path": p, "history": log})
            for r in roots:
                if not os.path.isdir(r):
                    ctx.violation("root-removed", f"node root {r} was removed", {"kind": "effects", "history": log})
            if open(os.path.join(outside, "sentinel.dat"), "rb").read() != b"do not touch" or sorted(os.listdir(outside)) != ["sentinel.dat"]:
                ctx.violation("outside-touched", "a file outside all node roots was created or modified", {"kind": "effects", "history": log})
            ctx.count("effects:fs-calls", nev)
            ctx.case(("effects", tuple(log)), nontrivial=nev > 0, sample={"fs_calls": [x for x in _MON["events"] if "/roots/" in x[1]][:12]} if i == 0 else None)
            if os.listdir(systmp):
                ctx.violation("outside-touched:tmp", f"the daemon left {os.listdir(systmp)[:3]} in the host's temporary directory",
                              {"kind": "effects", "history": log})
        tempfile.tempdir = saved_tmp[0]
        if saved_tmp[1] is None:
            os.environ.pop("TMPDIR", None)
        else:
            os.environ["TMPDIR"] = saved_tmp[1]


def stage_effects_pull(ctx):
    """the same judgement for every way a transfer can be carried out, enumerated: source class x tools installed (none ->
    hard link or internal copy; rsync; rsync + bbcp) x file in a sub-directory or not, run by the real daemon under the monitor,
    with the host's temporary directory under observation"""
    import itertools
    import os
    import shutil
    import tempfile
    import env as envmod
    import world as worldmod
    import wharness
    import dharness
    _install_monitor()
    with envmod.Env() as e:
        systmp = os.path.join(e.tmp, "systmp")
        os.makedirs(systmp, exist_ok=True)
        saved_tmp = (tempfile.tempdir, os.environ.get("TMPDIR"))
        tempfile.tempdir = systmp
        os.environ["TMPDIR"] = systmp
        try:
            for stype, tools, fname in itertools.product(["A", "F"], ["none", "rsync-only", "both"], ["f.dat", "sub/dir/f.dat"]):
                w = worldmod.World(e)
                db = w.db
                for m in (db.StorageTransferAction, db.ArchiveFileCopyRequest, db.ArchiveFileImportRequest, db.ArchiveFileCopy,
                          db.ArchiveFile, db.ArchiveAcq, db.StorageNode, db.StorageGroup):
                    m.delete().execute()
                shutil.rmtree(os.path.join(e.tmp, "roots"), ignore_errors=True)
                g1, g2 = w.group("g1"), w.group("g2")
                src = w.node("src", g1, stype=stype)
                dst = w.node("dst", g2, stype="A")
                f = w.file(w.acq("acq"), fname, b"payload " * 50)
                w.copy(f, src, has="Y")
                w.req(f, src, g2)
                os.environ["PATH"] = os.path.join(wharness.FAKE, tools)
                _MON["events"].clear()
                _MON["on"] = True
                dharness.DAEMON_ACTIVE[0] = True
                try:
                    d = worldmod.Daemon(e, "h1")
                    for _ in range(2):
                        d.iterate()
                        d.drain()
                finally:
                    dharness.DAEMON_ACTIVE[0] = False
                    _MON["on"] = False
                    os.environ["PATH"] = "/usr/local/bin:/usr/bin:/bin"
                roots = [os.path.realpath(n.root) for n in db.StorageNode.select()]
                done = bool(db.ArchiveFileCopyRequest.get().completed)
                nev = 0
                for ev, p in _MON["events"]:
                    if e.tmp not in p or p.startswith(os.path.join(e.tmp, "index.db")) or p.endswith("toolctl.json"):
                        continue
                    nev += 1
                    if not [r for r in roots if p.startswith(r + "/")]:
                        ctx.violation("effect-outside:" + ev, f"daemon file-system call {ev} on {p}, which is not strictly inside any node "
                                      f"root (transfer from a class-{stype} node, tools installed: {tools}, file {fname})",
                                      {"kind": "effects-pull", "event": ev, "path": p, "tools": tools, "source_class": stype})
                if os.listdir(systmp):
                    ctx.violation("outside-touched:tmp", f"the transfer left {os.listdir(systmp)[:3]} in the host's temporary directory",
                                  {"kind": "effects-pull", "tools": tools, "source_class": stype})
                ctx.count(f"effects-pull:{stype}:{tools}:{'completed' if done else 'pending'}")
                ctx.case(("effects-pull", stype, tools, fname), nontrivial=nev > 0,
                         sample={"source class": stype, "tools": tools, "fs_calls": [x for x in _MON["events"] if e.tmp in x[1]][:10]}
                         if (stype, tools, fname) == ("F", "none", "sub/dir/f.dat") else None)
        finally:
            tempfile.tempdir = saved_tmp[0]
            if saved_tmp[1] is None:
                os.environ.pop("TMPDIR", None)
            else:
                os.environ["TMPDIR"] = saved_tmp[1]


def stage_cli_names(ctx):
    """every route by which the CLI stores an acquisition or file name: `acq create NAME`, `file create NAME ACQ --md5 --size`,
    `file create NAME ACQ --from-file [--prefix P]` (with a regular file really there), for canonical and non-canonical
    spellings; whatever ends up in the index must be a canonical relative path (the property's acceptance clause)"""
    import os
    import env as envmod
    names = ["x.dat", "a/b.dat", "a.b/c..d", "../x.dat", "./x.dat", "a//b.dat", "a/../b.dat", "/abs/x.dat", "x.dat/", ".", "..", "a/./b.dat",
             "a/..", "a/b/", "../../escaped.dat", "a/../../up.dat", "//x.dat", "a/.", " ", "a/ /b"]
    with envmod.CliEnv() as e:
        from alpenhorn import db
        prefix = os.path.join(e.tmp, "prefix")
        for name in names:
            routes = [("acq create", ["acq", "create", name]),
                      ("file create --md5 --size", ["file", "create", name, "ACQ0", "--md5", "0" * 32, "--size", "3"]),
                      ("file create --from-file --prefix", ["file", "create", name, "ACQ0", "--from-file", "--prefix", prefix]),
                      ("file create --from-file (cwd)", ["file", "create", name, "ACQ0", "--from-file"])]
            for label, argv in routes:
                for m in (db.ArchiveFileCopyRequest, db.ArchiveFileImportRequest, db.ArchiveFileCopy, db.ArchiveFile, db.ArchiveAcq):
                    m.delete().execute()
                db.ArchiveAcq.create(name="ACQ0")
                cwd = os.getcwd()
                if "--from-file" in argv:
                    base = prefix if "--prefix" in argv else os.path.join(e.tmp, "cwd")
                    target = os.path.normpath(os.path.join(base, "ACQ0", name)) if not name.startswith("/") else None
                    try:
                        if target and target.startswith(e.tmp) and not os.path.isdir(target):
                            os.makedirs(os.path.dirname(target), exist_ok=True)
                            with open(target, "wb") as fh:
                                fh.write(b"abc")
                    except OSError:
                        pass
                    os.makedirs(os.path.join(e.tmp, "cwd"), exist_ok=True)
                    os.chdir(os.path.join(e.tmp, "cwd"))
                try:
                    rc, out, exc = e.cli(argv)
                finally:
                    os.chdir(cwd)
                stored = [("acquisition", a.name) for a in db.ArchiveAcq.select() if a.name != "ACQ0"] + \
                         [("file", f.name) for f in db.ArchiveFile.select()]
                ctx.case(("cli-name", label, name), nontrivial=True)
                ctx.count(f"cli-names:{label}:{'canonical' if oracle_canonical(name) else 'odd'}:{'stored' if stored else 'refused'}")
                for what, nm in stored:
                    if not oracle_canonical(nm):
                        ctx.violation("cli-name:" + label.replace(" ", "_"), f"`alpenhorn {' '.join(argv)}` stored the {what} name {nm!r}, which is "
                                      f"not a canonical relative path (exit code {rc})", {"kind": "cli-name", "argv": argv, "stored": nm})


def run(ctx):
    ok = common.proof_stage(ctx, MODULE)
    div_iip, div_norm = run_strings(ctx)
    stage_cli_names(ctx)
    stage_effects(ctx)
    stage_effects_pull(ctx)
    # the names a recursive import (scan) request stores, for canonical, dotted and escaping spellings of the directory
    import env as envmod
    from props import c04
    with envmod.Env() as e_scan:
        c04.stage_scan(ctx, e_scan)
    ctx.coverage["exhaustive"] = True
    ctx.coverage["rule"] = ("all strings over {/,.,a} to length %d and over {/,.,a,space,\\n} to length %d, plus random "
                            "component-joined strings; non-trivial = contains '/' or '.'; every string goes through the real "
                            "invalid_import_path, the Lean model, and the property-text oracle" % ((9, 5) if ctx.quick() else (11, 6)))
    finish_search(ctx, ok)


def finish_search(ctx, proof_ok):
    """A broken proof obligation or correspondence is a violation even when the search (which ran the oracle on
    every case above) found no concrete failing input."""
    concrete = [v for v in ctx.violations if v[3]]
    if (not proof_ok or ctx.corr_broken) and not concrete:
        what = "; ".join(ctx.proof_broken) if ctx.proof_broken else "correspondence broken"
        ctx.violation("unproved", what,
                      {"kind": "no-failing-input-found", "proof_broken": ctx.proof_broken,
                       "correspondence_broken": ctx.corr_broken,
                       "build_log_tail": getattr(ctx, "build_log", "")[-4000:]}, concrete=False)


def replay(ctx, path):
    r = json.load(open(path))
    if r.get("kind") == "strings":
        from alpenhorn.common.util import invalid_import_path
        s = r["input"]
        res = invalid_import_path(s)
        bad = oracle_accept_ok(s) if res is None else None
        print(f"invalid_import_path({s!r}) = {res!r}; oracle: {bad}")
        return 1 if bad else 0
    import sys
    return common.replay_by_rerun(ctx, path, sys.modules[__name__])
