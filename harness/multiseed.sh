#!/bin/sh
# usage: multiseed.sh "<props>" "<seeds>"   -- runs quick checks for several seeds, prints one line per run
cd /verif
for s in $2; do for p in $1; do
  r=$(VERIF_SEED=$s timeout 1800 ./check $p --tier quick 2>&1 | grep -E "^VIOLATION|quick:|INFRA" | cut -c1-220 | tr '\n' '|')
  echo "seed=$s $r"
done; done
