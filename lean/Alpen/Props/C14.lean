import Alpen.Generated
import Alpen.Model.Reserve
import Alpen.Lemmas.Reserve
import Alpen.Lemmas.Transport
/-!
# C14 — space reservations are balanced and never over-committed

"Space reserved for an incoming transfer is released exactly once when that transfer task
ends by any path (success, failure, cancellation, early exit or database error), so the
reserved total returns to zero whenever no transfer is queued or running and never goes
negative. A transfer is started only if twice its size fits in the (file-system-backed)
node's free space net of existing reservations and the node is neither below its minimum
free space nor at its size limit."

`reserve`/`release` are single critical sections on one mutex, so concurrent histories are
sequences of events.  Task ids in `dispatch` events are unique (`FreshIds`).
-/
namespace Alpen

/-- the reservation factor read from the source is the "twice" of the property -/
theorem C14_factor_is_two : Gen.reserveFactor = 2 := by
  rfl

/-- dispatch events carry fresh task ids -/
def FreshIds : List REvent → List Nat → Prop
  | [], _ => True
  | .dispatch t _ _ _ _ :: es, seen => t ∉ seen ∧ FreshIds es (t :: seen)
  | .finish _ _ :: es, seen => FreshIds es seen

def rrun (factor : Nat) (s : RState) (es : List REvent) : RState := es.foldl (rstep factor) s

/-- **C14.1 (balance)** after every history of dispatches and task ends (by any path), the
    reserved total equals factor × the sizes of the pull tasks still queued or running; hence
    it is never negative, no release ever raises, and it is zero when no transfer is live. -/
theorem C14_reserve_balance (factor : Nat) (es : List REvent) (h : FreshIds es []) :
    let s := rrun factor RState.init es
    s.reserved = liveTotal factor s.live ∧ 0 ≤ s.reserved ∧ s.error = false ∧
    (s.live = [] → s.reserved = 0) := by
  have key : ∀ (es : List REvent) (s : RState) (seen : List Nat), RInv factor s seen → FreshIds es seen →
      ∃ seen', RInv factor (rrun factor s es) seen' := by
    intro es
    induction es with
    | nil => intro s seen hI _; exact ⟨seen, hI⟩
    | cons e es ih =>
      intro s seen hI hF
      cases e with
      | dispatch t size um om bavail =>
        exact ih _ _ (hI.dispatch t size um om bavail hF.1) hF.2
      | finish t how =>
        exact ih _ _ (hI.finish t how) hF
  obtain ⟨seen', hI⟩ := key es RState.init [] (RInv.init factor) h
  have hnn := liveTotal_nonneg factor (rrun factor RState.init es).live
  refine ⟨hI.bal, ?_, hI.noerr, ?_⟩
  · rw [hI.bal]; exact hnn
  · intro hl
    rw [hI.bal, hl, liveTotal_nil]

/-- **C14.2 (admission)** a pull task is created only if the node is not under its minimum,
    not at its size limit, and factor × size fits in free space net of reservations. -/
theorem C14_pull_admission (factor : Nat) (um om : Bool) (bavail : Option Int) (reserved : Int) (size : Nat)
    (h : (pullAdmit factor um om bavail reserved size).1 = true) :
    um = false ∧ om = false ∧ (∀ b, bavail = some b → (size * factor : Nat) ≤ b - reserved) ∧
    (pullAdmit factor um om bavail reserved size).2 = reserved + (size * factor : Nat) := by
  exact pullAdmit_ok factor um om bavail reserved size h

/-- a refused pull leaves the reservation untouched -/
theorem C14_refused_unchanged (factor : Nat) (um om : Bool) (bavail : Option Int) (reserved : Int) (size : Nat)
    (h : (pullAdmit factor um om bavail reserved size).1 = false) :
    (pullAdmit factor um om bavail reserved size).2 = reserved := by
  unfold pullAdmit reserveBytes at *
  cases um <;> cases om <;> simp at h ⊢
  cases bavail with
  | none => simp at h
  | some b =>
    simp only [] at h ⊢
    split <;> simp_all

/-- `fits` (check-only reservation) never changes the total -/
theorem C14_check_only (factor : Nat) (bavail : Option Int) (reserved : Int) (size : Nat) :
    (reserveBytes factor bavail reserved size true).2 = reserved := by
  unfold reserveBytes
  cases bavail with
  | none => simp
  | some b => simp only []; split <;> simp

/-- the pinned code leaks the reservation on the "already present" exit (finding F2):
    one dispatch and one finish leave a positive total with no live transfer. -/
theorem C14_legacy_leak :
    ∃ es, FreshIds es [] ∧
      let s := es.foldl (rstepLegacy 2) RState.init
      s.live = [] ∧ s.reserved > 0 := by
  refine ⟨[.dispatch 1 5 false false (some 100), .finish 1 .alreadyPresent], ?_, ?_⟩
  · simp [FreshIds]
  · decide

/-- **Transport groups**: asking every node of the group whether the file fits reserves nothing; the node the request
    is handed to admits the pull and reserves exactly factor × size, every other node of the group is left as it was; and
    when no node is chosen nothing changes at all.  (Node ids are distinct.) -/
theorem C14_transport_dispatch (factor size : Nat) (srcLocal : Bool) (nodes : List TGNode)
    (hd : (nodes.map (·.id)).Nodup) :
    (∀ i, (tgDispatch factor size srcLocal nodes).1 = some i →
        (tgDispatch factor size srcLocal nodes).2.1 = true ∧
        ∃ n ∈ nodes, n.id = i ∧ n.underMin = false ∧ n.overMax = false ∧
          (∀ b, n.bavail = some b → (size * factor : Nat) ≤ b - n.reserved) ∧
          (tgDispatch factor size srcLocal nodes).2.2 =
            nodes.map (fun m => if m.id == i then { m with reserved := m.reserved + (size * factor : Nat) } else m)) ∧
    ((tgDispatch factor size srcLocal nodes).1 = none → (tgDispatch factor size srcLocal nodes).2 = (false, nodes)) := by
  constructor
  · intro i h
    unfold tgDispatch at h ⊢
    cases hp : transportPick srcLocal (nodes.map (TGNode.view factor size)) with
    | none => simp [hp] at h
    | some j =>
      simp only [hp] at h ⊢
      have hji : i = j := by simpa using h.symm
      subst hji
      obtain ⟨_, v, hv, hid, hel, _⟩ := (C05_transport_pick_sound srcLocal _ i hp)
      obtain ⟨n, hn, rfl⟩ := List.mem_map.mp hv
      have hum : n.underMin = false := by
        unfold TNode.eligible TGNode.view at hel; cases h1 : n.underMin <;> simp_all
      have hom : n.overMax = false := by
        unfold TNode.eligible TGNode.view at hel; cases h1 : n.overMax <;> simp_all
      have hfit : (reserveBytes factor n.bavail n.reserved size true).1 = true := by
        unfold TNode.eligible TGNode.view at hel; simp_all
      have hadm : (pullAdmit factor n.underMin n.overMax n.bavail n.reserved size).1 = true := by
        unfold pullAdmit; rw [hum, hom]; simp only [Bool.false_eq_true, if_false]
        unfold reserveBytes at hfit ⊢
        cases hb : n.bavail with
        | none => simp
        | some b => simp only [hb] at hfit ⊢; split <;> simp_all
      have hspec := pullAdmit_ok factor n.underMin n.overMax n.bavail n.reserved size hadm
      have hidn : n.id = i := by simpa [TGNode.view] using hid
      refine ⟨?_, n, hn, hidn, hum, hom, hspec.2.2.1, ?_⟩
      · apply List.any_eq_true.mpr
        exact ⟨n, hn, by simp [hidn, TGNode.pull, hadm]⟩
      · apply List.map_congr_left
        intro m hm
        by_cases hmj : m.id = i
        · have : m = n := by
            have := eq_of_nodup_map (·.id) nodes hd m n hm hn (by rw [hmj, hidn])
            exact this
          subst this
          simp [hmj, TGNode.pull, hspec.2.2.2]
        · simp [hmj]
  · intro h
    unfold tgDispatch at h ⊢
    cases hp : transportPick srcLocal (nodes.map (TGNode.view factor size)) with
    | none => rfl
    | some j => simp [hp] at h

example : tgDispatch 2 10 true [⟨1, some 500, false, false, some 100, 0⟩, ⟨2, some 100, false, false, some 30, 15⟩,
    ⟨3, some 300, false, false, some 100, 4⟩] =
    (some 3, true, [⟨1, some 500, false, false, some 100, 0⟩, ⟨2, some 100, false, false, some 30, 15⟩,
      ⟨3, some 300, false, false, some 100, 24⟩]) := by decide

-- non-vacuity
example : (rrun 2 RState.init [.dispatch 1 5 false false (some 100), .dispatch 2 7 false false (some 100),
    .finish 1 .alreadyPresent]).reserved = 14 := by decide

end Alpen
