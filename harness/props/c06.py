"""C06 — path confinement.  Part 1: strings (invalid_import_path / normpath)."""
import itertools
import json
import posixpath

import common
from common import enc, dec

MODULE = "Alpen.Props.C06"


def oracle_canonical(s: str) -> bool:
    """The property text: non-empty, no leading or trailing slash, no empty, '.' or '..' component."""
    if s == "":
        return False
    return all(c not in ("", ".", "..") for c in s.split("/"))


def oracle_accept_ok(s: str):
    """Property clauses about an *accepted* name. Returns None or a description of what fails."""
    if not oracle_canonical(s):
        return "accepted name is not a canonical relative path"
    if posixpath.normpath(s) != s:
        return "accepted name differs from its normalised form"
    root = "/data/node1"
    full = posixpath.normpath(posixpath.join(root, s))
    if not full.startswith(root + "/"):
        return "accepted name resolves to the node root or outside it"
    return None


def strings(ctx):
    seen = set()
    def emit(alpha, n):
        for L in range(0, n + 1):
            for t in itertools.product(alpha, repeat=L):
                s = "".join(t)
                if s not in seen:
                    seen.add(s)
                    yield s
    if ctx.quick():
        yield from emit("/.a", 9)
        yield from emit("/.a \n", 5)
    else:
        yield from emit("/.a", 11)
        yield from emit("/.a \n", 6)
        yield from emit("/.a\\\x00é", 5)
    # random longer strings
    rng = ctx.rng
    parts = ["", ".", "..", "a", "b.c", ".hid", "...", " ", "a b", "x" * 40, "é", "..a", "a..", ". "]
    for _ in range(4000 if ctx.quick() else 60000):
        k = rng.randint(1, 6)
        s = "/".join(rng.choice(parts) for _ in range(k))
        if rng.random() < 0.2:
            s = rng.choice(["/", "./", "../", "//"]) + s
        if rng.random() < 0.2:
            s = s + rng.choice(["/", "/.", "/..", "//"])
        if s not in seen:
            seen.add(s)
            yield s


def run_strings(ctx, only=None):
    from alpenhorn.common.util import invalid_import_path
    drv = common.Driver()
    ss = list(strings(ctx)) if only is None else only
    ops = []
    for s in ss:
        ops.append("iip " + enc(s))
        ops.append("normpath " + enc(s))
    outs = drv.batch(ops)
    div_iip = []
    div_norm = []
    for i, s in enumerate(ss):
        real = invalid_import_path(s)
        real_acc = real is None
        model_acc = outs[2 * i] == "none"
        ctx.case(("s", s), nontrivial=("/" in s or "." in s),
                 sample={"input": s, "real": real, "model": outs[2 * i]} if i % 9973 == 7 else None)
        ctx.count("accepted" if real_acc else "rejected:" + str(real))
        if real_acc != model_acc:
            div_iip.append(s)
        # model validation of normpath (model vs CPython's posixpath)
        if "\x00" not in s:
            mn = dec(outs[2 * i + 1])
            if mn != posixpath.normpath(s):
                div_norm.append((s, mn, posixpath.normpath(s)))
        # oracle on every real execution
        if real_acc:
            bad = oracle_accept_ok(s)
            if bad:
                ctx.violation("iip:" + enc(s)[:60], f"invalid_import_path({s!r}) -> None but {bad}",
                              {"kind": "strings", "input": s, "real_result": real, "oracle": bad})
    if div_norm:
        # the *model* of normpath disagrees with CPython: a modelling error, not a code defect
        ctx.notes.append(f"normpath model diverges from posixpath on {len(div_norm)} strings, e.g. {div_norm[:3]}")
        ctx.corr_broken.append({"stream": "normpath-model-vs-posixpath", "examples": div_norm[:5]})
    if div_iip:
        ctx.corr_broken.append({"stream": "invalid_import_path-vs-model", "examples": div_iip[:10]})
    return div_iip, div_norm


def run(ctx):
    ok = common.proof_stage(ctx, MODULE)
    div_iip, div_norm = run_strings(ctx)
    ctx.coverage["exhaustive"] = True
    ctx.coverage["rule"] = ("all strings over {/,.,a} to length %d and over {/,.,a,space,\\n} to length %d, plus random "
                            "component-joined strings; non-trivial = contains '/' or '.'; every string goes through the real "
                            "invalid_import_path, the Lean model, and the property-text oracle" % ((9, 5) if ctx.quick() else (11, 6)))
    finish_search(ctx, ok)


def finish_search(ctx, proof_ok):
    """A broken proof obligation or correspondence is a violation even when the search (which ran the oracle on
    every case above) found no concrete failing input."""
    concrete = [v for v in ctx.violations if v[3]]
    if (not proof_ok or ctx.corr_broken) and not concrete and not ctx.known_hits:
        what = "; ".join(ctx.proof_broken) if ctx.proof_broken else "correspondence broken"
        ctx.violation("unproved", what,
                      {"kind": "no-failing-input-found", "proof_broken": ctx.proof_broken,
                       "correspondence_broken": ctx.corr_broken,
                       "build_log_tail": getattr(ctx, "build_log", "")[-4000:]}, concrete=False)


def replay(ctx, path):
    r = json.load(open(path))
    if r.get("kind") == "strings":
        from alpenhorn.common.util import invalid_import_path
        s = r["input"]
        res = invalid_import_path(s)
        bad = oracle_accept_ok(s) if res is None else None
        print(f"invalid_import_path({s!r}) = {res!r}; oracle: {bad}")
        return 1 if bad else 0
    print(json.dumps(r, indent=1)[:3000])
    return 1
