#!/bin/sh
# usage: seedtest.sh <seed dir> <property> [more properties]   -- applies the seeded patch to /repo, runs the checks, reverts
d=$1; shift
cd /repo || exit 2
git diff --quiet || { echo "repo dirty"; exit 2; }
git apply "$d/patch.diff" || { echo "patch does not apply"; exit 2; }
for p in "$@"; do
  (cd /verif && timeout 1500 ./check $p --tier quick 2>&1 | grep -E "^VIOLATION|^KNOWN|quick:" | cut -c1-300 | head -5)
done
git checkout -- . 
/venv/bin/python /verif/harness/extract.py >/dev/null
git status --short | head -3
