"""C01 — deletion safety: real update_delete + per-copy delete steps interleaved with other steps vs the Lean World model."""
import json
import os

import common
import env as envmod
import wharness

MODULE = "Alpen.Props.C01"
WEIGHTS = {"select_delete": 3, "delete": 5, "check": 1.5, "decide": 0.7, "search": 0.7, "pull": 1.5, "op": 3, "fault": 0.6, "stale": 1.0}
SEARCH_WEIGHTS = {"select_delete": 4, "delete": 5, "stale": 4, "op": 2, "check": 0.5, "pull": 1}


def run_histories(ctx, weights, ncases, nsteps, stream, space_pressure=True):
    drv = common.Driver()
    rng = ctx.rng
    results = []
    with envmod.Env() as e:
        all_lines, spans, all_exp = [], [], []
        for ci in range(ncases):
            case = wharness.Case(e, rng)
            db = case.w.db
            if space_pressure:
                for n in case.nodes:
                    if rng.random() < 0.5:
                        av, mn = rng.choice([(0, 4), (1, 2), (10, 5), (3, 3), (None, 5)])
                        db.StorageNode.update(avail_gb=None if av is None else av / 2 ** 20, min_avail_gb=mn / 2 ** 20).where(
                            db.StorageNode.id == n.id).execute()
                case.nodes = [db.StorageNode.get(id=n.id) for n in case.nodes]
            try:
                h = wharness.random_history(case, rng.randint(3, nsteps), weights)
            except Exception as ex:   # a crash of real code inside a step is reported, not hidden
                import traceback
                ctx.notes.append("real code raised: " + traceback.format_exc(limit=4)[-600:])
                ctx.count("history:raised")
                continue
            spans.append((len(all_lines), len(all_lines) + len(h["lines"])))
            all_lines += h["lines"]
            all_exp += h["exp"]
            results.append(h)
        outs = drv.batch(all_lines)
        for h, (a, b) in zip(results, spans):
            L, X, O = all_lines[a:b], all_exp[a:b], outs[a:b]
            div = None
            for i, (l, x, o) in enumerate(zip(L, X, O)):
                if x is not None and x != o:
                    div = dict(op=L[i - 1] if l == "w.dump" else l, model_effects=O[i - 1] if l == "w.dump" else None,
                               real=x[:600], model=o[:600], history=[s for s in L[:i + 1] if s.startswith("w.op") or s.startswith("w.q")][-8:])
                    break
            h["divergence"] = div
            for s in h["steps"]:
                ctx.count("step:" + s["kind"] + (":unlinked" if s.get("unlinked") else "") +
                          (":" + s["transfer"] if s.get("transfer") else ""))
            nunl = sum(1 for s in h["steps"] if s.get("unlinked"))
            ctx.case(tuple(L), nontrivial=len(h["steps"]) >= 2,
                     sample={"setup": [l for l in L if not l.startswith("w.op") and l != "w.dump"][:14],
                             "ops": [l for l in L if l.startswith("w.op") or l.startswith("w.q")]} if nunl and len(ctx.samples) < 3 else None)
            if div and len(ctx.corr_broken) < 5:
                ctx.corr_broken.append(dict(stream=stream, **div))
            elif div:
                ctx.corr_broken.append(dict(stream=stream)) if len(ctx.corr_broken) < 6 else None
    return results


def run(ctx):
    ok = common.proof_stage(ctx, MODULE)
    n = 160 if ctx.quick() else 4000
    results = run_histories(ctx, WEIGHTS, n, 12, "daemon-steps-vs-World(C01)")
    for h in results:
        for (cls, msg, d) in h["problems"]:
            if cls in ("unlink", "select", "healthy-touched", "root"):
                ctx.violation(f"{cls}:{msg[:40]}", msg, {"kind": "history", "ops": [l for l in h["lines"] if l.startswith("w.")], "step": d})
    ctx.coverage["rule"] = ("random two-host worlds (2-4 single-node groups, node types A/T/F, 1-3 files incl. nested names, copies in all has/"
                            "wants states with matching, corrupt or missing bytes, unregistered files, requests, rules, space pressure) and "
                            "random histories of: the real update_delete (selection), real delete_async one copy at a time, real check, "
                            "update_pull, pre-pull search, pull_async with scripted transports, operator state changes, external faults; "
                            "after every step the real index + storage are compared with the Lean World model and oracles judge every "
                            "unlink (fresh count of healthy archive copies elsewhere), every selection and every healthy copy's bytes. "
                            "distinct = whole op line sequence; non-trivial = at least 2 steps")
    for p_, lg in corpus_busy_group(ctx):
        ctx.violation("overlap:second-transfer-while-first-in-flight", p_, {"kind": "busy-group", "steps": lg})
    # dispatch stage (C01_no_overlapping_dispatch): the tasks one real update pass queues vs `iterateOps`, on worlds with
    # duplicate requests; oracle: never two transfers of one file into one group in one pass
    from props import c07
    with envmod.Env() as e:
        c07.compare_iterate(ctx, e, ctx.rng, 120 if ctx.quick() else 3000)
    if (not ok or ctx.corr_broken) and not [v for v in ctx.violations if v[3]]:
        # a proof obligation or the correspondence broke: directed search for a concrete failing history
        ctx.notes.append("directed search started (proof/correspondence broken)")
        more = run_histories(ctx, SEARCH_WEIGHTS, 700 if ctx.quick() else 6000, 14, "directed-search(C01)")
        for h in more:
            for (cls, msg, d) in h["problems"]:
                if cls in ("unlink", "select", "healthy-touched", "root"):
                    ctx.violation(f"{cls}:{msg[:40]}", msg, {"kind": "history", "ops": [l for l in h["lines"] if l.startswith("w.")], "step": d})
    from props.c06 import finish_search
    finish_search(ctx, ok)


def corpus_busy_group(ctx):
    """state kept across passes: a transfer into a group is still queued / running on one of the group's nodes when the next
    update pass runs.  Groups with one node (Default) and with 2-3 nodes (Transport: the other nodes are idle); the first
    transfer is left at each of its stages (search queued, search done and pull queued).  Oracle: while a transfer of a file
    into a group is in flight no second transfer of that file into that group is queued - two of them would write the same
    destination path, and the loser's clean-up unlinks what the winner recorded as healthy."""
    import itertools
    import re
    import shutil
    import world as worldmod
    probs = []
    with envmod.Env() as e:
        lines, reals, metas = [], [], []
        for nn, stage, extra_req in itertools.product([1, 2, 3], ["search-queued", "pull-queued", "finished"], [False, True]):
            w = worldmod.World(e)
            db = w.db
            for m in (db.StorageTransferAction, db.ArchiveFileCopyRequest, db.ArchiveFileImportRequest, db.ArchiveFileCopy,
                      db.ArchiveFile, db.ArchiveAcq, db.StorageNode, db.StorageGroup):
                m.delete().execute()
            shutil.rmtree(os.path.join(e.tmp, "roots"), ignore_errors=True)
            gs = w.group("gs")
            gt = w.group("gt", io_class="Transport" if nn > 1 else None)
            src = w.node("src", gs, stype="F")
            src2 = w.node("src2", w.group("gs2"), stype="F")
            ts = [w.node(f"t{i}", gt, stype="T" if nn > 1 else "A") for i in range(nn)]
            f = w.file(w.acq("acq"), "f.dat", b"payload")
            w.copy(f, src, has="Y")
            w.copy(f, src2, has="Y")
            w.req(f, src, gt)
            os.environ["PATH"] = os.path.join(wharness.FAKE, "none")
            log = [f"destination group with {nn} node(s); first transfer left at: {stage}; second request from another source: {extra_req}"]
            try:
                d = worldmod.Daemon(e, "h1")
                d.iterate()
                log.append(f"pass 1 queued {[t[1] for t in d.pending()]}")
                if stage == "pull-queued":
                    for _ in range(8):          # workers run what is queued until the search has handed the transfer to a node
                        if any(re.match(r"AFCR#\d+:", t[1]) for t in d.pending()):
                            break
                        r = d.run_task()
                        log.append(f"ran {r[1] if r else None}; queued now {[t[1] for t in d.pending()]}")
                if stage == "finished":
                    d.drain()
                    log.append("the workers finished everything that was queued")
                if extra_req:
                    w.req(f, src2, gt)
                # what the pass is about to see of the group's queues, for the Lean rule `dispatchPass`
                gf = d.queue.fifo_size("g:gt")
                nfs = [d.queue.fifo_size(f"n:t{i}") for i in range(nn)]
                RQ_ = db.ArchiveFileCopyRequest
                npend = RQ_.select().where(RQ_.completed == 0, RQ_.cancelled == 0).count()
                before_search = sum(1 for t in d.pending() if t[1].startswith("Pre-pull search for acq/f.dat"))
                d.iterate()
                pend = [t[1] for t in d.pending()]
                dispatched = sum(1 for x in pend if x.startswith("Pre-pull search for acq/f.dat")) - before_search
                # "processed" = the pass looked at the group's requests: it queued a search, or it settled a request on the spot
                # (cancelled as already present)
                if RQ_.select().where(RQ_.completed == 0, RQ_.cancelled == 0).count() < npend:
                    dispatched = max(dispatched, 1)
                lines.append(f"gbusy {gf} {','.join(map(str, nfs))} {'1' if npend else '-'}")
                reals.append("1" if dispatched > 0 else "-")
                metas.append((nn, stage, extra_req))
                log.append(f"pass 2; queued now {pend}")
            finally:
                os.environ["PATH"] = "/usr/local/bin:/usr/bin:/bin"
                # finish what is queued so that nothing leaks into the next scenario
                try:
                    d.drain()
                except Exception:
                    pass
            transfers = [x for x in pend if x.startswith("Pre-pull search for acq/f.dat") or re.match(r"AFCR#\d+:", x)]
            ctx.case(("busy-group", nn, stage, extra_req), nontrivial=True, sample={"scenario": log} if (nn, stage, extra_req) == (2, "pull-queued", False) else None)
            ctx.count(f"busy-group:nodes={nn}:{'one' if len(transfers) == 1 else len(transfers)}-in-flight")
            if len(transfers) > 1:
                probs.append((f"with a transfer of acq/f.dat into group gt still in flight ({stage}) the next update pass queued another one: "
                              f"{transfers} ({nn} node(s) in the group)", log))
        outs = common.Driver().batch(lines)
        for l, r, o, m in zip(lines, reals, outs, metas):
            ctx.count(f"busy-group:model:{'dispatch' if o != '-' else 'busy'}")
            if (o != "-") != (r != "-") and len(ctx.corr_broken) < 6:
                ctx.corr_broken.append({"stream": "group-update-vs-dispatchPass", "scenario": list(m), "op": l, "real_dispatched": r, "model": o})
    return probs


def replay(ctx, path):
    import sys
    return common.replay_by_rerun(ctx, path, sys.modules[__name__])
