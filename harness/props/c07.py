"""C07 / C08 share this history runner: several real daemons on one index, stepped pass by pass and task by task."""
import json
import os
import random
import re

import common
import dharness
import env as envmod
import wharness
import world as worldmod

MODULE = "Alpen.Props.C07"


def operator_op(case, rng):
    """an operator command or an environment change between daemon steps; returns a short description"""
    db = case.w.db
    r = rng.random()
    nodes = list(db.StorageNode.select())
    if getattr(case, "multi", False) and rng.random() < (0.3 if getattr(case, "churn", False) else 0.08):
        r = 0.16       # -> disk swap
    if getattr(case, "reroot", False) and 0.9 <= r < 0.935:
        cands = [x for x in nodes if x.io_class is None]
        if cands:
            return case.reroot_node(rng.choice(cands), rng.choice(["missing", "other", "other-node", "ok"]), rng)
    if r < 0.15:
        n = rng.choice(nodes)
        db.StorageNode.update(active=not n.active).where(db.StorageNode.id == n.id).execute()
        return f"node {n.name} active -> {not n.active}"
    if r < 0.17 and getattr(case, "multi", False):
        # a disk swap: the active node(s) of a group on one host are deactivated and one - or, wrongly, two - of its spare
        # nodes on that host are activated
        cands = []
        for g in case.groups:
            for h in ("h1", "h2"):
                mem = [x for x in nodes if x.group_id == g.id and x.host == h]
                spare = [x for x in mem if not x.active]
                if spare and len(mem) > len(spare):
                    cands.append((g, h, mem, spare))
        if cands:
            g, h, mem, spare = rng.choice(cands)
            k = min(len(spare), rng.choice([1, 1, 2]))
            on = rng.sample(spare, k)
            for x in mem:
                db.StorageNode.update(active=(x in on)).where(db.StorageNode.id == x.id).execute()
            return f"disk swap in group {g.name} on {h}: now active {[x.name for x in on]}"
    if r < 0.19 and getattr(case, "multi", False):
        # a group's disks are swapped: activation of all its nodes re-drawn
        g = rng.choice(case.groups)
        members = [x for x in nodes if x.group_id == g.id]
        flags = [rng.random() < 0.5 for _ in members]
        for x, fl in zip(members, flags):
            db.StorageNode.update(active=fl).where(db.StorageNode.id == x.id).execute()
        return f"group {g.name} reshuffled: " + ",".join(f"{x.name}={'on' if fl else 'off'}" for x, fl in zip(members, flags))
    if r < 0.25:
        n = rng.choice(nodes)
        h = rng.choice(["h1", "h2"])
        db.StorageNode.update(host=h).where(db.StorageNode.id == n.id).execute()
        return f"node {n.name} host -> {h}"
    if getattr(case, "hsm", False) and rng.random() < 0.25:
        st = case.lfs_load()
        k = rng.random()
        if k < 0.4:
            n_ = case.hsm_progress()
            return f"tape system: {n_} restore(s) completed"
        if k < 0.6:
            st["fail"] = {rng.choice(["hsm_state", "hsm_restore", "hsm_action"]): rng.randint(1, 2)}
            case.lfs_save(st)
            return f"lfs fault armed: {st['fail']}"
        res = [p_ for p_, v in st["paths"].items() if v == "restored"]
        if res:
            p_ = rng.choice(res)
            st["paths"][p_] = "released"        # released by the site's own policy engine, behind alpenhorn's back
            case.lfs_save(st)
            return f"tape system: {os.path.basename(p_)} released from disk"
    if r < 0.37:
        n = rng.choice([x for x in nodes if x.io_class != "LustreHSM"] or nodes)
        p = os.path.join(n.root, "ALPENHORN_NODE")
        st = rng.choice(["ok", "missing", "other", "other"])
        if st == "missing":
            if os.path.exists(p):
                os.remove(p)
        else:
            # "other": the marker of another node - an unrelated name, or one that merely contains / extends this node's name
            # (disk10 mounted in the slot of disk1)
            other = rng.choice(["someone-else", n.name + "0", "x" + n.name, n.name + " ", n.name.upper()])
            with open(p, "w") as f:
                f.write((n.name if st == "ok" else other) + "\n")
        case.marker_state[n.id] = st
        return f"marker of {n.name} -> {st}"
    if r < 0.43:
        # explicit request to initialise a node (what `alpenhorn node init` files)
        bad = [x for x in nodes if case.marker_state.get(x.id) != "ok"]
        n = rng.choice(bad) if bad and rng.random() < 0.4 else rng.choice(nodes)
        db.ArchiveFileImportRequest.create(node=n, path="ALPENHORN_NODE")
        return f"init request for {n.name}"
    if r < 0.6:
        rows = list(db.ArchiveFileCopy.select())
        if rows:
            c = rng.choice(rows)
            h, wn = rng.choice("YMXN"), rng.choice("YMN")
            db.ArchiveFileCopy.update(has_file=h, wants_file=wn).where(db.ArchiveFileCopy.id == c.id).execute()
            case.tracked.add((c.node_id, c.file_id))
            return f"copy {c.id} -> {h}/{wn}"
    if r < 0.66:
        # a second request for a file already requested into the same group, from another holder of the file
        pend = list(db.ArchiveFileCopyRequest.select().where(db.ArchiveFileCopyRequest.completed == 0,
                                                             db.ArchiveFileCopyRequest.cancelled == 0))
        if pend:
            r0 = rng.choice(pend)
            holders = [c.node_id for c in db.ArchiveFileCopy.select().where(db.ArchiveFileCopy.file == r0.file_id,
                                                                           db.ArchiveFileCopy.has_file != "N")]
            src = rng.choice(holders) if holders else r0.node_from_id
            db.ArchiveFileCopyRequest.create(file=r0.file_id, node_from=src, group_to=r0.group_to_id)
            return f"duplicate sync request file {r0.file_id} node {src}->group {r0.group_to_id}"
    if r < 0.8:
        f = rng.choice(case.files)
        src = rng.choice(case.nodes)
        good = [c for c in db.ArchiveFileCopy.select().where(db.ArchiveFileCopy.has_file == "Y")]
        if good and rng.random() < 0.7:        # mostly requests that can proceed: a healthy source
            c = rng.choice(good)
            f, src = db.ArchiveFile.get(id=c.file_id), db.StorageNode.get(id=c.node_id)
        g = rng.choice([g for g in case.groups if g.id != src.group_id] or case.groups)
        if getattr(case, "churn", False) and rng.random() < 0.6 and src.group_id != case.groups[0].id:
            g = case.groups[0]
        db.ArchiveFileCopyRequest.create(file=f, node_from=src, group_to=g)
        return f"sync request file {f.id} {src.name}->{g.name}"
    if r < 0.9:
        n = rng.choice(nodes)
        f = rng.choice(case.files)
        data = None if rng.random() < 0.5 else case.w.contents[f.id] + b"#"
        case.w.put_bytes(n, f, data)
        case.tracked.add((n.id, f.id))
        return f"fault on node {n.name} file {f.id}: {'deleted' if data is None else 'corrupted'}"
    # import request for an existing / unregistered file
    n = rng.choice(nodes)
    f = rng.choice(case.files)
    if rng.random() < 0.3:
        # leftovers of an interrupted transfer / a writer's lock next to the data file, then a recursive scan of the acquisition
        d = os.path.join(n.root, f.acq.name, os.path.dirname(f.name))
        os.makedirs(d, exist_ok=True)
        base = os.path.basename(f.name)
        for tmpname in (f".{base}.placeholder", f".{base}.lock" if rng.random() < 0.5 else ".stray"):
            with open(os.path.join(d, tmpname), "wb") as fh:
                fh.write(b"tmp")
        db.ArchiveFileImportRequest.create(node=n, path=f.acq.name, recurse=True, register=True)
        return f"temporary dot-files next to {f.acq.name}/{f.name} on {n.name}; recursive import request for {f.acq.name}"
    db.ArchiveFileImportRequest.create(node=n, path=f"{f.acq.name}/{f.name}", recurse=False, register=True)
    return f"import request {f.acq.name}/{f.name} on {n.name}"


def run_history(ctx, e, rng, nsteps, on_step=None, conc=False, churn=False, hsm=None, keep_open=False, reroot=False):
    """returns (case, problems07, problems08, log)"""
    import pathlib
    case = dharness.DWorld(e, rng, churn=churn, hsm=hsm)
    case.reroot = reroot
    case.dispatch_src = {}
    db = case.w.db
    case.precompleted = set(r.id for r in db.ArchiveFileCopyRequest.select().where(db.ArchiveFileCopyRequest.completed == 1))
    tool_mode = rng.choice(["ok", "ok", "ok", "ok", "fail-src", "partial", "hang"])
    case.set_tools(rng.choice(["rsync-only", "both", "none"]), tool_mode)
    e.config.config["daemon"]["pull_timeout_base"] = 0.25 if tool_mode == "hang" else 300
    p7, p8, log = [], [], []
    log.append(f"transfer tools installed: {os.path.basename(os.environ['PATH'])}, behaving: {tool_mode}")
    completed_seen = set()

    def judge(host, bt, bc, desc):
        allow_init = set()
        names = [desc[2]] if desc[0] == "task" else list(desc[2]) if desc[0] == "tasks-2-workers" else []
        for nm in names:
            m = re.match(r'Init Node "(\S+)"', nm)
            if m:
                nd = db.StorageNode.get(name=m.group(1))
                # initialising is licensed by a request *for that node* that was pending when the pass queued the task
                if nd.id in case.initq.get(host, set()):
                    allow_init.add(nd.id)
        for p in case.attribute(host, bt, bc, allow_init=allow_init):
            p7.append((p, list(log[-6:])))
        for nid in allow_init:
            if nid in case.usable_now(host):
                case.marker_state[nid] = "ok"
        if desc[0] == "iterate" and dharness.verif_persistent(e):
            # after a pass, the daemon watches (auto-import) only roots of nodes that are its own and active
            for nd, root, handler in case.watched(host):
                if nd is None or nd.host != host or not nd.active:
                    p7.append((f"daemon on {host} still watches the root of node {handler.node.name} for auto-import although the node is "
                               f"{'gone' if nd is None else 'on host ' + str(nd.host) if nd.host != host else 'not active'} "
                               f"(new files there would be imported)", list(log[-6:])))
        for p in case.invariants():
            p8.append((p, list(log[-6:])))
        # "a completed request implies a copy was recorded in its destination group": judged at the step that completes it
        RQ = db.ArchiveFileCopyRequest
        for rq in RQ.select().where(RQ.completed == 1):
            if rq.id in case.precompleted or rq.id in completed_seen:
                continue
            completed_seen.add(rq.id)
            good = (db.ArchiveFileCopy.select().join(db.StorageNode)
                    .where(db.ArchiveFileCopy.file == rq.file_id, db.StorageNode.group == rq.group_to_id,
                           db.ArchiveFileCopy.has_file == "Y").count())
            if good == 0 and desc[0] == "tasks-2-workers" and any(str(x).startswith("Delete copies") for x in desc[2]):
                # several tasks ran in this step: a delete task queued earlier (with its snapshot of a then released copy) may
                # have removed the copy right after the transfer recorded it; judged only as "a row exists"
                good = (db.ArchiveFileCopy.select().join(db.StorageNode)
                        .where(db.ArchiveFileCopy.file == rq.file_id, db.StorageNode.group == rq.group_to_id).count())
            if good == 0:
                rows = [(c.node_id, c.has_file, c.wants_file) for c in db.ArchiveFileCopy.select().join(db.StorageNode)
                        .where(db.ArchiveFileCopy.file == rq.file_id, db.StorageNode.group == rq.group_to_id)]
                p8.append((f"request {rq.id} was completed by {desc} but no copy of file {rq.file_id} is recorded present in group "
                           f"{rq.group_to_id} (rows there: {rows})", list(log[-6:])))
        # "a copy recorded removed by the daemon is gone from disk": rows this step turned into has_file='N'
        for cid, row in case.copies().items():
            old = bc.get(cid)
            if old is not None and old[2] != "N" and row[2] == "N":
                nd = db.StorageNode.get(id=row[1])
                f = db.ArchiveFile.get(id=row[0])
                if case.w.file_on(nd, f) is not None:
                    p8.append((f"copy {cid} of {f.name} on {nd.name} was recorded removed (has_file {old[2]} -> N) by {desc} "
                               f"but the file is still on disk", list(log[-6:])))
        if on_step:
            on_step(case, desc)

    def do_iterate(host):
        bt, bc = case.all_trees(), case.copies()
        e.set_host(host)
        before_names = [t[1] for t in case.daemons[host].pending()] if hasattr(case.daemons[host], "pending") else []
        try:
            pend = case.iterate(host)
        except Exception as ex:  # noqa
            p8.append(f"update pass on {host} raised {type(ex).__name__}: {ex}")
            log.append(f"iterate {host}: RAISED {ex}")
            return
        # what the index said about the source of each request this pass dispatched (a new pre-pull search in the queue)
        new = [t[1] for t in pend]
        for nm in before_names:
            if nm in new:
                new.remove(nm)
        for nm in new:
            m = re.match(r"Pre-pull search for (\S+?)/(\S+) in (\S+)", nm)
            if not m:
                continue
            try:
                f_ = (db.ArchiveFile.select().join(db.ArchiveAcq)
                      .where(db.ArchiveAcq.name == m.group(1), db.ArchiveFile.name == m.group(2)).get())
                g_ = db.StorageGroup.get(name=m.group(3))
            except Exception:
                continue
            RQ_ = db.ArchiveFileCopyRequest
            for rq in RQ_.select().where(RQ_.file == f_.id, RQ_.group_to == g_.id, RQ_.completed == 0, RQ_.cancelled == 0):
                sc = db.ArchiveFileCopy.get_or_none(file=f_.id, node=rq.node_from_id)
                case.dispatch_src[rq.id] = sc.has_file if sc is not None else "N"
        log.append(f"iterate {host}: usable={sorted(case.view[host])} queued={[t[1] for t in pend][:6]}")
        judge(host, bt, bc, ("iterate", host))

    def post_task(host, name):
        """bookkeeping of the tracked set after a task ran (mirror of `trackStep`)"""
        case.note_task(host, name)
        m = re.match(r"Import (\S+) on (\S+)", name)
        if m:
            # importing a file that differs from its existing registration is the operator telling the index something
            # the daemon has not checked: tracked (DESIGN §4 C08)
            try:
                acq, fname = m.group(1).split("/", 1)
                f = db.ArchiveFile.select().join(db.ArchiveAcq).where(db.ArchiveAcq.name == acq, db.ArchiveFile.name == fname).get()
                nd = db.StorageNode.get(name=m.group(2))
                data = case.w.file_on(nd, f)
                if data is not None and (f.size_b != len(data) or f.md5sum != dharness.worldmod.md5(data)):
                    case.tracked.add((nd.id, f.id))
            except Exception:
                pass
        m = re.match(r"AFCR#(\d+):", name)
        if m:
            rq = db.ArchiveFileCopyRequest.get_or_none(id=int(m.group(1)))
            if rq is not None and rq.completed:
                md = re.match(r"AFCR#\d+: \S+ -> (\S+)", name)
                dest = db.StorageNode.get_or_none(db.StorageNode.name == md.group(1)) if md else None
                if dest is not None:
                    src_tracked = (rq.node_from_id, rq.file_id) in case.tracked
                    sc = db.ArchiveFileCopy.get_or_none(file=rq.file_id, node=rq.node_from_id)
                    if case.dispatch_src.get(rq.id) in ("X", "N"):
                        # the index already said "corrupt" / "absent" about the source when the daemon dispatched this transfer:
                        # what it then recorded healthy at the destination is its own doing, not external tampering
                        case.tracked.discard((dest.id, rq.file_id))
                    elif src_tracked or sc is None or sc.has_file != "Y":
                        case.tracked.add((dest.id, rq.file_id))
                    else:
                        case.tracked.discard((dest.id, rq.file_id))

    def do_concurrent_pass(host):
        """one update pass, then its tasks run by two workers interleaved at SQL statements (judged as one step)"""
        do_iterate(host)
        bt, bc = case.all_trees(), case.copies()
        ran, schedule, excs = case.concurrent_drain(host, rng, nw=2)
        log.append(f"tasks {host} [2 workers, schedule {''.join(map(str, schedule[:60]))}]: {ran[:8]}")
        for x in excs:
            if "OperationalError" not in x:
                p8.append(f"a task on {host} raised (2 workers): {x}")
        for name in ran:
            post_task(host, name)
        # with two workers a check and a transfer of the same pass may finish in either order: re-derive taint conservatively
        judge(host, bt, bc, ("tasks-2-workers", host, ran))

    def do_task(host, poll_deferred=False):
        """run one queued task of `host`; returns False when nothing was runnable"""
        bt, bc = case.all_trees(), case.copies()
        e.set_host(host)
        # an I/O error from the file system when the task removes a file (EIO once), in one task out of eight
        real_unlink = pathlib.Path.unlink
        eio = rng.random() < 0.125
        fired = []

        def failing_unlink(self_, *a, **k):
            if not fired and "/.alpentemp" not in str(self_) and not self_.name.startswith("."):
                fired.append(str(self_))
                raise OSError(5, "Input/output error (injected)", str(self_))
            return real_unlink(self_, *a, **k)
        if eio:
            pathlib.Path.unlink = failing_unlink
        try:
            res = case.run_task(host)
            if res is None and poll_deferred and case.daemons[host].queue.deferred_size:
                # time passes: a task that deferred itself (waiting for an HSM restore) polls once
                q = case.daemons[host].queue
                q._deferrals = [(k * 1e-9, *d[1:]) for k, d in enumerate(q._deferrals)]
                res = case.run_task(host)
        except Exception as ex:  # noqa
            if not fired:     # an exception caused by the injected I/O error stops the daemon like a crash would (C09's subject)
                p8.append(f"a task on {host} raised {type(ex).__name__}: {ex}")
            log.append(f"task {host}: RAISED {ex}")
            return True
        finally:
            pathlib.Path.unlink = real_unlink
        if res is None:
            return False
        log.append(f"task {host}: {res[1]}" + (f" [unlink of {os.path.basename(fired[0])} failed with EIO]" if fired else ""))
        post_task(host, res[1])
        judge(host, bt, bc, ("task", host, res[1]))
        return True

    try:
        for si in range(nsteps):
            r = rng.random()
            host = rng.choice(case.hosts)
            if r < 0.06 and dharness.verif_persistent(e) and case.watched(host):
                # a new file appears under a watched root: the (synchronous) observer delivers the event to the daemon's handler
                from watchdog.events import FileCreatedEvent
                nd, root, handler = rng.choice(case.watched(host))
                k_ = len(log)
                pth = os.path.join(root, "acq", f"arrived{k_}.dat")
                os.makedirs(os.path.dirname(pth), exist_ok=True)
                with open(pth, "wb") as fh:
                    fh.write(b"newly arrived %d" % k_)
                e.set_host(host)
                handler.on_created(FileCreatedEvent(pth))
                log.append(f"new file acq/arrived{k_}.dat under the watched root of {handler.node.name}: event delivered to the daemon on {host}")
            elif r < 0.03:
                case.restart(host)
                log.append(f"restart of the daemon on {host}")
            elif r < 0.28:
                log.append("op: " + operator_op(case, rng))
            elif r < 0.48:
                do_iterate(host)
            elif r < 0.70:
                do_task(host, poll_deferred=True)
            elif conc and r < 0.9:
                do_concurrent_pass(host)
            else:
                # a whole pass of this host's daemon: update, then every queued task one by one (each judged separately)
                do_iterate(host)
                for _ in range(40):
                    if not do_task(host):
                        if case.daemons[host].queue.deferred_size:
                            q = case.daemons[host].queue
                            q._deferrals = [(k * 1e-9, *d[1:]) for k, d in enumerate(q._deferrals)]
                            continue
                        break
    except BaseException:
        case.close()
        raise
    if not keep_open:
        case.close()         # the caller of keep_open=True goes on with the same daemon processes and closes them itself
    os.environ["PATH"] = "/usr/local/bin:/usr/bin:/bin"
    return case, p7, p8, log


def corpus_churn(ctx, e):
    """scripted disk-swap scenarios, enumerated: a group with three nodes on one host is served by one of them for a pass;
    then the set of active nodes is changed to every other subset, a request for a file the group lacks is filed before or
    after the change, and another pass runs (same daemon process, or restarted).  The locality oracle judges every step."""
    import itertools
    probs_all = []
    n = 0
    for first, after, req_when, restart in itertools.product([0, 1], [(), (0,), (1,), (2,), (0, 1), (1, 2), (0, 1, 2)],
                                                             ["before", "after"], [False, True]):
        rng = random.Random(f"churn-{first}-{after}-{req_when}-{restart}")
        case = dharness.DWorld.__new__(dharness.DWorld)
        w = worldmod.World(e)
        db = w.db
        for m in (db.StorageTransferAction, db.ArchiveFileCopyRequest, db.ArchiveFileImportRequest, db.ArchiveFileCopy,
                  db.ArchiveFile, db.ArchiveAcq, db.StorageNode, db.StorageGroup):
            m.delete().execute()
        import shutil
        shutil.rmtree(os.path.join(e.tmp, "roots"), ignore_errors=True)
        g1, g2 = w.group("g1"), w.group("g2")
        ds = [w.node(f"d{k}", g1, host="h1", active=(k == first)) for k in range(3)]
        src = w.node("src", g2, host="h1")
        acq = w.acq("acq")
        f1, f2 = w.file(acq, "one.dat", b"one"), w.file(acq, "two.dat", b"two")
        w.copy(f1, src, has="Y")
        w.copy(f2, src, has="Y")
        w.req(f1, src, g1)
        case.env, case.rng, case.w = e, rng, w
        case.hosts = ["h1"]
        case.daemons = {"h1": (worldmod.PersistentDaemon if dharness.verif_persistent(e) else worldmod.Daemon)(e, "h1")}
        case.marker_state = {x.id: "ok" for x in ds + [src]}
        case.tracked, case.view, case.initq = set(), {}, {}
        case.nodes, case.groups, case.files = ds + [src], [g1, g2], [f1, f2]
        case.rich = case.multi = case.churn = True
        case.set_tools("none", "ok")
        log = []
        try:
            def step(label, fn):
                bt, bc = case.all_trees(), case.copies()
                r = fn()
                log.append(f"{label}: {r if not isinstance(r, list) else [t[1] for t in r]}")
                for p in case.attribute("h1", bt, bc):
                    probs_all.append((p, list(log)))
            step("pass 1", lambda: case.iterate("h1"))
            step("tasks 1", lambda: case.drain("h1"))
            if req_when == "before":
                w.req(f2, src, g1)
            for k, x in enumerate(ds):
                db.StorageNode.update(active=(k in after)).where(db.StorageNode.id == x.id).execute()
            log.append(f"operator: active nodes of g1 now {[ds[k].name for k in after]}")
            if req_when == "after":
                w.req(f2, src, g1)
            if restart:
                case.restart("h1")
                log.append("daemon restarted")
            step("pass 2", lambda: case.iterate("h1"))
            step("tasks 2", lambda: case.drain("h1"))
            step("pass 3", lambda: case.iterate("h1"))
            step("tasks 3", lambda: case.drain("h1"))
        finally:
            case.close()
            os.environ["PATH"] = "/usr/local/bin:/usr/bin:/bin"
        n += 1
        ctx.case(("churn", first, after, req_when, restart), nontrivial=True,
                 sample={"scenario": log} if n == 11 else None)
        ctx.count("churn-scenarios")
    return probs_all


def corpus_reroot(ctx, e):
    """scripted: a node served by a running daemon is pointed at other storage between two passes (a copy of its tree whose
    marker is missing / names someone else / is right, or the disk of an inactive node), with a released copy and a copy to
    check pending on it; same daemon process or restarted.  The locality oracle judges every step; the old directory stays
    under observation."""
    import itertools
    import shutil
    probs_all = []
    k_ = 0
    for how, restart, when in itertools.product(["missing", "other", "other-node", "ok"], [False, True], ["before", "after"]):
        rng = random.Random(f"reroot-{how}-{restart}-{when}")
        case = dharness.DWorld.__new__(dharness.DWorld)
        w = worldmod.World(e)
        db = w.db
        for m in (db.StorageTransferAction, db.ArchiveFileCopyRequest, db.ArchiveFileImportRequest, db.ArchiveFileCopy,
                  db.ArchiveFile, db.ArchiveAcq, db.StorageNode, db.StorageGroup):
            m.delete().execute()
        shutil.rmtree(os.path.join(e.tmp, "roots"), ignore_errors=True)
        ga, gb, gc = w.group("ga"), w.group("gb"), w.group("gc")
        a = w.node("a", ga, host="h1", stype="F")
        b = w.node("b", gb, host="h1", stype="F", active=False)
        arcs = [w.node(f"arc{i}", gc if i else gb, host="h2", stype="A") for i in range(2)]
        acq = w.acq("acq")
        f1, f2, f3 = w.file(acq, "one.dat", b"one"), w.file(acq, "two.dat", b"two"), w.file(acq, "three.dat", b"three")
        for f in (f1, f2, f3):
            for x in arcs:
                w.copy(f, x, has="Y")
            w.copy(f, a, has="Y")
            w.copy(f, b, has="Y")
        case.env, case.rng, case.w = e, rng, w
        case.hosts = ["h1"]
        case.daemons = {"h1": (worldmod.PersistentDaemon if dharness.verif_persistent(e) else worldmod.Daemon)(e, "h1")}
        case.marker_state = {x.id: "ok" for x in [a, b] + arcs}
        case.tracked, case.view, case.initq = set(), {}, {}
        case.nodes, case.groups, case.files = [a, b] + arcs, [ga, gb, gc], [f1, f2, f3]
        case.rich = case.multi = case.churn = True
        case.set_tools("none", "ok")
        log = []

        def work():
            C = db.ArchiveFileCopy
            C.update(wants_file="N").where(C.file == f1.id, C.node == a.id).execute()
            C.update(has_file="M").where(C.file == f2.id, C.node == a.id).execute()
            w.req(f3, arcs[0], ga)
            log.append("operator: copy of one.dat on a released, copy of two.dat on a to be checked")
        try:
            def step(label, fn):
                bt, bc = case.all_trees(), case.copies()
                r = fn()
                log.append(f"{label}: {r if not isinstance(r, list) else [t[1] for t in r]}")
                for p in case.attribute("h1", bt, bc):
                    probs_all.append((p, list(log)))
            step("pass 1", lambda: case.iterate("h1"))
            step("tasks 1", lambda: case.drain("h1"))
            if when == "before":
                work()
            log.append("operator: " + case.reroot_node(db.StorageNode.get(id=a.id), how, rng))
            if when == "after":
                work()
            if restart:
                case.restart("h1")
                log.append("daemon restarted")
            for k in (2, 3, 4):
                step(f"pass {k}", lambda: case.iterate("h1"))
                step(f"tasks {k}", lambda: case.drain("h1"))
        finally:
            case.close()
            os.environ["PATH"] = "/usr/local/bin:/usr/bin:/bin"
        k_ += 1
        ctx.case(("reroot", how, restart, when), nontrivial=True, sample={"scenario": log} if k_ == 3 else None)
        ctx.count("reroot-scenarios")
        if how == "ok":
            # the move was legitimate: the daemon goes on serving the node at its new place
            nd = db.StorageNode.get(id=a.id)
            if w.file_on(nd, f1) is not None:
                ctx.count("reroot-ok:released-copy-still-there")
    return probs_all


def corpus_hostnames(ctx, e):
    """"whose host is its own host name": scripted layouts in which host names are prefixes / dotted extensions of one another
    (alpha, alpha.site1, alpha.site1.example.org, alph): the daemon of each host runs two passes with work pending on every
    node (a released copy, a copy to check, a transfer); the locality oracle judges every step"""
    import shutil
    probs_all = []
    names = ["alpha", "alpha.site1", "alpha.site1.example.org", "alph", "ALPHA"]
    for me in names:
        rng = random.Random(f"hostnames-{me}")
        case = dharness.DWorld.__new__(dharness.DWorld)
        w = worldmod.World(e)
        db = w.db
        for m in (db.StorageTransferAction, db.ArchiveFileCopyRequest, db.ArchiveFileImportRequest, db.ArchiveFileCopy,
                  db.ArchiveFile, db.ArchiveAcq, db.StorageNode, db.StorageGroup):
            m.delete().execute()
        shutil.rmtree(os.path.join(e.tmp, "roots"), ignore_errors=True)
        acq = w.acq("acq")
        f1, f2 = w.file(acq, "one.dat", b"one"), w.file(acq, "two.dat", b"two")
        arcs = [w.node(f"arc{i}", w.group(f"ga{i}"), host="elsewhere", stype="A") for i in range(2)]
        nodes = []
        for i, h in enumerate(names):
            nd = w.node(f"n{i}", w.group(f"g{i}"), host=h, stype="F")
            nodes.append(nd)
            w.copy(f1, nd, has="Y", wants="N")       # released; two archive copies exist elsewhere
            w.copy(f2, nd, has="M")                  # to be checked
        for f in (f1, f2):
            for x in arcs:
                w.copy(f, x, has="Y")
        case.env, case.rng, case.w = e, rng, w
        case.hosts = [me]
        case.daemons = {me: (worldmod.PersistentDaemon if dharness.verif_persistent(e) else worldmod.Daemon)(e, me)}
        case.marker_state = {x.id: "ok" for x in nodes + arcs}
        case.tracked, case.view, case.initq = set(), {}, {}
        case.nodes, case.groups, case.files = nodes + arcs, list(db.StorageGroup.select()), [f1, f2]
        case.rich = case.multi = case.churn = True
        case.set_tools("none", "ok")
        log = [f"daemon configured with host name {me!r}; nodes on hosts {names}"]
        try:
            for k in (1, 2):
                for label, fn in ((f"pass {k}", lambda: case.iterate(me)), (f"tasks {k}", lambda: case.drain(me))):
                    bt, bc = case.all_trees(), case.copies()
                    e.set_host(me)
                    r = fn()
                    log.append(f"{label}: {r if not isinstance(r, list) else [t[1] for t in r]}")
                    for p in case.attribute(me, bt, bc):
                        probs_all.append((p, list(log)))
        finally:
            case.close()
            os.environ["PATH"] = "/usr/local/bin:/usr/bin:/bin"
        own = [x for x in nodes if x.host == me][0]
        served = w.file_on(own, f1) is None
        ctx.case(("hostnames", me), nontrivial=True, sample={"scenario": log} if me == "alpha.site1" else None)
        ctx.count(f"hostnames:own-node-{'served' if served else 'not-served'}")
    return probs_all


def compare_iterate(ctx, e, rng, n):
    """the first-level steps of `iterateOps` vs the tasks a real update pass queues (fresh daemon, empty queue)"""
    drv = common.Driver()
    lines, metas = [], []
    for i in range(n):
        case = dharness.DWorld(e, rng)
        db = case.w.db
        host = rng.choice(case.hosts)
        e.set_host(host)
        init = sorted(case.usable_now(host) | set(nid for nid in case.marker_state if case.marker_state[nid] == "ok"))
        init = sorted(nid for nid in case.marker_state if case.marker_state[nid] == "ok")
        setup = case.setup_lines()
        ireqs = []
        if rng.random() < 0.6:
            for _ in range(rng.randint(1, 3)):
                nd = rng.choice(case.nodes)
                r_ = db.ArchiveFileImportRequest.create(node=nd, path="ALPENHORN_NODE", completed=rng.random() < 0.2)
                ireqs.append((r_.id, nd.id, int(bool(r_.completed))))
        if rng.random() < 0.6:
            # duplicate requests: the same file into the same group from another (or the same) source
            pend_rows = list(db.ArchiveFileCopyRequest.select().where(db.ArchiveFileCopyRequest.completed == 0,
                                                                      db.ArchiveFileCopyRequest.cancelled == 0))
            for _ in range(rng.randint(1, 3)):
                if pend_rows and rng.random() < 0.7:
                    r0 = rng.choice(pend_rows)
                    db.ArchiveFileCopyRequest.create(file=r0.file_id, node_from=rng.choice(case.nodes), group_to=r0.group_to_id)
                else:
                    c_ = list(db.ArchiveFileCopy.select().where(db.ArchiveFileCopy.has_file == "Y"))
                    if c_:
                        c0 = rng.choice(c_)
                        g0 = rng.choice(case.groups)
                        if g0.id != db.StorageNode.get(id=c0.node_id).group_id:
                            db.ArchiveFileCopyRequest.create(file=c0.file_id, node_from=c0.node_id, group_to=g0.id)
            setup = case.setup_lines()
        pend = case.iterate(host)
        checks, deletes, inits = set(), set(), set()
        transfers = []
        for key, name, excl in pend:
            m = re.match(r"Pre-pull search for (\S+) in (\S+)", name)
            if m:
                acq_, fname_ = m.group(1).split("/", 1)
                f_ = db.ArchiveFile.select().join(db.ArchiveAcq).where(db.ArchiveAcq.name == acq_, db.ArchiveFile.name == fname_).get()
                transfers.append((f_.id, db.StorageGroup.get(name=m.group(2)).id, 0))
            m = re.match(r"AFCR#(\d+):", name)
            if m:
                r_ = db.ArchiveFileCopyRequest.get(id=int(m.group(1)))
                transfers.append((r_.file_id, r_.group_to_id, 1))
            m = re.match(r'Init Node "(\S+)"', name)
            if m:
                inits.add(db.StorageNode.get(name=m.group(1)).id)
            m = re.match(r"Check file (\S+) on (\S+)", name)
            if m:
                path, nname = m.groups()
                acq, fname = path.split("/", 1)
                f = db.ArchiveFile.select().join(db.ArchiveAcq).where(db.ArchiveAcq.name == acq, db.ArchiveFile.name == fname).get()
                nd = db.StorageNode.get(name=nname)
                checks.add(db.ArchiveFileCopy.get(file=f, node=nd).id)
            m = re.match(r"Delete copies \[(.*)\] from", name)
            if m and m.group(1):
                deletes |= set(int(x) for x in m.group(1).split(","))
        hostid = {"h1": 1, "h2": 2}[host]
        lines += setup + [f"w.q iterate {hostid} {','.join(map(str, init)) or '-'}",
                          f"w.q initTasks {hostid} {','.join(map(str, init)) or '-'} " +
                          (",".join(f"{a}:{b}:{c}" for a, b, c in ireqs) or "-")]
        metas.append((len(lines) - 2, sorted(checks), sorted(deletes), host, [t[1] for t in pend], sorted(inits), sorted(transfers)))
        case.drain(host)
    outs = drv.batch(lines)
    for idx, checks, deletes, host, names, inits, transfers in metas:
        out = outs[idx]
        mdis = re.search(r"dispatch:(\S+)", out).group(1)
        mtr = sorted(tuple(int(x) for x in t.split(":")) for t in mdis.split(",")) if mdis != "-" else []
        ctx.count("iterate:transfers-" + ("queued" if transfers else "none"))
        # the property-level oracle: one pass never queues two transfers of the same file into the same group
        keys = [(a, b) for a, b, _ in transfers]
        if len(keys) != len(set(keys)):
            ctx.violation("overlap:two-transfers-same-file-same-group", f"one update pass on {host} queued two transfers of the same "
                          f"file into the same group: {names}", {"kind": "pass", "tasks": names, "setup": [l for l in lines[max(0, idx - 40):idx]]})
        if mtr != transfers and len(ctx.corr_broken) < 5:
            ctx.corr_broken.append({"stream": "update_loop-transfers-vs-iterateOps", "host": host, "real_transfers(file,group,force)": transfers,
                                    "model": out, "tasks": names})
        mi = sorted(int(x.split(":")[0]) for x in outs[idx + 1].split(";")) if outs[idx + 1] not in ("-", "") else []
        ctx.count("iterate:init-" + ("queued" if inits else "none"))
        if mi != inits and len(ctx.corr_broken) < 5:
            ctx.corr_broken.append({"stream": "update_loop-init-tasks-vs-initTasks", "host": host, "real_init_nodes": inits,
                                    "model": outs[idx + 1], "tasks": names})
        mc = re.search(r"check:(\S+)", out).group(1)
        md = re.search(r"delete:(\S+)", out).group(1)
        mcs = sorted(int(x) for x in mc.split(",")) if mc != "-" else []
        mds = sorted(int(x) for x in md.split(",")) if md != "-" else []
        ctx.case(("iterate", idx), nontrivial=bool(checks or deletes),
                 sample={"host": host, "real_tasks": names, "model": out} if (checks or deletes) and len(ctx.samples) < 3 else None)
        ctx.count("iterate:" + ("tasks" if checks or deletes else "none"))
        if (mcs, mds) != (checks, deletes) and len(ctx.corr_broken) < 5:
            ctx.corr_broken.append({"stream": "update_loop-tasks-vs-iterateOps", "host": host, "real_checks": checks, "real_deletes": deletes,
                                    "model": out, "tasks": names})


def run(ctx):
    ok = common.proof_stage(ctx, MODULE)
    rng = ctx.rng
    nh = 100 if ctx.quick() else 2500
    with envmod.Env(dbfile=True) as e:     # file database: persistent daemon loops and two-worker passes need threads
        for p, hist in corpus_churn(ctx, e):
            ctx.violation("locality:churn:" + p[:40].replace(" ", "_"), p, {"kind": "churn-scenario", "steps": hist})
        for p, hist in corpus_hostnames(ctx, e):
            ctx.violation("locality:hostname:" + p[:40].replace(" ", "_"), p, {"kind": "hostname-scenario", "steps": hist})
        for p, hist in corpus_reroot(ctx, e):
            ctx.violation("locality:reroot:" + p[:40].replace(" ", "_"), p, {"kind": "reroot-scenario", "steps": hist})
        compare_iterate(ctx, e, rng, 200 if ctx.quick() else 4000)
        for i in range(nh):
            hseed = f"{ctx.prop}-{ctx.seed}-h{i}"
            hr = random.Random(hseed)
            case, p7, p8, log = run_history(ctx, e, hr, hr.randint(8, 30), conc=True, reroot=True)
            ctx.case(tuple(log), nontrivial=len(log) > 5, sample={"history": log[:25]} if i == 0 else None)
            ctx.count("history:steps", len(log))
            for (p, ctxlog) in p7:
                ctx.violation("locality:" + p[:40].replace(" ", "_"), p,
                              {"kind": "dhistory", "hseed": hseed, "last_steps": ctxlog, "history": log})
    ctx.coverage["rule"] = ("two hosts sharing one index; nodes randomly local/remote, active/inactive, marker ok/missing/naming another node; "
                            "histories of operator changes (activation flips, host reassignment, marker changes, state overrides, sync and "
                            "import requests, external damage) interleaved with real update passes and single task executions of either "
                            "host's daemon; every storage change (tree signatures of all roots before/after each step) and every copy-row "
                            "change is attributed to the acting host and judged against the nodes usable as of that host's last pass; "
                            "plus: tasks queued by a real update pass vs the Lean iterateOps. distinct = history log")
    from props.c06 import finish_search
    finish_search(ctx, ok)


def replay(ctx, path):
    """re-run the recorded history (same per-history seed) on the current tree and report what the oracle says now"""
    d = json.load(open(path))
    print(json.dumps({k: d[k] for k in d if k != "history"}, indent=1)[:3000])
    if "hseed" not in d:
        import sys
        return common.replay_by_rerun(ctx, path, sys.modules[__name__])
    with envmod.Env(dbfile=True) as e:
        hr = random.Random(d["hseed"])
        case, p7, p8, log = run_history(ctx, e, hr, hr.randint(8, 30), conc=True, reroot=True)
    for l in log:
        print("  ", l[:200])
    for p, _ in p7:
        print("VIOLATION-REPRODUCED:", p)
    return 1 if p7 else 0
