"""C09 — crash consistency: the real task is killed (fork + _exit) before each primitive effect; then daemons restart."""
import json
import os
import sys

import common
import dharness
import env as envmod
import verif_idext
import wharness
import world as worldmod

MODULE = "Alpen.Props.C09"
PRIMS = {"os.remove", "os.rename", "os.mkdir", "os.rmdir", "os.link", "os.symlink", "os.utime", "os.truncate", "shutil.copyfile",
         "subprocess.Popen", "tempfile.mkdtemp", "os.chmod"}


def build(e, kind, variant):
    w, o = wharness.fixed_world(e, variant)
    db = w.db
    if kind == "import":
        p = os.path.join(o["n1"].root, "acq2", "new.dat")
        os.makedirs(os.path.dirname(p), exist_ok=True)
        with open(p, "wb") as f:
            f.write(b"brand new file")
        db.ArchiveFileImportRequest.create(node=o["n1"], path="acq2/new.dat", recurse=False, register=True)
        db.ArchiveFileCopyRequest.delete().execute()
        db.ArchiveFileCopy.update(wants_file="Y").execute()
        db.ArchiveFileCopy.update(has_file="Y").where(db.ArchiveFileCopy.has_file == "M").execute()
    elif kind == "delete":
        db.ArchiveFileCopyRequest.delete().execute()
        db.ArchiveFileCopy.update(has_file="Y").where(db.ArchiveFileCopy.has_file == "M").execute()
    elif kind == "check":
        db.ArchiveFileCopyRequest.delete().execute()
        db.ArchiveFileCopy.update(wants_file="Y").where(db.ArchiveFileCopy.wants_file == "N").execute()
    elif kind == "pull":
        db.ArchiveFileCopy.update(wants_file="Y").where(db.ArchiveFileCopy.wants_file == "N").execute()
        db.ArchiveFileCopy.update(has_file="Y").where(db.ArchiveFileCopy.has_file == "M").execute()
        if variant >= 6:
            # the destination held this file once: an old row recorded "removed" (has N, wants N) is still there
            db.ArchiveFileCopy.create(file=o["f"], node=o["n2"], has_file="N", wants_file="N", ready=False)
        if variant >= 8:
            # ... and the source holds the only other copy (nothing may be deleted on the way to recovery)
            db.ArchiveFileCopy.delete().where(db.ArchiveFileCopy.file == o["f"], db.ArchiveFileCopy.node << [o["n3"].id, o["n4"].id]).execute()
    verif_idext.MODE[:] = ["first", 1]
    return w, o


def healthy_wanted(w):
    db = w.db
    out = {}
    for c in db.ArchiveFileCopy.select().where(db.ArchiveFileCopy.has_file == "Y", db.ArchiveFileCopy.wants_file == "Y"):
        n = db.StorageNode.get(id=c.node_id); f = db.ArchiveFile.get(id=c.file_id)
        out[(c.node_id, c.file_id)] = w.file_on(n, f)
    return out


def crash_inv(w, before_hw):
    """oracle on the state a crash left behind"""
    db = w.db
    probs = []
    for c in db.ArchiveFileCopy.select().where(db.ArchiveFileCopy.has_file == "Y", db.ArchiveFileCopy.wants_file == "Y"):
        n = db.StorageNode.get(id=c.node_id); f = db.ArchiveFile.get(id=c.file_id)
        data = w.file_on(n, f)
        if data is None:
            probs.append(f"copy of {f.name} on {n.name} recorded healthy and wanted but its bytes are not there")
        elif f.md5sum is not None and worldmod.md5(data) != f.md5sum:
            probs.append(f"copy of {f.name} on {n.name} recorded healthy but its bytes do not match the registered digest")
    for r in db.ArchiveFileCopyRequest.select().where(db.ArchiveFileCopyRequest.completed == 1):
        ok = False
        for c in db.ArchiveFileCopy.select().join(db.StorageNode).where(db.ArchiveFileCopy.file == r.file_id, db.StorageNode.group == r.group_to_id):
            n = db.StorageNode.get(id=c.node_id); f = db.ArchiveFile.get(id=c.file_id)
            if c.has_file == "Y" and w.file_on(n, f) is not None:
                ok = True
        if not ok:
            probs.append(f"request {r.id} recorded completed but its destination group has no healthy copy with bytes")
    for key, data in before_hw.items():
        n = db.StorageNode.get(id=key[0]); f = db.ArchiveFile.get(id=key[1])
        if data is not None and w.file_on(n, f) != data:
            row = db.ArchiveFileCopy.get(file=f, node=n)
            if row.has_file == "Y" and row.wants_file == "Y":
                probs.append(f"bytes of the healthy wanted copy of {f.name} on {n.name} were lost or changed")
    return probs


def run_to_fixed_point(e, w, max_rounds=8):
    d = worldmod.Daemon(e, "h1")
    sig = None
    for i in range(max_rounds):
        d.drain(); d.iterate(); d.drain()
        s = json.dumps(envmod.dump_index(), sort_keys=True, default=str)
        if s == sig:
            return i
        sig = s
    return max_rounds


def essential(w):
    db = w.db
    out = {"files": sorted((f.acq.name, f.name, f.size_b, f.md5sum) for f in db.ArchiveFile.select()), "copies": {}, "bytes": {}}
    for c in db.ArchiveFileCopy.select():
        out["copies"][f"{c.file_id}@{c.node_id}"] = (c.has_file, c.wants_file)
    for n in db.StorageNode.select():
        for f in db.ArchiveFile.select():
            out["bytes"][f"{f.id}@{n.id}"] = w.file_on(n, f) is not None
    out["imports_done"] = sorted((r.path, bool(r.completed)) for r in db.ArchiveFileImportRequest.select())
    # the directories left on each node ("gone from its source exactly as an uninterrupted run leaves it")
    out["dirs"] = {}
    for n in db.StorageNode.select():
        ds = []
        for dp, dn, fn in os.walk(n.root):
            for d_ in dn:
                if not d_.startswith(".alpentemp"):      # scratch directories of a killed transfer are the tidy-up task's business
                    ds.append(os.path.relpath(os.path.join(dp, d_), n.root))
        out["dirs"][n.name] = sorted(ds)
    return out


def child_run(e, kind, k):
    """in the forked child: run one update pass, then the tasks, dying before the k-th primitive"""
    e.reconnect()
    count = [0]
    armed = [False]

    def tick():
        if not armed[0]:
            return
        if count[0] == k:
            os._exit(137)
        count[0] += 1

    def hook(event, args):
        if event in PRIMS:
            tick()
        elif event == "open" and len(args) >= 2 and isinstance(args[1], str) and any(ch in args[1] for ch in "wax+"):
            p = str(args[0])
            if "/roots/" in p:
                tick()
    sys.addaudithook(hook)
    envmod.verif_dbext.CTL["stmt_hook"] = lambda sql, params, idx: tick() if not sql.lstrip().upper().startswith(("SELECT", "PRAGMA")) else None
    d = worldmod.Daemon(e, "h1")
    d.iterate()
    armed[0] = True
    d.drain()
    armed[0] = False
    os._exit(0 if count[0] <= k else 1)


def sweep(ctx, e, kind, variant, route):
    os.environ["PATH"] = os.path.join(wharness.FAKE, route)
    ctl = os.path.join(e.tmp, "toolctl.json")
    with open(ctl, "w") as fh:
        json.dump({"mode": "ok"}, fh)
    os.environ["VERIF_TOOL_CTL"] = ctl
    # reference: uninterrupted run to a fixed point
    w, o = build(e, kind, variant)
    run_to_fixed_point(e, w)
    ref = essential(w)
    k = 0
    while k < 80:
        w, o = build(e, kind, variant)
        before_hw = healthy_wanted(w)
        e.db.close()
        pid = os.fork()
        if pid == 0:
            try:
                child_run(e, kind, k)
            finally:
                os._exit(3)
        _, status = os.waitpid(pid, 0)
        code = os.waitstatus_to_exitcode(status)
        e.reconnect()
        w.db = e.db
        if code == 0:
            break                      # the run completed without reaching primitive k: all crash points covered
        if code != 137:
            ctx.notes.append(f"child for {kind}/{variant} k={k} exited with {code}")
            k += 1
            continue
        ctx.count(f"crash:{kind}")
        probs = crash_inv(w, before_hw)
        for p in probs:
            ctx.violation(f"crashinv:{kind}:{p[:30]}", f"{kind} task killed before its primitive #{k}: {p}",
                          {"kind": "crash", "task": kind, "variant": variant, "route": route, "k": k})
        # restart and converge
        try:
            rounds = run_to_fixed_point(e, w)
            got = essential(w)
        except Exception as ex:  # noqa
            ctx.violation(f"recover:{kind}:raised", f"{kind} task killed before primitive #{k}: the restarted daemon raised {type(ex).__name__}: {ex}",
                          {"kind": "crash", "task": kind, "variant": variant, "k": k})
            k += 1
            continue
        ctx.case(("crash", kind, variant, route, k), nontrivial=True,
                 sample={"task": kind, "route": route, "killed_before_primitive": k, "rounds_to_recover": rounds,
                         "copies_after_recovery": got["copies"]} if k == 3 and len(ctx.samples) < 5 else None)
        for p in crash_inv(w, {}):
            ctx.violation(f"recover:{kind}:{p[:30]}", f"after recovery from a kill before primitive #{k} of {kind}: {p}",
                          {"kind": "crash", "task": kind, "variant": variant, "k": k})
        if kind == "delete" and got["dirs"] != ref["dirs"]:
            dd = {n_: (ref["dirs"].get(n_), got["dirs"].get(n_)) for n_ in ref["dirs"] if ref["dirs"].get(n_) != got["dirs"].get(n_)}
            ctx.violation(f"recover:{kind}:directories", f"{kind} task killed before primitive #{k}: after restart and convergence the "
                          f"directories on storage differ from what an uninterrupted run leaves (node: (uninterrupted, after crash)): {dd}",
                          {"kind": "crash", "task": kind, "variant": variant, "route": route, "k": k})
        if got != ref:
            diff = {sec: {x: (ref[sec].get(x), got[sec].get(x)) for x in set(ref[sec]) | set(got[sec]) if ref[sec].get(x) != got[sec].get(x)}
                    for sec in ("copies", "bytes")}
            if got["files"] != ref["files"] or any(diff.values()) or got["imports_done"] != ref["imports_done"]:
                dest_ok = got["copies"].get(f"{o['f'].id}@{o['n2'].id}") == ref["copies"].get(f"{o['f'].id}@{o['n2'].id}")
                only_rules = kind == "pull" and dest_ok and got["files"] == ref["files"] and \
                    all(x.split("@")[1] != str(o["n2"].id) for sec in diff.values() for x in sec)
                ctx.violation("pull-rules-not-replayed" if only_rules else f"recover:{kind}:differs", f"{kind} task killed before primitive #{k}: after restart the daemons do not reach the "
                              f"state an uninterrupted run reaches: {json.dumps(diff, default=str)[:300]}",
                              {"kind": "crash", "task": kind, "variant": variant, "route": route, "k": k, "ref": ref, "got": got})
        k += 1
    ctx.coverage.setdefault("primitives_per_task", {})[f"{kind}/{variant}/{route}"] = k


def run(ctx):
    ok = common.proof_stage(ctx, MODULE)
    scen = [("pull", 0, "none"), ("pull", 1, "rsync-only"), ("pull", 1, "none"), ("pull", 6, "none"), ("pull", 7, "rsync-only"), ("pull", 8, "none"), ("pull", 9, "rsync-only"), ("delete", 0, "none"), ("delete", 13, "none"), ("check", 0, "none"), ("import", 0, "none")]
    if not ctx.quick():
        scen += [("pull", v, r) for v in (2, 3, 4, 5) for r in ("none", "rsync-only")] + [("delete", 1, "none"), ("import", 1, "none")]
    with envmod.CliEnv() as e:
        for kind, variant, route in scen:
            sweep(ctx, e, kind, variant, route)
    os.environ["PATH"] = "/usr/local/bin:/usr/bin:/bin"
    ctx.coverage["exhaustive"] = True
    ctx.coverage["rule"] = ("for each task type (pull by hard link / scripted rsync / internal copy, delete, check, import) on a fixed world: the "
                            "real update pass runs, then the tasks run in a forked child that is killed (os._exit, no clean-up) before its "
                            "k-th primitive effect (every non-SELECT statement, every mutating file-system call seen by an audit hook, every "
                            "tool start), for every k; the parent then checks the crash invariant on the real index and storage, restarts "
                            "the daemon, runs rounds to a fixed point and compares the essential state with an uninterrupted run. "
                            "distinct = (task, variant, route, k)")
    ctx.assumptions.append("crash = process death; power loss, unsynced page cache and SQLite journal durability are outside")
    from props.c06 import finish_search
    finish_search(ctx, ok)


def replay(ctx, path):
    import sys
    return common.replay_by_rerun(ctx, path, sys.modules[__name__])
