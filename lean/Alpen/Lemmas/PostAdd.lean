import Alpen.Model.PostAdd
/-! Helper lemmas on `stateOnNode` / `syncEdges` / `cleanEdges` / `releaseIf`. Core Lean only. -/
namespace Alpen

theorem any_has_iff (cs : List PCopy) (s : Has) :
    cs.any (·.has == s) = true ↔ ∃ c ∈ cs, c.has = s := by
  simp [List.any_eq_true]

theorem prio_aux (a b c : Bool) (p q r : Prop) (ha : a = true ↔ p) (hb : b = true ↔ q)
    (hc : c = true ↔ r) (s : Has)
    (hs : s = if a then Has.Y else if b then .M else if c then .X else .N) :
    (s = .Y ↔ p) ∧ (s = .M ↔ ¬p ∧ q) ∧ (s = .X ↔ (¬p ∧ ¬q) ∧ r) ∧ (s = .N ↔ ¬p ∧ ¬q ∧ ¬r) := by
  subst hs
  cases a <;> cases b <;> cases c <;> simp_all

/-- the priority rule on an arbitrary list of copies -/
theorem statePriority_spec (cs : List PCopy) (s : Has)
    (hs : s = if cs.any (·.has == .Y) then Has.Y
      else if cs.any (·.has == .M) then .M
      else if cs.any (·.has == .X) then .X
      else .N) :
    (s = .Y ↔ ∃ c ∈ cs, c.has = .Y) ∧
    (s = .M ↔ (∀ c ∈ cs, c.has ≠ .Y) ∧ ∃ c ∈ cs, c.has = .M) ∧
    (s = .X ↔ (∀ c ∈ cs, c.has ≠ .Y ∧ c.has ≠ .M) ∧ ∃ c ∈ cs, c.has = .X) ∧
    (s = .N ↔ ∀ c ∈ cs, c.has = .N) := by
  have hN : (∀ c ∈ cs, c.has = .N) ↔
      (¬ ∃ c ∈ cs, c.has = .Y) ∧ (¬ ∃ c ∈ cs, c.has = .M) ∧ (¬ ∃ c ∈ cs, c.has = .X) := by
    constructor
    · intro h
      refine ⟨?_, ?_, ?_⟩ <;> (rintro ⟨c, hc, hh⟩; have := h c hc; rw [hh] at this; cases this)
    · rintro ⟨h1, h2, h3⟩ c hc
      cases hh : c.has
      · rfl
      · exact absurd ⟨c, hc, hh⟩ h1
      · exact absurd ⟨c, hc, hh⟩ h2
      · exact absurd ⟨c, hc, hh⟩ h3
  have e1 : (∀ c ∈ cs, c.has ≠ .Y) ↔ ¬ ∃ c ∈ cs, c.has = .Y := by
    constructor
    · rintro h ⟨c, hc, hh⟩; exact h c hc hh
    · intro h c hc hh; exact h ⟨c, hc, hh⟩
  have e2 : (∀ c ∈ cs, c.has ≠ .Y ∧ c.has ≠ .M) ↔
      (¬ ∃ c ∈ cs, c.has = .Y) ∧ (¬ ∃ c ∈ cs, c.has = .M) := by
    constructor
    · intro h
      exact ⟨fun ⟨c, hc, hh⟩ => (h c hc).1 hh, fun ⟨c, hc, hh⟩ => (h c hc).2 hh⟩
    · rintro ⟨h1, h2⟩ c hc
      exact ⟨fun hh => h1 ⟨c, hc, hh⟩, fun hh => h2 ⟨c, hc, hh⟩⟩
  rw [hN, e1, e2]
  exact prio_aux _ _ _ _ _ _ (any_has_iff cs .Y) (any_has_iff cs .M) (any_has_iff cs .X) s hs

/-- for a rule out of `node`, "destination differs from the group of `node`" is exactly "not a
    self-loop" -/
theorem syncPred_eq (nodes : List PNode) (copies : List PCopy) (node file : Nat) (e : PEdge) :
    (e.nodeFrom == node && some e.groupTo != groupOf nodes node && e.autosync
        && stateOnNode nodes copies e.groupTo file != .Y) =
    (e.nodeFrom == node && e.autosync && !selfLoop nodes e &&
        stateOnNode nodes copies e.groupTo file != .Y) := by
  by_cases h : e.nodeFrom = node
  · subst h
    unfold selfLoop
    by_cases h2 : groupOf nodes e.nodeFrom = some e.groupTo
    · simp [h2]
    · have h3 : some e.groupTo ≠ groupOf nodes e.nodeFrom := fun h => h2 h.symm
      have l : (some e.groupTo != groupOf nodes e.nodeFrom) = true := bne_iff_ne.mpr h3
      have r : (groupOf nodes e.nodeFrom == some e.groupTo) = false := beq_eq_false_iff_ne.mpr h2
      rw [l, r]
      cases e.autosync <;> simp
  · have hb : (e.nodeFrom == node) = false := beq_eq_false_iff_ne.mpr h
    simp [hb]

theorem syncEdges_eq (nodes : List PNode) (edges : List PEdge) (copies : List PCopy)
    (node file : Nat) :
    syncEdges nodes edges copies node file =
      edges.filter (fun e => e.nodeFrom == node && e.autosync && !selfLoop nodes e &&
          stateOnNode nodes copies e.groupTo file != .Y) := by
  unfold syncEdges
  exact List.filter_congr (fun e _ => syncPred_eq nodes copies node file e)

theorem mem_syncEdges (nodes : List PNode) (edges : List PEdge) (copies : List PCopy)
    (node file : Nat) (e : PEdge) :
    e ∈ syncEdges nodes edges copies node file ↔
      e ∈ edges ∧ e.nodeFrom = node ∧ e.autosync = true ∧ selfLoop nodes e = false ∧
        stateOnNode nodes copies e.groupTo file ≠ .Y := by
  rw [syncEdges_eq, List.mem_filter]
  simp [Bool.and_eq_true, and_assoc]

theorem mem_cleanSrcs (nodes : List PNode) (edges : List PEdge) (node n : Nat) :
    ((cleanEdges nodes edges node).map (·.nodeFrom)).contains n = true ↔
      ∃ e ∈ edges, some e.groupTo = groupOf nodes node ∧ e.autoclean = true ∧
        selfLoop nodes e = false ∧ e.nodeFrom ≠ node ∧ e.nodeFrom = n := by
  rw [List.contains_iff_mem, List.mem_map]
  unfold cleanEdges
  constructor
  · rintro ⟨e, he, rfl⟩
    rw [List.mem_filter] at he
    obtain ⟨he, hp⟩ := he
    simp only [Bool.and_eq_true, beq_iff_eq, bne_iff_ne, Bool.not_eq_true'] at hp
    exact ⟨e, he, hp.1.1.1, hp.1.2, hp.2, hp.1.1.2, rfl⟩
  · rintro ⟨e, he, h1, h2, h3, h4, rfl⟩
    refine ⟨e, List.mem_filter.mpr ⟨he, ?_⟩, rfl⟩
    simp only [Bool.and_eq_true, beq_iff_eq, bne_iff_ne, Bool.not_eq_true']
    exact ⟨⟨⟨h1, h4⟩, h2⟩, h3⟩

theorem releaseIf_fires (srcs : List Nat) (file : Nat) (c : PCopy)
    (h : c.file = file ∧ c.has = .Y ∧ c.wants = .Y ∧ srcs.contains c.node = true) :
    releaseIf srcs file c = { c with wants := .N } := by
  obtain ⟨h1, h2, h3, h4⟩ := h
  have h4' := List.contains_iff_mem.mp h4
  simp [releaseIf, h1, h2, h3, h4']

theorem releaseIf_skips (srcs : List Nat) (file : Nat) (c : PCopy)
    (h : ¬ (c.file = file ∧ c.has = .Y ∧ c.wants = .Y ∧ srcs.contains c.node = true)) :
    releaseIf srcs file c = c := by
  unfold releaseIf
  split
  · rename_i hc
    simp only [Bool.and_eq_true, beq_iff_eq] at hc
    exact absurd ⟨hc.1.1.1, hc.1.2, hc.2, hc.1.1.2⟩ h
  · rfl

end Alpen
