import Alpen.Model.Str
import Alpen.Model.Walker
/-!
Line-protocol driver: one operation per line on stdin, one canonical answer line on
stdout.  Strings travel as comma-separated code points (`-` = empty string).
Core Lean only (so this links as a `lean_exe`).
-/
open Alpen

namespace Drv

def decStr (t : String) : Option Str :=
  if t = "-" then some [] else
  (t.splitOn ",").mapM (fun x => x.toNat?.map Char.ofNat)

def encStr (s : Str) : String :=
  if s.isEmpty then "-" else ",".intercalate (s.map (fun c => toString c.toNat))

def encBool (b : Bool) : String := if b then "1" else "0"

def decNats (t : String) : Option (List Nat) :=
  if t = "-" then some [] else (t.splitOn ",").mapM (·.toNat?)

def encNats (l : List Nat) : String :=
  if l.isEmpty then "-" else ",".intercalate (l.map toString)

def decBool (t : String) : Option Bool :=
  if t = "1" then some true else if t = "0" then some false else none

def decInt (t : String) : Option Int := t.toInt?

/-- `id:int` pairs -/
def decPairsNI (t : String) : Option (List (Nat × Int)) :=
  if t = "-" then some [] else
  (t.splitOn ",").mapM (fun x => match x.splitOn ":" with
    | [a, b] => do pure (← a.toNat?, ← b.toInt?)
    | _ => none)

def pure1 (toks : List String) : Option String :=
  match toks with
  | ["iip", s] => do
      let s ← decStr s
      match invalidImportPath s with
      | none => pure "none"
      | some i => pure s!"some {i}"
  | ["normpath", s] => do
      let s ← decStr s
      pure (encStr (normpath s))
  | ["canon", s] => do
      let s ← decStr s
      pure (encBool (decide (Canonical s)))
  | ["walk", tbl, c, k] => do
      let tbl ← decNats tbl; let c ← c.toNat?; let k ← k.toNat?
      match walkerGet tbl c k with
      | .valueError => pure "valueError"
      | .doesNotExist => pure "doesNotExist"
      | .ok items c' => pure s!"ok {encNats items} {c'}"
  | ["avsel", now, minDays, batch] => do
      let now ← decInt now; let md ← decInt minDays; let b ← decPairsNI batch
      pure (encNats (autoVerifySelect now md b))
  | _ => none

end Drv

partial def loop (h : IO.FS.Stream) (out : IO.FS.Stream) : IO Unit := do
  let line ← h.getLine
  if line.isEmpty then return ()
  let toks := (line.trimAscii.toString.splitOn " ").filter (· ≠ "")
  match Drv.pure1 toks with
  | some r => out.putStrLn r
  | none => out.putStrLn "bad-op"
  loop h out

def main : IO Unit := do
  let out ← IO.getStdout
  loop (← IO.getStdin) out
  out.flush
