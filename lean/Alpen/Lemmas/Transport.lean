import Alpen.Model.Transport
/-! lemmas about `minKey` -/
namespace Alpen

theorem minKey_mem (best : Option TNode) (l : List TNode) (r : TNode) (h : minKey best l = some r) :
    best = some r ∨ r ∈ l := by
  induction l generalizing best with
  | nil => left; simpa [minKey] using h
  | cons n ns ih =>
    cases best with
    | none =>
      simp only [minKey] at h
      rcases ih _ h with h1 | h1
      · right; simp at h1; rw [h1]; exact List.mem_cons_self
      · right; exact List.mem_cons_of_mem _ h1
    | some b =>
      simp only [minKey] at h
      split at h
      · rcases ih _ h with h1 | h1
        · right; simp at h1; rw [h1]; exact List.mem_cons_self
        · right; exact List.mem_cons_of_mem _ h1
      · rcases ih _ h with h1 | h1
        · left; exact h1
        · right; exact List.mem_cons_of_mem _ h1

theorem minKey_le (best : Option TNode) (l : List TNode) (r : TNode) (h : minKey best l = some r) :
    (∀ b, best = some b → r.key ≤ b.key) ∧ ∀ m ∈ l, r.key ≤ m.key := by
  induction l generalizing best with
  | nil =>
    simp only [minKey] at h
    exact ⟨fun b hb => (by rw [h] at hb; cases hb; exact Int.le_refl _), fun m hm => (by cases hm)⟩
  | cons n ns ih =>
    cases best with
    | none =>
      simp only [minKey] at h
      obtain ⟨h1, h2⟩ := ih _ h
      refine ⟨fun b hb => (by cases hb), fun m hm => ?_⟩
      rcases List.mem_cons.mp hm with rfl | hm
      · exact h1 _ rfl
      · exact h2 m hm
    | some b =>
      simp only [minKey] at h
      split at h
      · rename_i hlt
        obtain ⟨h1, h2⟩ := ih _ h
        have hn := h1 n rfl
        refine ⟨fun b' hb' => (by cases hb'; omega), fun m hm => ?_⟩
        rcases List.mem_cons.mp hm with rfl | hm
        · exact hn
        · exact h2 m hm
      · rename_i hge
        obtain ⟨h1, h2⟩ := ih _ h
        have hb := h1 b rfl
        refine ⟨fun b' hb' => (by cases hb'; exact hb), fun m hm => ?_⟩
        rcases List.mem_cons.mp hm with rfl | hm
        · omega
        · exact h2 m hm

theorem minKey_none (l : List TNode) : minKey none l = none ↔ l = [] := by
  cases l with
  | nil => simp [minKey]
  | cons n ns =>
    simp only [minKey]
    constructor
    · intro h
      have : ∀ (b : TNode) (l : List TNode), minKey (some b) l ≠ none := by
        intro b l
        induction l generalizing b with
        | nil => simp [minKey]
        | cons m ms ih => simp only [minKey]; split <;> exact ih _
      exact absurd h (this n ns)
    · intro h; cases h
theorem eq_of_nodup_map {α β} (f : α → β) (l : List α) (hd : (l.map f).Nodup) (a b : α) (ha : a ∈ l) (hb : b ∈ l)
    (h : f a = f b) : a = b := by
  induction l with
  | nil => cases ha
  | cons x xs ih =>
    simp only [List.map_cons, List.nodup_cons, List.mem_map, not_exists, not_and] at hd
    rcases List.mem_cons.mp ha with rfl | ha' <;> rcases List.mem_cons.mp hb with rfl | hb'
    · rfl
    · exact absurd h.symm (hd.1 b hb')
    · exact absurd h (hd.1 a ha')
    · exact ih hd.2 ha' hb'

/-- the node `pull_force` hands a request to is local-sourced, a member, eligible and the fullest eligible one -/
theorem C05_transport_pick_sound (srcLocal : Bool) (nodes : List TNode) (id : Nat)
    (h : transportPick srcLocal nodes = some id) :
    srcLocal = true ∧ ∃ n ∈ nodes, n.id = id ∧ n.eligible = true ∧ ∀ m ∈ nodes, m.eligible = true → n.key ≤ m.key := by
  unfold transportPick at h
  split at h
  · rename_i hl
    cases hm : minKey none (nodes.filter TNode.eligible) with
    | none => simp [hm] at h
    | some r =>
      simp [hm] at h
      have hmem := minKey_mem none _ r hm
      have hle := (minKey_le none _ r hm).2
      rcases hmem with hb | hmem
      · cases hb
      · obtain ⟨h1, h2⟩ := List.mem_filter.mp hmem
        exact ⟨hl, r, h1, h, h2, fun m hm' he => hle m (List.mem_filter.mpr ⟨hm', he⟩)⟩
  · cases h

end Alpen
