"""C03 — verification verdicts: real check_async / md5sum_file / validate_md5 vs Lean models vs property oracle."""
import contextlib
import hashlib
import io
import itertools
import json
import os

import common
import env as envmod
from common import enc, dec

MODULE = "Alpen.Props.C03"
BS = 32768
CHUNK = BS * 1024


def hexdigest(b):
    return hashlib.md5(b).hexdigest()


def expected_verdict(path, reg_size, reg_md5):
    """oracle from the property text, on the real bytes"""
    if not os.path.exists(path):
        return "N"
    data = open(path, "rb").read()
    ok = hexdigest(data) == reg_md5 and (reg_size is None or len(data) == reg_size)
    return "Y" if ok else "X"


def content_of(rng, n):
    if n <= 4096:
        return bytes(rng.getrandbits(8) for _ in range(n))
    seed = bytes(rng.getrandbits(8) for _ in range(1024))
    return (seed * (n // 1024 + 1))[:n]


def damage(rng, data, kind):
    if kind == "none":
        return data
    if kind == "truncate":
        return data[:max(0, len(data) - rng.choice([1, 2, len(data) // 2 + 1]))] if data else b""
    if kind == "extend":
        return data + b"\x00" * rng.choice([1, 7])
    if kind == "flip":
        if not data:
            return b"\x01"
        i = rng.randrange(len(data))
        return data[:i] + bytes([data[i] ^ 0x40]) + data[i + 1:]
    if kind == "replace":
        return bytes((b + 1) % 256 for b in data[:64]) + data[64:] if data else b"x"
    if kind == "delete":
        return None
    raise ValueError(kind)


def stage_verdict(ctx, e):
    """registrations made through the real CLI, then a real check_async"""
    from alpenhorn.db import ArchiveAcq, ArchiveFile, ArchiveFileCopy, StorageGroup, StorageNode
    from alpenhorn.io.default import DefaultNodeIO
    from alpenhorn.io._default_asyncs import check_async
    from alpenhorn.scheduler import FairMultiFIFOQueue
    rng = ctx.rng
    root = e.root("n1")
    e.cli(["group", "create", "g1"])
    e.cli(["node", "create", "n1", "--group", "g1", "--root", root, "--host", "h1"])
    e.cli(["acq", "create", "acq"])
    sizes = [0, 1, 5, BS - 1, BS, BS + 1, 3 * BS + 17]
    big = [CHUNK - 1, CHUNK, CHUNK + 1] if ctx.quick() else [CHUNK - 1, CHUNK, CHUNK + 1, 2 * CHUNK, 2 * CHUNK + 5]
    cases = []
    kinds = ["none", "truncate", "extend", "flip", "replace", "delete"]
    spell = ["lower", "upper", "mixed"]
    plan = []
    for s in sizes:
        for k in kinds:
            plan.append((s, k, rng.choice(spell), rng.choice(["create", "create", "modify", "import-like", "from-file"])))
    for s in big:
        plan.append((s, rng.choice(["none", "flip", "truncate"]), "lower", "create"))
    # registered size that differs from the content although the digest matches (size clause), incl. registered size 0
    plan += [(5, "none", "lower", "modify-size0"), (0, "extend", "lower", "from-file"), (1, "none", "upper", "modify-size+1"),
             (0, "none", "lower", "from-file"), (0, "none", "lower", "modify")]
    if not ctx.quick():
        plan = plan * 3
    ops, metas = [], []
    for idx, (n, kind, sp, how) in enumerate(plan):
        data = content_of(rng, n)
        md5 = hexdigest(data)
        typed = {"lower": md5, "upper": md5.upper(), "mixed": "".join(c.upper() if i % 2 else c for i, c in enumerate(md5))}[sp]
        name = f"d{idx}/f{idx}.dat"
        # --- register through the real CLI
        if how == "from-file":
            os.makedirs(os.path.join(e.tmp, "src", "acq", f"d{idx}"), exist_ok=True)
            with open(os.path.join(e.tmp, "src", "acq", name), "wb") as f:
                f.write(data)
            rc, out, exc = e.cli(["file", "create", name, "acq", "--from-file", "--prefix", os.path.join(e.tmp, "src")])
        elif n == 0:
            # `file create --md5 … --size 0` is refused by the CLI (size 0 is falsy in both_or_neither): use modify
            rc, out, exc = e.cli(["file", "create", name, "acq", "--md5", typed, "--size", "1"])
            rc, out, exc = e.cli(["file", "modify", "acq/" + name, "--size", "0", "--no-reverify"])
        else:
            rc, out, exc = e.cli(["file", "create", name, "acq", "--md5", typed if how != "modify" else "0" * 32, "--size", str(n)])
        if how in ("modify",) and n != 0:
            rc, out, exc = e.cli(["file", "modify", "acq/" + name, "--md5", typed, "--no-reverify"])
        if how == "modify-size0":
            rc, out, exc = e.cli(["file", "modify", "acq/" + name, "--size", "0", "--no-reverify"])
        if how == "modify-size+1":
            rc, out, exc = e.cli(["file", "modify", "acq/" + name, "--size", str(n + 1), "--no-reverify"])
        if exc is not None:
            ctx.notes.append(f"CLI raised {exc!r} for {how}")
        try:
            frow = ArchiveFile.select().join(ArchiveAcq).where(ArchiveAcq.name == "acq", ArchiveFile.name == name).get()
        except Exception:
            ctx.count("registration-refused")
            continue
        reg_size, reg_md5 = frow.size_b, frow.md5sum
        # --- put (possibly damaged) bytes on the node
        path = os.path.join(root, "acq", name)
        os.makedirs(os.path.dirname(path), exist_ok=True)
        on_disk = damage(rng, data, kind)
        if on_disk is not None:
            with open(path, "wb") as f:
                f.write(on_disk)
            st0 = os.stat(path)
        node = StorageNode.get(name="n1")
        copy = ArchiveFileCopy.create(file=frow, node=node, has_file="M", wants_file="Y")
        io = DefaultNodeIO(node, {}, FairMultiFIFOQueue())
        check_async(None, io, ArchiveFileCopy.get(id=copy.id))
        real = ArchiveFileCopy.get(id=copy.id).has_file
        # --- file untouched?
        if on_disk is not None:
            st1 = os.stat(path)
            after = open(path, "rb").read()
            if after != on_disk or st1.st_mtime_ns != st0.st_mtime_ns or st1.st_ino != st0.st_ino:
                ctx.violation("modified:" + kind, "verification modified the file it checked",
                              {"kind": "verdict", "size": n, "damage": kind})
        elif os.path.exists(path):
            ctx.violation("created:" + kind, "verification created a file", {"kind": "verdict", "size": n, "damage": kind})
        exp = expected_verdict(path, reg_size, md5 if True else None) if False else None
        # oracle: healthy iff bytes exist, md5 == the digest the operator registered (value!), and size matches when registered
        if not os.path.exists(path):
            exp = "N"
        else:
            d = open(path, "rb").read()
            typed_value_matches = hexdigest(d) == md5          # the operator registered the digest of `data`
            exp = "Y" if typed_value_matches and (reg_size is None or len(d) == reg_size) else "X"
        tag = f"{how}:{sp}:size={'0' if n == 0 else ('big' if n >= CHUNK - 1 else 'n')}:regsize={reg_size if reg_size in (None, 0) else 'n'}:{kind}"
        ctx.count("verdict:" + real)
        ctx.case(("verdict", idx, n, kind, sp, how), nontrivial=True,
                 sample={"registered_via": how, "typed_md5": typed, "stored_md5": reg_md5, "stored_size": reg_size,
                         "content_len": n, "damage": kind, "verdict": real, "expected": exp} if len(ctx.samples) < 3 else None)
        if real != exp:
            why = ("spelling" if reg_md5 is not None and reg_md5 != md5 else
                   "regsize0" if reg_size == 0 else "regsizeNone" if reg_size is None else "other")
            ctx.violation(f"verdict-{why}:" + tag, f"check recorded '{real}', the rule gives '{exp}' "
                          f"(registered via {how}: typed md5 {typed}, stored md5 {reg_md5}, stored size {reg_size}; "
                          f"on disk: {'absent' if on_disk is None else str(len(on_disk)) + ' bytes'}, damage={kind})",
                          {"kind": "verdict", "how": how, "typed": typed, "stored_md5": reg_md5, "stored_size": reg_size,
                           "content_len": n, "damage": kind, "real": real, "expected": exp})
        # model line
        ex = on_disk is not None
        dig = enc(hexdigest(on_disk)) if ex else "none"
        ops.append(f"verdict {int(ex)} 1 {len(on_disk) if ex else 0} {dig} {'-' if reg_size is None else reg_size} "
                   f"{'none' if reg_md5 is None else enc(reg_md5)}")
        metas.append((real, tag))
        os.path.exists(path) and os.remove(path)
    outs = common.Driver().batch(ops)
    for (real, tag), out in zip(metas, outs):
        if real != out:
            ctx.corr_broken.append({"stream": "check_async-vs-checkVerdict", "case": tag, "real": real, "model": out})


def stage_md5(ctx, e):
    """_md5sum_file: bytes fed to the hash, block structure for small files, digest for boundary sizes"""
    import alpenhorn.common.util as util
    rng = ctx.rng
    fed = []

    class Rec:
        def __init__(self):
            self.h = hashlib.md5()
        def update(self, b):
            fed.append(len(b))
            self.h.update(b)
        def hexdigest(self):
            return self.h.hexdigest()

    class Shim:
        md5 = staticmethod(lambda *a: Rec())
    sizes = [0, 1, BS - 1, BS, BS + 1, 2 * BS, 2 * BS + 3, 5 * BS, CHUNK - 1, CHUNK, CHUNK + 1]
    if not ctx.quick():
        sizes += [2 * CHUNK, 2 * CHUNK + 5, 3 * CHUNK - 1]
    ops, metas = [], []
    real_hashlib = util.hashlib
    util.hashlib = Shim
    try:
        for n in sizes:
            data = content_of(rng, n)
            p = os.path.join(e.tmp, "md5test.bin")
            with open(p, "wb") as f:
                f.write(data)
            fed.clear()
            got = util.md5sum_file(p)
            lens = list(fed)
            ctx.case(("md5", n), nontrivial=True, sample={"len": n, "blocks_fed": len(lens), "digest": got} if n in (BS + 1,) else None)
            ctx.count("md5:" + ("multi-chunk" if n > CHUNK else "single-chunk"))
            if got != hexdigest(data) or sum(lens) != n:
                ctx.violation(f"md5:{n}", f"md5sum_file of a {n}-byte file fed {sum(lens)} bytes and returned {got}, expected {hexdigest(data)}",
                              {"kind": "md5", "len": n, "fed": sum(lens), "got": got})
            if n <= 6 * BS:
                ops.append(f"md5lens {BS} 1024 {n}")
                metas.append((n, lens))
    finally:
        util.hashlib = real_hashlib
    outs = common.Driver().batch(ops)
    for (n, lens), out in zip(metas, outs):
        m = [int(x) for x in out.split(",")] if out != "-" else []
        if m != lens:
            ctx.corr_broken.append({"stream": "_md5sum_file-blocks-vs-md5Blocks", "len": n, "real": lens[:8], "model": m[:8]})


def validator_strings(ctx):
    stem = "0123456789abcdef0123456789ab"          # 28 chars
    alpha = "0aFg_+- x"
    seen = set()
    for L in (3, 4, 5):
        for t in itertools.product(alpha, repeat=L):
            s = stem[:28] + "".join(t)
            # window inside the string as well as at the end / start
            for cand in (s, "".join(t) + stem[:28], stem[:14] + "".join(t) + stem[14:28]):
                if cand not in seen:
                    seen.add(cand)
                    yield cand
        if ctx.quick() and L == 4:
            break
    rng = ctx.rng
    pool = "0123456789abcdefABCDEF" * 3 + "_+- xg\t\n０１"
    for _ in range(3000 if ctx.quick() else 50000):
        n = rng.choice([30, 31, 32, 32, 32, 32, 33, 34])
        s = "".join(rng.choice(pool) for _ in range(n))
        if s not in seen:
            seen.add(s)
            yield s
    fixed = ["", "0" * 32, "F" * 32, "0x" + "0" * 30, " " * 32, "+" + "1" * 31, "1_" * 16, "１" * 32]
    # a correct digest (and one a character short) with one control / separator character before or after it: what a script
    # passes when it reads a .md5 side-car file without stripping it
    for v in ("0123456789abcdef0123456789abcdef", "ABCDEF0123456789abcdef0123456789", "d41d8cd98f00b204e9800998ecf8427e"):
        for c in ("\n", "\r", "\r\n", "\t", "\x0b", "\x0c", "\x00", "\x1c", "\x1f", "\x85", "\u2028", "\u00a0", "  ", " \n"):
            fixed += [v + c, c + v, v[:31] + c, c + v[1:], v[:16] + c + v[16:]]
    for s in fixed:
        if s not in seen:
            seen.add(s)
            yield s


def stage_validator(ctx, e):
    import click
    from alpenhorn.cli.options import validate_md5
    from alpenhorn.cli.file.create import create
    from alpenhorn.db import ArchiveAcq, ArchiveFile
    acq = ArchiveAcq.create(name="vacq")
    ss = list(validator_strings(ctx))
    outs = common.Driver().batch(["valmd5 " + enc(s) for s in ss])
    nacc = 0
    for i, (s, out) in enumerate(zip(ss, outs)):
        try:
            validate_md5(s)
            acc = True
        except click.ClickException:
            acc = False
        macc = out != "none"
        ctx.case(("val", s), nontrivial=len(s) == 32, sample=None)
        ctx.count("validator:" + ("accept" if acc else "reject"))
        if acc != macc:
            ctx.corr_broken.append({"stream": "validate_md5-vs-validateMd5", "input": s, "real_accepts": acc, "model": out})
        if acc:
            nacc += 1
            # what does the CLI store for it?  (the command's own function, same transaction code)
            name = f"v{i}"
            try:
                with contextlib.redirect_stdout(io.StringIO()):
                    create.callback(name=name, acq_name="vacq", from_file=False, md5=s, prefix=None, size=1)
                stored = ArchiveFile.get(name=name, acq=acq).md5sum
            except Exception as ex:  # noqa
                stored = f"<{type(ex).__name__}>"
            try:
                v = int(s, 16)
                canon = "%032x" % v if 0 <= v < 2 ** 128 else None
            except ValueError:
                canon = None
            if macc and stored != dec(out):
                ctx.corr_broken.append({"stream": "file-create-stored-md5-vs-validateMd5", "input": s, "stored": stored, "model": dec(out)})
            if stored != canon:
                cls = ("upper" if s.lower() != s else "") + ("_" if "_" in s else "") + ("sign" if s[:1] in "+-" or " +" in s or " -" in s else "") + \
                      ("space" if s.strip() != s else "") + ("x" if "x" in s.lower() else "") + ("unicode" if not s.isascii() else "")
                ctx.violation("validator:" + (cls or "other"),
                              f"CLI accepts md5 {s!r} and stores {stored!r}; a file with that digest hashes to "
                              f"{canon!r}, so it can never be judged healthy",
                              {"kind": "validator", "input": s, "stored": stored, "hexdigest_form": canon})
    ctx.coverage["validator_strings"] = len(ss)
    ctx.coverage["validator_accepted"] = nacc


def stage_stat_fault(ctx, e):
    """"missing" is recorded only when the file is absent: an intact file whose stat fails with an I/O error (EIO, ESTALE,
    EACCES; once or persistently) must not get the verdict N (nor any other verdict it has not earned)"""
    import errno
    import pathlib
    from alpenhorn.db import ArchiveAcq, ArchiveFile, ArchiveFileCopy, StorageNode
    from alpenhorn.io.default import DefaultNodeIO
    from alpenhorn.io._default_asyncs import check_async
    from alpenhorn.scheduler import FairMultiFIFOQueue
    node = StorageNode.get(name="n1")
    acq = ArchiveAcq.get(name="acq")
    real_stat = pathlib.Path.stat
    for i, (err, persistent) in enumerate([(errno.EIO, False), (errno.EIO, True), (errno.ESTALE, False), (errno.EACCES, True)]):
        data = b"intact %d" % i
        name = f"statfault/s{i}.dat"
        frow = ArchiveFile.create(acq=acq, name=name, size_b=len(data), md5sum=hexdigest(data))
        path = os.path.join(node.root, "acq", name)
        os.makedirs(os.path.dirname(path), exist_ok=True)
        with open(path, "wb") as f:
            f.write(data)
        copy = ArchiveFileCopy.create(file=frow, node=node, has_file="M", wants_file="Y")
        fired = []

        def failing_stat(self_, *a, **k):
            if str(self_) == path and (persistent or not fired):
                fired.append(1)
                raise OSError(err, os.strerror(err), path)
            return real_stat(self_, *a, **k)
        pathlib.Path.stat = failing_stat
        raised = None
        try:
            check_async(None, DefaultNodeIO(node, {}, FairMultiFIFOQueue()), ArchiveFileCopy.get(id=copy.id))
        except OSError as ex:
            raised = type(ex).__name__
        finally:
            pathlib.Path.stat = real_stat
        real = ArchiveFileCopy.get(id=copy.id).has_file
        ctx.case(("stat-fault", err, persistent), nontrivial=True)
        ctx.count(f"verdict:stat-fault:{real}{'/raised' if raised else ''}")
        if fired and real == "N":
            ctx.violation("verdict-statfault-missing", f"the check recorded the copy missing (N) although the file is on disk and intact: its "
                          f"stat had failed with {errno.errorcode[err]} ({'every time' if persistent else 'once'})",
                          {"kind": "stat-fault", "errno": errno.errorcode[err], "persistent": persistent})
        elif fired and persistent and real in ("Y", "X"):
            ctx.violation("verdict-statfault-verdict", f"the check gave the verdict {real} for a file it could not stat ({errno.errorcode[err]})",
                          {"kind": "stat-fault", "errno": errno.errorcode[err]})


def stage_read_fault(ctx, e):
    """"corrupt" is recorded only when the file differs: an intact file whose hashing fails with an I/O error (EIO / ESTALE at
    open or at the n-th read; once or every time) must not get the verdict X - nor N, nor Y unless a retry really hashed it.
    EACCES at open is the code's documented "None on error" case (an unreadable file is recorded corrupt): known finding F24."""
    import errno
    import alpenhorn.common.util as util
    from alpenhorn.db import ArchiveAcq, ArchiveFile, ArchiveFileCopy, StorageNode
    from alpenhorn.io.default import DefaultNodeIO
    from alpenhorn.io._default_asyncs import check_async
    from alpenhorn.scheduler import FairMultiFIFOQueue
    import builtins
    node = StorageNode.get(name="n1")
    acq = ArchiveAcq.get(name="acq")
    bs = 32 * 1024
    plans = [(errno.EIO, "open", False), (errno.EIO, "read0", False), (errno.EIO, "read2", False), (errno.EIO, "read2", True),
             (errno.ESTALE, "read1", False), (errno.ESTALE, "open", True), (errno.ENOSPC, "read0", True), (errno.EACCES, "open", True)]
    for i, (err, where, persistent) in enumerate(plans):
        data = bytes((j * 7 + i) % 251 for j in range(3 * bs + 17))
        name = f"readfault/r{i}.dat"
        frow = ArchiveFile.create(acq=acq, name=name, size_b=len(data), md5sum=hexdigest(data))
        path = os.path.join(node.root, "acq", name)
        os.makedirs(os.path.dirname(path), exist_ok=True)
        with open(path, "wb") as f:
            f.write(data)
        copy = ArchiveFileCopy.create(file=frow, node=node, has_file="M", wants_file="Y")
        fired = []

        class Faulty:
            def __init__(self, fh):
                self.fh, self.n = fh, 0

            def read(self, *a):
                k = self.n
                self.n += 1
                if where == f"read{k}" and (persistent or not fired):
                    fired.append(1)
                    raise OSError(err, os.strerror(err), path)
                return self.fh.read(*a)

            def __enter__(self):
                return self

            def __exit__(self, *a):
                self.fh.close()

            def __getattr__(self, nm):
                return getattr(self.fh, nm)

        def faulty_open(fn, *a, **k):
            if str(fn) == path:
                if where == "open" and (persistent or not fired):
                    fired.append(1)
                    raise OSError(err, os.strerror(err), path) if err != errno.EACCES else PermissionError(err, os.strerror(err), path)
                return Faulty(builtins.open(fn, *a, **k))
            return builtins.open(fn, *a, **k)
        util.open = faulty_open
        raised = None
        try:
            check_async(None, DefaultNodeIO(node, {}, FairMultiFIFOQueue()), ArchiveFileCopy.get(id=copy.id))
        except OSError as ex:
            raised = type(ex).__name__
        finally:
            del util.open
        real = ArchiveFileCopy.get(id=copy.id).has_file
        with builtins.open(path, "rb") as f:
            untouched = f.read() == data
        ctx.case(("read-fault", err, where, persistent), nontrivial=True)
        ctx.count(f"verdict:read-fault:{errno.errorcode[err]}:{real}{'/raised' if raised else ''}")
        if not fired:
            continue
        if not untouched:
            ctx.violation("verdict-readfault-modified", "verification modified the file", {"kind": "read-fault"})
        if err == errno.EACCES and real == "X":
            ctx.violation("unreadable-recorded-corrupt", f"an intact copy that the daemon may not read (EACCES at open) was recorded corrupt (X)",
                          {"kind": "read-fault", "errno": "EACCES", "at": where})
        elif real in ("X", "N") or (real == "Y" and persistent):
            ctx.violation("verdict-readfault", f"the check recorded the verdict {real} for an intact file (size and digest as registered) whose "
                          f"hashing failed with {errno.errorcode[err]} at {where} ({'every time' if persistent else 'once'}): it has not "
                          f"been compared with the registered digest", {"kind": "read-fault", "errno": errno.errorcode[err], "at": where,
                                                                        "persistent": persistent})


def stage_moved_node(ctx, e):
    """the verdict is about one file: a check is queued, then the operator points the node at another directory (`node modify
    --root`) before a worker runs it.  Whichever of the two directories the check looks at, existence, length and digest must
    come from the same file there: the verdict has to be the exact one for the old place or the exact one for the new place."""
    import alpenhorn.daemon.update as upd
    from alpenhorn.db import ArchiveAcq, ArchiveFile, ArchiveFileCopy, StorageNode
    from alpenhorn.scheduler import FairMultiFIFOQueue
    node = StorageNode.get(name="n1")
    old_root = node.root
    new_root = old_root.rstrip("/") + "-moved"
    acq = ArchiveAcq.get(name="acq")
    good = bytes(range(200)) * 3
    flipped = bytes([good[0] ^ 1]) + good[1:]
    # (name, bytes at the old place, bytes at the new place)
    plans = [("moved/a.dat", good, flipped), ("moved/b.dat", None, good), ("moved/c.dat", good, None), ("moved/d.dat", flipped, good),
             ("moved/e.dat", good[:-1], good), ("moved/f.dat", good, good)]

    def exact(data):
        return "N" if data is None else ("Y" if data == good else "X")
    try:
        q = FairMultiFIFOQueue()
        un = upd.UpdateableNode(q, StorageNode.get(id=node.id))
        copies = []
        for name, at_old, at_new in plans:
            frow = ArchiveFile.create(acq=acq, name=name, size_b=len(good), md5sum=hexdigest(good))
            for root, data in ((old_root, at_old), (new_root, at_new)):
                p = os.path.join(root, "acq", name)
                os.makedirs(os.path.dirname(p), exist_ok=True)
                if data is not None:
                    with open(p, "wb") as fh:
                        fh.write(data)
            c = ArchiveFileCopy.create(file=frow, node=node, has_file="M", wants_file="Y")
            copies.append((c.id, name, at_old, at_new))
            un.io.check(ArchiveFileCopy.get(id=c.id))
        with open(os.path.join(new_root, "ALPENHORN_NODE"), "w") as fh:
            fh.write("n1\n")
        StorageNode.update(root=new_root).where(StorageNode.id == node.id).execute()
        item = q.get(timeout=0.001)
        while item is not None:
            try:
                item[0]()
            finally:
                q.task_done(item[1])
            item = q.get(timeout=0.001)
        for cid, name, at_old, at_new in copies:
            real = ArchiveFileCopy.get(id=cid).has_file
            allowed = {exact(at_old), exact(at_new)}
            ctx.case(("moved-node", name), nontrivial=True)
            ctx.count(f"verdict:moved-node:{real}:{'old' if real == exact(at_old) else 'new' if real == exact(at_new) else 'neither'}")
            if real not in allowed | {"M"}:
                ctx.violation("verdict-mixed-files", f"check of {name} queued, node then moved to another directory: the verdict {real} is "
                              f"exact neither for the file at the old place ({exact(at_old)}) nor for the one at the new place "
                              f"({exact(at_new)}): existence / length / digest were taken from different files",
                              {"kind": "moved-node", "file": name, "verdict": real, "old": exact(at_old), "new": exact(at_new)})
    finally:
        StorageNode.update(root=old_root).where(StorageNode.id == node.id).execute()


def run(ctx):
    ok = common.proof_stage(ctx, MODULE)
    with envmod.CliEnv() as e:
        stage_verdict(ctx, e)
        stage_moved_node(ctx, e)
        stage_stat_fault(ctx, e)
        stage_read_fault(ctx, e)
        stage_md5(ctx, e)
        stage_validator(ctx, e)
    ctx.corr_broken = ctx.corr_broken[:6]
    ctx.coverage["rule"] = ("verdict: contents of sizes {0,1,5,bs-1,bs,bs+1,3bs+17,chunk-1,chunk,chunk+1} x damage "
                            "{none,truncate,extend,flip,replace,delete} with size/digest registered through the real CLI (file create, "
                            "file create --from-file, file modify; digest typed lower/upper/mixed case; registered size 0 and size "
                            "mismatch), then the real check_async; md5: block structure and digest of _md5sum_file via a hashlib "
                            "recorder; validator: all strings stem+window over {0,a,F,g,_,+,-,space,x} (window 3..4 at start/middle/end) "
                            "and random 30-34 char strings, accepted ones stored through the real command function. "
                            "distinct = parameter tuple / string; non-trivial = 32-char strings and all verdict cases")
    # the same verdict rule behind the Lustre-HSM check task (restore, wait, then the check; lfs answers scripted)
    from props import c20
    with envmod.Env() as e_hsm:
        c20.stage_node(ctx, e_hsm, only=("checktask",), n=120 if ctx.quick() else 2500)
    from props.c06 import finish_search
    finish_search(ctx, ok)


def replay(ctx, path):
    import sys
    return common.replay_by_rerun(ctx, path, sys.modules[__name__])
