import Alpen.Generated
import Alpen.Model.Str
import Alpen.Lemmas.Str
import Alpen.Props.C06
