"""C14 — space reservations: real DefaultNodeIO.pull admission + real pull tasks ending by every path, vs Lean rstep."""
import json
import os

import common
import env as envmod
import wharness
import world as worldmod

MODULE = "Alpen.Props.C14"
OUTCOMES = ["alreadyPresent", "noRoute", "transportFailed", "digestMismatch", "success", "dbErrorEarly", "dbErrorLate"]


def under_min(node):
    """the property's "below its minimum free space", from the recorded figures (unknown free space is not "below")"""
    return node.avail_gb is not None and node.min_avail_gb is not None and node.avail_gb < node.min_avail_gb


def at_limit(db, node):
    """the property's "at its size limit", computed from the index by the harness (not by the code under test): registered sizes
    of the copies recorded present on the node add up to max_total_gb or more"""
    if node.max_total_gb is None or node.max_total_gb <= 0:
        return False
    tot = sum((c.file.size_b or 0) for c in db.ArchiveFileCopy.select().where(db.ArchiveFileCopy.node == node.id, db.ArchiveFileCopy.has_file == "Y"))
    return tot >= round(node.max_total_gb * 2 ** 30)


class Scenario:
    """one destination node n2 on h1 with scripted free space; sources on h1 (routed), and an unrouted remote node"""

    def __init__(self, env, rng):
        import alpenhorn.daemon.update as upd
        from alpenhorn.scheduler import FairMultiFIFOQueue
        from alpenhorn.io import default as dmod
        import shutil
        self.env, self.rng = env, rng
        w = self.w = worldmod.World(env)
        db = w.db
        for m in (db.StorageTransferAction, db.ArchiveFileCopyRequest, db.ArchiveFileImportRequest, db.ArchiveFileCopy,
                  db.ArchiveFile, db.ArchiveAcq, db.StorageNode, db.StorageGroup):
            m.delete().execute()
        shutil.rmtree(os.path.join(env.tmp, "roots"), ignore_errors=True)
        self.g_src, self.g_dst, self.g_rem = w.group("gs"), w.group("gd"), w.group("gr")
        self.src = w.node("src", self.g_src, stype="A")
        self.srcF = w.node("srcF", w.group("gsf"), stype="F")
        self.rem = w.node("rem", self.g_rem, host="h2", stype="A")          # remote, no address: no route
        self.avail = rng.choice([None, 50, 200, 1000, 5000, 10 ** 6])      # bytes free as statvfs reports
        av_k, mn_k = rng.choice([(10, 0), (10, 0), (10, 0), (1, 5), (None, 5)])
        mx_k = rng.choice([None, None, None, 1, 10 ** 6])
        self.dst = w.node("dst", self.g_dst, stype="A", avail_kib=av_k, min_kib=mn_k, max_kib=mx_k)
        self.acq = w.acq("acq")
        if mx_k == 1:
            # registered sizes on the node: exactly the limit (1 KiB), one byte under it, or well over it
            bsize = rng.choice([1024, 1024, 1023, 4096])
            bf = w.file(self.acq, "ballast.dat", b"b", size=bsize)
            db.ArchiveFileCopy.create(file=bf, node=self.dst, has_file="Y", wants_file="Y", size_b=bsize)
        self.q = FairMultiFIFOQueue()
        with dmod._mutex:
            dmod._reserved_bytes.clear()
        self.un = upd.UpdateableNode(self.q, db.StorageNode.get(id=self.dst.id))
        self.dmod = dmod
        # an I/O class that cannot always tell the free space (a quota query that fails): bytes_avail() answers None
        self.unknown = self.avail is None and rng.random() < 0.5
        self.patch_unknown()
        self.nfile = 0
        self.live = []           # (task id, how it will end)

    def patch_unknown(self):
        if self.unknown:
            self.un.io.bytes_avail = lambda fast=False: None

    def reserved(self):
        with self.dmod._mutex:
            return self.dmod._reserved_bytes.get("dst", 0)

    def new_request(self, how):
        rng, w, db = self.rng, self.w, self.w.db
        self.nfile += 1
        size = rng.choice([0, 1, 10, 40, 100, 400])
        content = bytes(rng.getrandbits(8) for _ in range(size))
        src = self.rem if how == "noRoute" else (self.srcF if how == "digestMismatch" else self.src)
        md5sum = "0" * 32 if how == "digestMismatch" else "auto"
        f = w.file(self.acq, f"f{self.nfile}.dat", content, md5sum=md5sum)
        if how == "transportFailed":
            w.copy(f, src, has="Y", on_disk=None)          # source bytes missing: every transport fails
        else:
            w.copy(f, src, has="Y")
        return db.ArchiveFileCopyRequest.create(file=f, node_from=src, group_to=self.g_dst), f, size


def run(ctx):
    ok = common.proof_stage(ctx, MODULE)
    from alpenhorn.io.default import DefaultNodeIO
    rng = ctx.rng
    drv = common.Driver()
    factor = DefaultNodeIO.reserve_factor
    nseq = 120 if ctx.quick() else 4000
    all_lines, all_exp, meta = [], [], []
    real_statvfs = os.statvfs
    with envmod.Env() as e:
        for si in range(nseq):
            sc = Scenario(e, rng)
            db = sc.w.db

            class SV:
                def __init__(self, b):
                    self.f_bavail, self.f_bsize = b, 1

            def fake_statvfs(path, sc=sc):
                if str(path) == sc.dst.root and sc.avail is not None:
                    return SV(sc.avail)
                return real_statvfs(path)
            os.statvfs = fake_statvfs
            lines = [f"r.reset {factor}"]
            exp = [None]
            tid = 0
            try:
                for ev in range(rng.randint(2, 8)):
                    if rng.random() < 0.15:
                        # the main loop re-creates the node's I/O instance (reinit after an io_config / io_class edit):
                        # reservations of transfers in flight belong to the node, not to the instance
                        before_r = sc.reserved()
                        import alpenhorn.daemon.update as upd_
                        db.StorageNode.update(io_config='{"reinit": %d}' % ev).where(db.StorageNode.id == sc.dst.id).execute()
                        sc.un.reinit(db.StorageNode.get(id=sc.dst.id))
                        sc.patch_unknown()
                        ctx.count("reinit")
                        if sc.reserved() != before_r:
                            ctx.violation("reinit-forgets", f"re-creating the node's I/O instance changed the reserved total from {before_r} to "
                                          f"{sc.reserved()} with {len(sc.live)} transfer(s) in flight", {"kind": "reserve", "ops": lines})
                        continue
                    if sc.live and rng.random() < 0.5:
                        # finish the oldest live pull task by the path chosen at dispatch
                        t, how, f = sc.live.pop(0)
                        if how == "alreadyPresent":
                            sc.w.copy(f, db.StorageNode.get(id=sc.dst.id), has="Y")
                        e.set_host("h1")
                        os.environ["PATH"] = os.path.join(wharness.FAKE, "none")   # hard link / internal copy only
                        envmod.verif_dbext.reset_counters()
                        if how == "dbErrorEarly":
                            envmod.verif_dbext.CTL["fault_at"] = {0}
                        elif how == "dbErrorLate":
                            envmod.verif_dbext.CTL["fault_at"] = {rng.choice([2, 3, 4])}
                        try:
                            wharness.run_worker(sc.q, max_tasks=1) if False else run_one(sc)
                        except Exception as ex:  # noqa -- an uncaught exception in a task aborts a real daemon
                            ctx.violation("task-raised:" + type(ex).__name__, f"the pull task raised {type(ex).__name__}: {ex} "
                                          f"(reserved total {sc.reserved()})", {"kind": "reserve", "ops": lines})
                            break
                        finally:
                            envmod.verif_dbext.CTL["fault_at"] = set()
                        lines.append(f"r.finish {t} {how}")
                        exp.append(f"{sc.reserved()} 0")
                        meta.append(("finish", how))
                    else:
                        how = rng.choice(OUTCOMES)
                        rq, f, size = sc.new_request(how)
                        tid += 1
                        if rng.random() < 0.3:
                            # between two passes the recorded free space or the operator's limits change (earlier transfers
                            # filled the disk; `node modify --min-avail / --max-total`): the admission test of this pass must
                            # see the current record
                            newvals = dict(avail_gb=rng.choice([None, 1 / 2 ** 20, 10 / 2 ** 20]), min_avail_gb=rng.choice([0, 5 / 2 ** 20]),
                                           max_total_gb=rng.choice([None, 1 / 2 ** 20, 1.0]))
                            db.StorageNode.update(**newvals).where(db.StorageNode.id == sc.dst.id).execute()
                            ctx.count("limits-changed-between-passes")
                        node = db.StorageNode.get(id=sc.dst.id)
                        um = under_min(node)
                        om = at_limit(db, node)
                        qs = sc.q.qsize
                        e.set_host("h1")
                        sc.un.reinit(node)              # what the main loop does with the freshly queried row at the start of a pass
                        sc.patch_unknown()
                        sc.un.io.pull(rq)
                        created = sc.q.qsize > qs
                        if created:
                            sc.live.append((tid, how, f))
                        bav = "-" if sc.avail is None else sc.avail
                        lines.append(f"r.dispatch {tid} {size} {int(um)} {int(om)} {bav}")
                        exp.append(f"{int(created)} {sc.reserved()}")
                        meta.append(("dispatch", created, um, om))
                        # admission oracle (property text)
                        if created:
                            fits = sc.avail is None or factor * size <= sc.avail - (sc.reserved() - factor * size)
                            if um or om or not fits:
                                ctx.violation(f"admit:{int(um)}{int(om)}{int(fits)}",
                                              f"pull of {size} bytes started with under_min={um}, at_limit={om}, free={sc.avail}, "
                                              f"reserved before={sc.reserved() - factor * size}",
                                              {"kind": "reserve", "ops": lines})
                    if sc.reserved() < 0:
                        ctx.violation("negative", f"reserved total is {sc.reserved()}", {"kind": "reserve", "ops": lines})
                # drain: every remaining task ends; then the total must be zero
                while sc.live:
                    t, how, f = sc.live.pop(0)
                    if how == "alreadyPresent":
                        sc.w.copy(f, db.StorageNode.get(id=sc.dst.id), has="Y")
                    os.environ["PATH"] = os.path.join(wharness.FAKE, "none")
                    try:
                        run_one(sc)
                    except Exception as ex:  # noqa
                        ctx.violation("task-raised:" + type(ex).__name__, f"the pull task raised {type(ex).__name__}: {ex} "
                                      f"(reserved total {sc.reserved()})", {"kind": "reserve", "ops": lines})
                        sc.live = []
                        break
                    lines.append(f"r.finish {t} {how if not how.startswith('dbError') else 'success'}")
                    exp.append(f"{sc.reserved()} 0")
                if sc.reserved() != 0:
                    ctx.violation("leak", f"no transfer queued or running but {sc.reserved()} bytes remain reserved",
                                  {"kind": "reserve", "ops": lines})
            finally:
                os.statvfs = real_statvfs
                os.environ["PATH"] = "/usr/local/bin:/usr/bin:/bin"
            all_lines.append(lines)
            all_exp.append(exp)
    flat = [l for ls in all_lines for l in ls]
    outs = drv.batch(flat)
    i = 0
    for lines, exp in zip(all_lines, all_exp):
        o = outs[i:i + len(lines)]
        i += len(lines)
        ctx.case(tuple(lines), nontrivial=len(lines) > 3, sample={"events": lines, "real(created/reserved)": exp} if len(ctx.samples) < 3 else None)
        for l, x, m in zip(lines, exp, o):
            if l.startswith("r.finish"):
                ctx.count("finish:" + l.split()[2])
            elif l.startswith("r.dispatch"):
                ctx.count("dispatch:" + ("admitted" if x.startswith("1") else "refused"))
            if x is not None and x != m and len(ctx.corr_broken) < 5:
                ctx.corr_broken.append({"stream": "reserve/release-vs-rstep", "events": lines, "at": l, "real": x, "model": m})
                break
    stage_transport_group(ctx, drv, 60 if ctx.quick() else 1500)
    stage_concurrent(ctx)
    ctx.coverage["rule"] = ("transport groups: requests handed out by the real TransportGroupIO.pull_force over 1-3 transport nodes (scripted free "
                            "space, minima, limits, unknown free space; local / remote sources), every node's reserved total compared with "
                            "Lean tgDispatch after each dispatch and checked zero when no transfer is left; ""concurrent: 2-3 threads reserving/releasing on one node under the deterministic scheduler (scheduling points before "
                            "every mutex acquisition and after every release): never over-committed, balance returns to zero, no failing "
                            "release; sequential: sequences of 2-8 events on one destination node: dispatch of a pull (real DefaultNodeIO.pull: sizes 0..400, free "
                            "space 50..10^6 or unknown, under-min / at-limit configurations) or completion of the oldest pull task by one of "
                            "{already present, no route, transport failure, digest mismatch, success, DB error at the first statement, DB "
                            "error later} in a real Worker; _reserved_bytes is read after every event and compared with the Lean model; "
                            "oracles: never negative, zero when nothing is live, admission inequality. distinct = event sequence")
    from props.c06 import finish_search
    finish_search(ctx, ok)


def stage_transport_group(ctx, drv, nseq):
    """Transport groups: real `TransportGroupIO.pull_force` (its `fits` questions to every node, then the chosen node's
    `pull`) and real pull tasks, on 1-3 transport nodes with scripted free space; the reserved total of *every* node is read
    after each event and compared with Lean `tgDispatch`; oracles: nothing reserved when no transfer is queued or running,
    never negative, a started transfer fitted on the node it was handed to."""
    import alpenhorn.daemon.update as upd
    from alpenhorn.scheduler import FairMultiFIFOQueue
    from alpenhorn.io import default as dmod
    from alpenhorn.io.default import DefaultNodeIO
    import shutil
    rng = ctx.rng
    factor = DefaultNodeIO.reserve_factor
    real_statvfs = os.statvfs
    lines, exps, infos = [], [], []
    with envmod.Env() as e:
        for si in range(nseq):
            w = worldmod.World(e)
            db = w.db
            for m in (db.StorageTransferAction, db.ArchiveFileCopyRequest, db.ArchiveFileImportRequest, db.ArchiveFileCopy,
                      db.ArchiveFile, db.ArchiveAcq, db.StorageNode, db.StorageGroup):
                m.delete().execute()
            shutil.rmtree(os.path.join(e.tmp, "roots"), ignore_errors=True)
            with dmod._mutex:
                dmod._reserved_bytes.clear()
            gs, gr, gt = w.group("gs"), w.group("gr"), w.group("gt", io_class="Transport")
            src = w.node("src", gs, stype="F")
            rem = w.node("rem", gr, host="h2", stype="F", address="a", username="u")
            acq = w.acq("acq")
            tn, bav = [], {}
            for k in range(rng.randint(1, 3)):
                bk = rng.choice([None, 0, 1, 2, 2, 10, 10])                 # KiB free as the file system reports
                nd = w.node(f"t{k}", gt, stype="T", avail_kib=rng.choice([None, bk, bk, 5, 50]) if bk is not None else None,
                            min_kib=rng.choice([0, 0, 0, 3]), max_kib=rng.choice([None, None, None, 10 ** 6, 1]))
                if nd.max_total_gb is not None and nd.max_total_gb < 1:
                    bsize = rng.choice([1024, 1023, 2048])          # exactly at the limit, a byte under it, over it
                    bf = w.file(acq, f"ballast{k}.dat", b"b", size=bsize)
                    db.ArchiveFileCopy.create(file=bf, node=nd, has_file="Y", wants_file="Y", size_b=bsize)
                tn.append(nd)
                bav[nd.root] = None if bk is None else bk * 1024
            unknown = {nd.id for nd in tn if bav[nd.root] is None}

            class SV:
                def __init__(self, b):
                    self.f_bavail, self.f_bsize = b, 1

            def fake_statvfs(path, bav=bav):
                b = bav.get(str(path))
                return SV(b) if b is not None else real_statvfs(path)
            os.statvfs = fake_statvfs
            os.environ["PATH"] = os.path.join(wharness.FAKE, "none")

            class SC:          # what run_one needs
                pass
            sc = SC()
            sc.q = q = FairMultiFIFOQueue()

            def reserved():
                with dmod._mutex:
                    return {nd.id: dmod._reserved_bytes.get(nd.name, 0) for nd in tn}
            evs = []
            nf = 0
            try:
                for ev in range(rng.randint(2, 8)):
                    if q.qsize and rng.random() < 0.45:
                        e.set_host("h1")
                        try:
                            run_one(sc)
                        except Exception as ex:  # noqa
                            ctx.violation("transport:task-raised", f"a pull task into a Transport group raised {type(ex).__name__}: {ex}",
                                          {"kind": "transport-reserve", "events": evs})
                            break
                        evs.append(f"a transfer task ran; reserved now {reserved()}")
                    else:
                        nf += 1
                        size = rng.choice([0, 100, 400, 600, 1500, 6000])
                        local = rng.random() < 0.85
                        how = rng.choice(["success", "success", "transportFailed"])
                        f = w.file(acq, f"f{nf}.dat", bytes(rng.getrandbits(8) for _ in range(size)))
                        s_ = src if local else rem
                        w.copy(f, s_, has="Y", **({"on_disk": None} if how == "transportFailed" else {}))
                        rq = db.ArchiveFileCopyRequest.create(file=f, node_from=s_, group_to=gt)
                        e.set_host("h1")
                        uns = [upd.UpdateableNode(q, db.StorageNode.get(id=nd.id)) for nd in tn]
                        for un in uns:
                            if un.db.id in unknown:
                                un.io.bytes_avail = lambda fast=False: None
                        ug = upd.UpdateableGroup(queue=q, group=db.StorageGroup.get(id=gt.id), nodes=uns, idle=True)
                        rb = reserved()
                        recs = []
                        for un in uns:
                            nd = un.db
                            recs.append((nd.id, None if nd.avail_gb is None else round(nd.avail_gb * 2 ** 20), under_min(nd),
                                         at_limit(db, nd), bav[nd.root], rb[nd.id]))
                        picked = []
                        for un in uns:
                            orig = un.io.pull
                            un.io.pull = (lambda r, _o=orig, _i=un.db.id: (picked.append(_i), _o(r))[1])
                        qs = q.qsize
                        ug.io.pull_force(db.ArchiveFileCopyRequest.get(id=rq.id))
                        created = q.qsize > qs
                        ra = reserved()
                        line = (f"tgd {factor} {size} {int(local)} " +
                                ",".join(f"{i}:{'-' if a is None else a}:{int(u)}:{int(o)}:{'-' if b is None else b}:{r}" for i, a, u, o, b, r in recs))
                        lines.append(line)
                        exps.append(f"{picked[0] if picked else '-'} {int(created)} {','.join(str(ra[nd.id]) for nd in tn)}")
                        infos.append(si)
                        evs.append(f"request for {size} bytes ({'local' if local else 'remote'} source): handed to {picked or None}, "
                                   f"task created={created}; nodes (id, availKiB, underMin, overMax, bytes free, reserved before) {recs}; "
                                   f"reserved now {ra}")
                        ctx.count(f"transport-dispatch:{'admitted' if created else 'handed-but-refused' if picked else 'no-node'}")
                        if created and picked:
                            me = [r for r in recs if r[0] == picked[0]][0]
                            if me[2] or me[3] or (me[4] is not None and factor * size > me[4] - me[5]):
                                ctx.violation("transport:admit", f"transfer of {size} bytes started on transport node {me[0]} with "
                                              f"under_min={me[2]}, at_limit={me[3]}, free={me[4]}, reserved before={me[5]}",
                                              {"kind": "transport-reserve", "events": evs})
                    r_ = reserved()
                    if any(v < 0 for v in r_.values()):
                        ctx.violation("transport:negative", f"reserved totals {r_}", {"kind": "transport-reserve", "events": evs})
                    if q.qsize + q.inprogress_size + q.deferred_size == 0 and any(r_.values()):
                        ctx.violation("transport:leak", f"no transfer queued or running but bytes remain reserved on the group's nodes: {r_}",
                                      {"kind": "transport-reserve", "events": evs})
                        break
                for _ in range(20):
                    if not q.qsize:
                        break
                    try:
                        run_one(sc)
                    except Exception as ex:  # noqa
                        ctx.violation("transport:task-raised", f"a pull task into a Transport group raised {type(ex).__name__}: {ex}",
                                      {"kind": "transport-reserve", "events": evs})
                        break
                r_ = reserved()
                if q.qsize + q.inprogress_size + q.deferred_size == 0 and any(r_.values()):
                    ctx.violation("transport:leak", f"every transfer has ended but bytes remain reserved on the group's nodes: {r_}",
                                  {"kind": "transport-reserve", "events": evs})
            finally:
                os.statvfs = real_statvfs
                os.environ["PATH"] = "/usr/local/bin:/usr/bin:/bin"
            ctx.case(("transport-group", tuple(evs)), nontrivial=len(tn) > 1, sample={"events": evs} if si == 1 else None)
    outs = drv.batch(lines)
    for l, x, o in zip(lines, exps, outs):
        if x != o and len(ctx.corr_broken) < 5:
            ctx.corr_broken.append({"stream": "transport-dispatch-vs-tgDispatch", "at": l, "real": x, "model": o})


def stage_concurrent(ctx):
    """several workers reserving / releasing on one node at once, under the deterministic scheduler with a scheduling
    point before every mutex acquisition and right after every release"""
    import random
    import sched as schedmod
    from alpenhorn.io import default as dmod
    from alpenhorn.io.default import DefaultNodeIO
    from alpenhorn.scheduler import FairMultiFIFOQueue
    rng = ctx.rng
    factor = DefaultNodeIO.reserve_factor
    real_statvfs = os.statvfs
    nruns = 300 if ctx.quick() else 10000
    with envmod.Env() as e:
        w = worldmod.World(e)
        g = w.group("g")
        node = w.node("cn", g)
        for run in range(nruns):
            s = schedmod.Scheduler(rng=random.Random(rng.getrandbits(32)), yield_on_release=True)
            saved = dmod._mutex
            dmod._mutex = schedmod.CoopLock(s, reentrant=False)
            avail = rng.choice([1000, 3000, 5000])

            class SV:
                f_bavail, f_bsize = avail, 1
            os.statvfs = lambda p: SV if str(p) == node.root else real_statvfs(p)
            with saved:
                dmod._reserved_bytes["cn"] = 0
            io = DefaultNodeIO(node, {}, FairMultiFIFOQueue())
            live, events, errors = [], [], []
            nth = rng.choice([2, 2, 3])
            progs = [[rng.choice([100, 500, 1000, 1400]) for _ in range(rng.randint(1, 3))] for _ in range(nth)]

            def mk(tid):
                def body():
                    mine = []
                    for size in progs[tid]:
                        ok = io.reserve_bytes(size)
                        events.append(("reserve", tid, size, ok))
                        if ok:
                            mine.append(size)
                        cur = dmod._reserved_bytes.get("cn", 0)      # the authoritative counter (only one thread runs at a time)
                        if cur > avail or cur < 0:
                            errors.append(f"over-committed: {cur} bytes reserved with only {avail} bytes free (events {events})")
                    for size in mine:
                        try:
                            io.release_bytes(size)
                            events.append(("release", tid, size))
                        except ValueError as ex:
                            errors.append(f"release raised: {ex}")
                return body
            try:
                for i in range(nth):
                    s.spawn(mk(i))
                res = s.run()
                with dmod._mutex if False else saved:
                    final = dmod._reserved_bytes.get("cn", 0)
            finally:
                dmod._mutex = saved
                os.statvfs = real_statvfs
            ctx.count(f"concurrent:{res}:threads={nth}")
            ctx.case(("conc", tuple(map(tuple, progs)), avail, tuple(s.taken)), nontrivial=True,
                     sample={"sizes_per_thread": progs, "free": avail, "schedule": s.taken[:30], "events": events} if len(ctx.samples) < 5 and run < 3 else None)
            if final != 0:
                errors.append(f"{final} bytes remain reserved after every transfer released")
            if res != "done":
                errors.append(f"scheduler result {res}")
            for er in errors[:1]:
                ctx.violation("concurrent:" + er.split(":")[0], er, {"kind": "reserve-concurrent", "sizes_per_thread": progs, "free": avail,
                                                                     "schedule": s.taken, "events": events})


def run_one(sc):
    """pop and run exactly one task the way a worker does (clean-ups on DB error, task_done)"""
    import peewee as pw
    item = sc.q.get(timeout=0.001)
    if item is None:
        return
    task, key = item
    try:
        task()
    except pw.OperationalError:
        while True:
            try:
                task.do_cleanup()
                break
            except pw.OperationalError:
                pass
    finally:
        sc.q.task_done(key)


def replay(ctx, path):
    import sys
    return common.replay_by_rerun(ctx, path, sys.modules[__name__])
