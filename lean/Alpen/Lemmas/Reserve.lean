import Alpen.Model.Reserve
/-!
  Helper lemmas for C14 (reservation bookkeeping).  Core Lean only.
-/
namespace Alpen

theorem liveTotal_nil (factor : Nat) : liveTotal factor [] = 0 := by
  simp [liveTotal]

theorem liveTotal_cons (factor : Nat) (p : Nat × Nat) (l : List (Nat × Nat)) :
    liveTotal factor (p :: l) = ((p.2 * factor : Nat) : Int) + liveTotal factor l := by
  simp [liveTotal]

theorem liveTotal_nonneg (factor : Nat) (l : List (Nat × Nat)) : 0 ≤ liveTotal factor l := by
  induction l with
  | nil => simp [liveTotal_nil]
  | cons p l ih =>
    rw [liveTotal_cons]
    have : (0 : Int) ≤ ((p.2 * factor : Nat) : Int) := Int.natCast_nonneg _
    omega

theorem filter_ne_of_not_mem (t : Nat) (l : List (Nat × Nat)) (h : t ∉ l.map (·.1)) :
    l.filter (fun p => p.1 != t) = l := by
  induction l with
  | nil => rfl
  | cons p l ih =>
    simp only [List.map_cons, List.mem_cons, not_or] at h
    have hp : (p.1 != t) = true := by
      simp only [bne_iff_ne, ne_eq]
      exact fun e => h.1 e.symm
    simp only [List.filter_cons, hp, if_true, ih h.2]

/-- removing the (unique) entry of task `t` lowers the total by exactly its share -/
theorem liveTotal_filter (factor t size : Nat) (l : List (Nat × Nat))
    (hnd : (l.map (·.1)).Nodup) (hmem : (t, size) ∈ l) :
    liveTotal factor (l.filter (fun p => p.1 != t)) + ((size * factor : Nat) : Int)
      = liveTotal factor l := by
  induction l with
  | nil => simp at hmem
  | cons p l ih =>
    simp only [List.map_cons, List.nodup_cons] at hnd
    rcases List.mem_cons.1 hmem with h | h
    · subst h
      have hp : (((t, size) : Nat × Nat).1 != t) = false := by simp
      simp only [List.filter_cons, hp, Bool.false_eq_true, if_false, filter_ne_of_not_mem t l hnd.1, liveTotal_cons]
      omega
    · have hne : p.1 ≠ t := by
        intro e
        apply hnd.1
        rw [e]
        exact List.mem_map.2 ⟨(t, size), h, rfl⟩
      have hp : (p.1 != t) = true := by simpa using hne
      simp only [List.filter_cons, hp, if_true, liveTotal_cons]
      have := ih hnd.2 h
      omega

theorem pullAdmit_ok (factor : Nat) (um om : Bool) (bavail : Option Int) (reserved : Int) (size : Nat)
    (h : (pullAdmit factor um om bavail reserved size).1 = true) :
    um = false ∧ om = false ∧ (∀ b, bavail = some b → ((size * factor : Nat) : Int) ≤ b - reserved) ∧
    (pullAdmit factor um om bavail reserved size).2 = reserved + ((size * factor : Nat) : Int) := by
  unfold pullAdmit reserveBytes at *
  cases um <;> cases om <;> simp at h ⊢
  cases bavail with
  | none => simp
  | some b =>
    simp only [] at h ⊢
    by_cases hlt : b - reserved < (size : Int) * (factor : Int)
    · simp [hlt] at h
    · simp only [hlt, if_false, Option.some.injEq, forall_eq', and_true]
      push_cast
      omega

/-- the invariant carried along a history -/
structure RInv (factor : Nat) (s : RState) (seen : List Nat) : Prop where
  bal : s.reserved = liveTotal factor s.live
  noerr : s.error = false
  nodup : (s.live.map (·.1)).Nodup
  sub : ∀ p ∈ s.live, p.1 ∈ seen

theorem RInv.init (factor : Nat) : RInv factor RState.init [] :=
  ⟨by simp [RState.init, liveTotal_nil], rfl, by simp [RState.init], by simp [RState.init]⟩

theorem RInv.dispatch {factor : Nat} {s : RState} {seen : List Nat} (hI : RInv factor s seen)
    (t size : Nat) (um om : Bool) (bavail : Option Int) (ht : t ∉ seen) :
    RInv factor (rstep factor s (.dispatch t size um om bavail)) (t :: seen) := by
  simp only [rstep]
  cases hok : (pullAdmit factor um om bavail s.reserved size).1 with
  | false =>
    rw [show pullAdmit factor um om bavail s.reserved size
          = ((pullAdmit factor um om bavail s.reserved size).1,
             (pullAdmit factor um om bavail s.reserved size).2) from rfl, hok]
    simp only [Bool.false_eq_true, if_false]
    exact ⟨hI.bal, hI.noerr, hI.nodup, fun p hp => List.mem_cons_of_mem _ (hI.sub p hp)⟩
  | true =>
    have h2 := (pullAdmit_ok factor um om bavail s.reserved size hok).2.2.2
    rw [show pullAdmit factor um om bavail s.reserved size
          = ((pullAdmit factor um om bavail s.reserved size).1,
             (pullAdmit factor um om bavail s.reserved size).2) from rfl, hok, h2]
    simp only [if_true]
    refine ⟨?_, hI.noerr, ?_, ?_⟩
    · simp only [liveTotal_cons]
      have := hI.bal
      omega
    · simp only [List.map_cons, List.nodup_cons]
      refine ⟨?_, hI.nodup⟩
      intro hm
      obtain ⟨p, hp, rfl⟩ := List.mem_map.1 hm
      exact ht (hI.sub p hp)
    · intro p hp
      rcases List.mem_cons.1 hp with rfl | hp
      · exact List.mem_cons_self
      · exact List.mem_cons_of_mem _ (hI.sub p hp)

theorem RInv.finish {factor : Nat} {s : RState} {seen : List Nat} (hI : RInv factor s seen)
    (t : Nat) (how : PullEnd) :
    RInv factor (rstep factor s (.finish t how)) seen := by
  simp only [rstep]
  cases hf : s.live.find? (fun p => p.1 == t) with
  | none => exact hI
  | some q =>
    obtain ⟨t', size⟩ := q
    have hmem := List.mem_of_find?_eq_some hf
    have hpt := List.find?_some hf
    simp only [beq_iff_eq] at hpt
    subst hpt
    have hbal := liveTotal_filter factor t' size s.live hI.nodup hmem
    have hnn := liveTotal_nonneg factor (s.live.filter (fun p => p.1 != t'))
    have hb := hI.bal
    have hsub : ∀ p ∈ s.live.filter (fun p => p.1 != t'), p.1 ∈ seen :=
      fun p hp => hI.sub p (List.mem_filter.1 hp).1
    have hnd : ((s.live.filter (fun p => p.1 != t')).map (·.1)).Nodup :=
      (List.filter_sublist.map _).nodup hI.nodup
    simp only [releaseBytes]
    split
    · rename_i hlt
      split at hlt
      · omega
      · simp at hlt
    · rename_i r hr
      split at hr
      · simp at hr
      · simp only [Option.some.injEq] at hr
        exact ⟨by simp only; omega, hI.noerr, hnd, hsub⟩

end Alpen
