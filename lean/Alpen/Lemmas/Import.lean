import Alpen.Model.Import
/-! Helper lemmas for `Alpen.Props.C04` (import step case analysis; the n-worker race). -/
namespace Alpen

theorem importedCopy_good (c : Option (Has × Wants)) :
    ∃ hs, importedCopy c = (hs, .Y) ∧ (hs = .Y ∨ hs = .M) := by
  rcases c with _ | ⟨h, w⟩
  · exact ⟨.Y, rfl, .inl rfl⟩
  · cases w
    · exact ⟨.M, rfl, .inr rfl⟩
    · exact ⟨.Y, rfl, .inl rfl⟩
    · exact ⟨.Y, rfl, .inl rfl⟩

theorem importedCopy_M_iff (c : Option (Has × Wants)) :
    ∃ hs, importedCopy c = (hs, .Y) ∧ (hs = .Y ∨ hs = .M) ∧ (hs = .M ↔ ∃ h0, c = some (h0, .Y)) := by
  rcases c with _ | ⟨h, w⟩
  · exact ⟨.Y, rfl, .inl rfl, by simp⟩
  · cases w
    · exact ⟨.M, rfl, .inr rfl, by simp⟩
    · exact ⟨.Y, rfl, .inl rfl, by simp⟩
    · exact ⟨.Y, rfl, .inl rfl, by simp⟩

theorem tracked_importedCopy (c : Option (Has × Wants)) : tracked (some (importedCopy c)) = true := by
  obtain ⟨hs, h, h' | h'⟩ := importedCopy_good c <;> simp [h, h', tracked]

/-- the success branch, characterised -/
theorem importStep_success (i : ImpIn) (h : (importStep i).result = .success) :
    importStep i = ⟨.success, true, !i.acqExists, !i.fileExists, some (importedCopy i.copy), true⟩ ∧
    (i.register = false → i.acqExists = true ∧ i.fileExists = true) ∧ tracked i.copy = false := by
  obtain ⟨a, b, c, d, e, f, g, r, ae, fe, cp⟩ := i
  cases g <;> cases a <;> cases b <;> cases c <;> cases d <;> cases e <;> cases f <;>
    simp [importStep, ImpOut.unchanged] at h ⊢ <;> (split at h <;> simp_all <;> grind)

theorem importStep_reject (i : ImpIn) (h : (importStep i).result ≠ .success) :
    importStep i = .unchanged i (importStep i).result (importStep i).requestCompleted ∧
    ((importStep i).requestCompleted = false ↔ (importStep i).result = .lockedPending) := by
  obtain ⟨a, b, c, d, e, f, g, r, ae, fe, cp⟩ := i
  cases g <;> cases a <;> cases b <;> cases c <;> cases d <;> cases e <;> cases f <;>
    simp [importStep, ImpOut.unchanged] at h ⊢ <;> (split <;> simp_all <;> (cases r <;> cases ae <;> cases fe <;> simp_all))

/-! ### the race -/

def IPc.rank : IPc → Nat
  | .tracked => 0 | .acq => 1 | .file => 2 | .copy => 3 | .done _ => 4

theorem IPc.rank_ge_four {p : IPc} (h : 4 ≤ p.rank) : ∃ d, p = .done d := by
  cases p <;> simp [IPc.rank] at h ⊢

theorem iupd_same {α} (f : Nat → α) (k : Nat) (v : α) : iupd f k v k = v := by simp [iupd]
theorem iupd_other {α} (f : Nat → α) (k : Nat) (v : α) {i : Nat} (h : i ≠ k) : iupd f k v i = f i := by
  simp [iupd, h]

theorem irun_cons (s : IState) (t : Nat) (sched : List Nat) :
    irun s (t :: sched) = irun (istep s t) sched := rfl
theorem irun_nil (s : IState) : irun s [] = s := rfl

theorem istep_pc_other (s : IState) {t u : Nat} (h : u ≠ t) : (istep s t).pc u = s.pc u := by
  unfold istep
  split
  · split <;> simp [iupd, h]
  all_goals simp [iupd, h]

theorem istep_rank_self (s : IState) (t : Nat) :
    min 4 ((s.pc t).rank + 1) ≤ ((istep s t).pc t).rank := by
  unfold istep
  split
  · split <;> simp_all [iupd, IPc.rank]
  all_goals simp_all [iupd, IPc.rank]

theorem irun_rank (s : IState) (sched : List Nat) (u : Nat) :
    min 4 ((s.pc u).rank + sched.count u) ≤ ((irun s sched).pc u).rank := by
  induction sched generalizing s with
  | nil => simp [irun_nil]; omega
  | cons t sched ih =>
    rw [irun_cons]
    have := ih (istep s t)
    by_cases h : u = t
    · subst h
      have := istep_rank_self s u
      simp only [List.count_cons_self]
      omega
    · rw [istep_pc_other s h] at this
      have ht : (t == u) = false := by simp; omega
      simp only [List.count_cons, ht]
      simpa using this

theorem istep_acq_mono (s : IState) (t : Nat) (h : s.acq = true) : (istep s t).acq = true := by
  unfold istep
  split
  · split <;> simp_all
  all_goals simp_all

theorem istep_file_mono (s : IState) (t : Nat) (h : s.file = true) : (istep s t).file = true := by
  unfold istep
  split
  · split <;> simp_all
  all_goals simp_all

def healthy (c : Option (Has × Wants)) : Prop := ∃ hs w, c = some (hs, w) ∧ (hs = .Y ∨ hs = .M)

theorem istep_healthy (s : IState) (t : Nat) (h : healthy s.copy) : healthy (istep s t).copy := by
  unfold istep
  split
  · split <;> simp_all
  all_goals try simp_all
  obtain ⟨hs, e, h'⟩ := importedCopy_good s.copy
  exact ⟨hs, .Y, by simp [e], h'⟩

theorem irun_mono (s : IState) (sched : List Nat) :
    (s.acq = true → (irun s sched).acq = true) ∧ (s.file = true → (irun s sched).file = true) ∧
    (healthy s.copy → healthy (irun s sched).copy) := by
  induction sched generalizing s with
  | nil => simp [irun_nil]
  | cons t sched ih =>
    rw [irun_cons]
    obtain ⟨h1, h2, h3⟩ := ih (istep s t)
    exact ⟨fun h => h1 (istep_acq_mono s t h), fun h => h2 (istep_file_mono s t h),
      fun h => h3 (istep_healthy s t h)⟩

/-- all three rows exist, the copy wanted and healthy or suspect -/
def IState.good (s : IState) : Prop :=
  s.acq = true ∧ s.file = true ∧ ∃ hs, s.copy = some (hs, .Y) ∧ (hs = .Y ∨ hs = .M)

structure IInv (c0 : Option (Has × Wants)) (s : IState) : Prop where
  done_completed : ∀ t d, s.pc t = .done d → s.completed t = true
  file_acq : ∀ t, s.pc t = .file → s.acq = true
  copy_acq : ∀ t, s.pc t = .copy → s.acq = true ∧ s.file = true
  done_good : ∀ t d, s.pc t = .done d → tracked c0 = true ∨ s.good
  copy_good : s.copy = c0 ∨ s.good

theorem IInv.init (c0 : Option (Has × Wants)) : IInv c0 (IState.init c0) := by
  constructor <;> simp [IState.init]

theorem istep_good (s : IState) (t : Nat) (h : s.good) : (istep s t).good := by
  obtain ⟨h1, h2, hs, h3, h4⟩ := h
  refine ⟨istep_acq_mono s t h1, istep_file_mono s t h2, ?_⟩
  unfold istep
  split
  · split <;> exact ⟨hs, h3, h4⟩
  · exact ⟨hs, h3, h4⟩
  · exact ⟨hs, h3, h4⟩
  · exact ⟨.M, by simp [h3, importedCopy], .inr rfl⟩
  · exact ⟨hs, h3, h4⟩


theorem IInv.step {c0 : Option (Has × Wants)} {s : IState} (h : IInv c0 s) (t : Nat) : IInv c0 (istep s t) := by
  obtain ⟨h1, h2, h3, h4, h5⟩ := h
  have hic := importedCopy_good s.copy
  unfold istep
  split
  · split
    · constructor <;> simp only [iupd, IState.good] at * <;> grind
    · constructor <;> simp only [iupd, IState.good] at * <;> grind
  · constructor <;> simp only [iupd, IState.good] at * <;> grind
  · constructor <;> simp only [iupd, IState.good] at * <;> grind
  · constructor <;> simp only [iupd, IState.good] at * <;> grind
  · constructor <;> simp only [IState.good] at * <;> grind

theorem IInv.run {c0 : Option (Has × Wants)} {s : IState} (h : IInv c0 s) (sched : List Nat) :
    IInv c0 (irun s sched) := by
  induction sched generalizing s with
  | nil => exact h
  | cons t sched ih => exact ih (h.step t)

end Alpen
