"""C16 — autosync/autoclean: real ioutil.post_add vs Lean postAdd vs rule oracle."""
import json
import os

import common
import env as envmod

MODULE = "Alpen.Props.C16"


def gen_case(rng):
    ng = rng.randint(1, 3)
    nn = rng.randint(1, 5)
    nodes = [(i + 1, rng.randint(1, ng)) for i in range(nn)]
    pairs = [(n[0], g) for n in nodes for g in range(1, ng + 1)]
    rng.shuffle(pairs)
    edges = [(a, b, rng.random() < 0.6, rng.random() < 0.6) for (a, b) in pairs[:rng.randint(0, len(pairs))]]
    copies = []
    for fid in (1, 2):
        for n in nodes:
            if rng.random() < 0.6:
                copies.append((fid, n[0], rng.choice("YYYMXN"), rng.choice("YYMN")))
    node = rng.choice(nodes)[0]
    return ng, nodes, edges, copies, node


def oracle(nodes, edges, copies, node, file):
    """Reference evaluator from the property text / StorageTransferAction docs."""
    grp = dict(nodes)
    def healthy_in(g):
        return any(f == file and grp[n] == g and h == "Y" for (cid, f, n, h, w) in copies)
    newreq = sorted((file, node, g) for (eid, a, g, sync, clean) in edges
                    if a == node and sync and grp[a] != g and not healthy_in(g))
    rel_nodes = {a for (eid, a, g, sync, clean) in edges if clean and g == grp[node] and grp[a] != g}
    newcopies = []
    for (cid, f, n, h, w) in copies:
        if f == file and n in rel_nodes and h == "Y" and w == "Y":
            newcopies.append((cid, h, "N"))
        else:
            newcopies.append((cid, h, w))
    return newreq, sorted(newcopies)


def stage_triggers(ctx, e, n):
    """both triggers on real code: a file newly becomes present on a node through the import task (`_import_file`) or through
    the completion of a transfer (`copy_request_done`), for every pre-state of the arriving node's copy row; the rule
    oracle is evaluated on the state with the arrival applied and compared with what the trigger left behind"""
    import pathlib
    import time
    import world as worldmod
    import verif_idext
    import alpenhorn.daemon.update as upd
    from alpenhorn.daemon import auto_import
    from alpenhorn.io import ioutil
    from alpenhorn.scheduler import FairMultiFIFOQueue
    rng = ctx.rng
    w = worldmod.World(e)
    db = w.db
    for it in range(n):
        ng, nodes, edges, copies, node = gen_case(rng)
        for m in (db.StorageTransferAction, db.ArchiveFileCopyRequest, db.ArchiveFileImportRequest, db.ArchiveFileCopy,
                  db.ArchiveFile, db.ArchiveAcq, db.StorageNode, db.StorageGroup):
            m.delete().execute()
        import shutil
        shutil.rmtree(os.path.join(e.tmp, "roots"), ignore_errors=True)
        for g in range(1, ng + 1):
            db.StorageGroup.insert(id=g, name=f"g{g}").execute()
        nrow = {}
        for (i, g) in nodes:
            root = e.root(f"n{i}")
            db.StorageNode.insert(id=i, name=f"n{i}", group=g, root=root, host="h1", active=True, storage_type="A").execute()
            with open(os.path.join(root, "ALPENHORN_NODE"), "w") as fh:
                fh.write(f"n{i}\n")
            nrow[i] = db.StorageNode.get(id=i)
        acq = db.ArchiveAcq.create(name="acq")
        import hashlib
        data = b"payload"
        for fid in (1, 2):
            db.ArchiveFile.insert(id=fid, acq=acq, name=f"f{fid}", size_b=len(data), md5sum=hashlib.md5(data).hexdigest()).execute()
        erows = []
        for (a, b, s_, c_) in edges:
            ed = db.StorageTransferAction.create(node_from=a, group_to=b, autosync=s_, autoclean=c_)
            erows.append((ed.id, a, b, s_, c_))
        trigger = rng.choice(["import", "pull"])
        pre = rng.choice([None, ("N", "N"), ("X", "N"), ("N", "N")]) if trigger == "import" else rng.choice([None, ("N", "N"), ("X", "Y"), ("X", "N")])
        crows = []
        for (f, nd, h, wv) in copies:
            if f == 1 and nd == node:
                continue                      # the arriving node's own row is set from `pre`
            c = db.ArchiveFileCopy.create(file=f, node=nd, has_file=h, wants_file=wv)
            crows.append((c.id, f, nd, h, wv))
        own = None
        if pre is not None:
            own = db.ArchiveFileCopy.create(file=1, node=node, has_file=pre[0], wants_file=pre[1])
        f1 = db.ArchiveFile.get(id=1)
        os.makedirs(os.path.join(nrow[node].root, "acq"), exist_ok=True)
        with open(os.path.join(nrow[node].root, "acq", "f1"), "wb") as fh:
            fh.write(data)
        before_req = set(r.id for r in db.ArchiveFileCopyRequest.select())
        e.set_host("h1")
        q = FairMultiFIFOQueue()
        un = upd.UpdateableNode(q, db.StorageNode.get(id=node))
        try:
            if trigger == "import":
                import peewee as pw
                import verif_dbext
                verif_idext.MODE[:] = ["first", 1]
                req = db.ArchiveFileImportRequest.create(node=node, path="acq/f1", recurse=False, register=True)
                auto_import.import_file(un, q, pathlib.PurePath("acq/f1"), True, req)
                if rng.random() < 0.4:
                    verif_dbext.reset_counters()
                    verif_dbext.CTL["fault_at"] = {rng.randint(0, 9)}
                    trigger = "import+dbfault"
                try:
                    item = q.get(timeout=0.001)
                    while item is not None:
                        try:
                            item[0]()
                        finally:
                            q.task_done(item[1])
                        item = q.get(timeout=0.001)
                except pw.OperationalError:
                    pass
                finally:
                    verif_dbext.CTL["fault_at"] = set()
            else:
                srcn = rng.choice([i for (i, g) in nodes if i != node] or [node])
                rq = db.ArchiveFileCopyRequest.create(file=1, node_from=srcn, group_to=nrow[node].group_id)
                before_req.add(rq.id)
                import peewee as pw
                import verif_dbext
                if rng.random() < 0.4:
                    # a database error somewhere in the completion: either the file does not become present, or the rules fire
                    verif_dbext.reset_counters()
                    verif_dbext.CTL["fault_at"] = {rng.randint(0, 9)}
                    trigger = "pull+dbfault"
                try:
                    ioutil.copy_request_done(rq, un.io, True, True, time.time() - 1)
                except pw.OperationalError:
                    pass
                finally:
                    verif_dbext.CTL["fault_at"] = set()
        except Exception as ex:  # noqa
            ctx.violation("trigger:raised", f"{trigger} trigger raised {type(ex).__name__}: {ex}", {"kind": "trigger", "trigger": trigger, "pre": pre})
            continue
        arrived = db.ArchiveFileCopy.get_or_none(file=1, node=node)
        if arrived is None or arrived.has_file != "Y":
            ctx.count(f"trigger:{trigger}:not-present")
            continue
        # rule oracle on the state with the arrival applied (and nothing else)
        crows2 = crows + [(arrived.id, 1, node, "Y", "Y")]
        o_req, o_cop = oracle(nodes, erows, crows2, node, 1)
        newreq = sorted((r.file_id, r.node_from_id, r.group_to_id) for r in db.ArchiveFileCopyRequest.select() if r.id not in before_req)
        after_copies = sorted((c.id, c.has_file, c.wants_file) for c in db.ArchiveFileCopy.select())
        ctx.count(f"trigger:{trigger}:pre={'none' if pre is None else pre[0] + pre[1]}:rules={'fired' if o_req or o_cop != sorted((c[0], c[3], c[4]) for c in crows2) else 'none'}")
        ctx.case(("trigger", trigger, pre, tuple(nodes), tuple(erows), tuple(crows)), nontrivial=bool(erows),
                 sample={"trigger": trigger, "own_row_before": pre, "edges": erows, "new_requests": newreq} if newreq and pre and len(ctx.samples) < 6 else None)
        if newreq != o_req:
            ctx.violation(f"trigger-autosync:{trigger}:{'new-row' if pre is None else 'existing-row'}",
                          f"file became present on node {node} through {trigger} (its copy row before: {pre}); requests created {newreq}; "
                          f"the rules give {o_req}", {"kind": "trigger", "trigger": trigger, "pre": pre, "nodes": nodes, "edges": erows,
                                                     "copies": crows, "node": node})
        if after_copies != o_cop:
            ctx.violation(f"trigger-autoclean:{trigger}:{'new-row' if pre is None else 'existing-row'}",
                          f"file became present on node {node} through {trigger} (row before: {pre}); copies afterwards {after_copies}; "
                          f"the rules give {o_cop}", {"kind": "trigger", "trigger": trigger, "pre": pre, "nodes": nodes, "edges": erows,
                                                     "copies": crows, "node": node})


def run(ctx):
    ok = common.proof_stage(ctx, MODULE)
    from alpenhorn.io import ioutil
    from alpenhorn.db import (ArchiveAcq, ArchiveFile, ArchiveFileCopy, ArchiveFileCopyRequest, StorageGroup, StorageNode,
                              StorageTransferAction)
    rng = ctx.rng
    drv = common.Driver()
    n = 1200 if ctx.quick() else 30000
    cases = []
    with envmod.Env() as e:
        for it in range(n):
            ng, nodes, edges, copies, node = gen_case(rng)
            for m in (StorageTransferAction, ArchiveFileCopyRequest, ArchiveFileCopy, ArchiveFile, ArchiveAcq, StorageNode, StorageGroup):
                m.delete().execute()
            for g in range(1, ng + 1):
                StorageGroup.insert(id=g, name=f"g{g}").execute()
            for (i, g) in nodes:
                StorageNode.insert(id=i, name=f"n{i}", group=g, root=f"/r{i}", host="h1", active=True).execute()
            acq = ArchiveAcq.create(name="a")
            for fid in (1, 2):
                ArchiveFile.insert(id=fid, acq=acq, name=f"f{fid}", size_b=1, md5sum="0" * 32).execute()
            erows = []
            for (a, b, s, c) in edges:
                ed = StorageTransferAction.create(node_from=a, group_to=b, autosync=s, autoclean=c)
                erows.append((ed.id, a, b, s, c))
            crows = []
            for (f, nd, h, w) in copies:
                c = ArchiveFileCopy.create(file=f, node=nd, has_file=h, wants_file=w)
                crows.append((c.id, f, nd, h, w))
            # pre-existing requests (must stay untouched)
            pre = []
            for _ in range(rng.randint(0, 2)):
                r = ArchiveFileCopyRequest.create(file=rng.choice([1, 2]), node_from=rng.choice(nodes)[0], group_to=rng.randint(1, ng))
                pre.append(r.id)
            before_req = sorted((r.id, r.file_id, r.node_from_id, r.group_to_id, r.completed, r.cancelled) for r in ArchiveFileCopyRequest.select())
            ioutil.post_add(StorageNode.get(id=node), ArchiveFile.get(id=1))
            after_req = sorted((r.id, r.file_id, r.node_from_id, r.group_to_id, r.completed, r.cancelled) for r in ArchiveFileCopyRequest.select())
            newreq = sorted((r[1], r[2], r[3]) for r in after_req if r[0] not in pre)
            kept = [r for r in after_req if r[0] in pre]
            after_copies = sorted((c.id, c.has_file, c.wants_file) for c in ArchiveFileCopy.select())
            after_files = sorted((c.id, c.file_id, c.node_id) for c in ArchiveFileCopy.select())
            cases.append((nodes, erows, crows, node, newreq, after_copies, kept == before_req and
                          after_files == sorted((c[0], c[1], c[2]) for c in crows)))
    with envmod.Env() as e2:
        stage_triggers(ctx, e2, 250 if ctx.quick() else 6000)
    ops = []
    for (nodes, erows, crows, node, newreq, after_copies, frame_ok) in cases:
        ns = ",".join(f"{i}:{g}" for i, g in nodes)
        es = ",".join(f"{i}:{a}:{b}:{int(s)}:{int(c)}" for (i, a, b, s, c) in erows) or "-"
        cs = ",".join(f"{i}:{f}:{n}:{h}:{w}" for (i, f, n, h, w) in crows) or "-"
        ops.append(f"postadd {ns} {es} {cs} {node} 1")
    outs = drv.batch(ops)
    for (nodes, erows, crows, node, newreq, after_copies, frame_ok), out, op in zip(cases, outs, ops):
        mr, mc = out.split()
        m_req = sorted(tuple(map(int, x.split(":"))) for x in mr.split(",")) if mr != "-" else []
        m_cop = sorted((int(x.split(":")[0]), x.split(":")[1], x.split(":")[2]) for x in mc.split(",")) if mc != "-" else []
        grp = dict(nodes)
        selfloops = sum(1 for (i, a, b, s, c) in erows if grp[a] == b)
        fired = len(newreq) + sum(1 for a, b in zip(sorted(after_copies), sorted((c[0], c[3], c[4]) for c in crows)) if a != b)
        ctx.count(f"selfloops={min(selfloops, 2)}:fired={min(fired, 2)}")
        ctx.case(op, nontrivial=len(erows) > 0,
                 sample={"nodes(id,group)": nodes, "edges(id,from,to,sync,clean)": erows, "copies": crows, "node": node, "file": 1,
                         "new_requests": newreq, "copies_after": after_copies} if fired and selfloops and len(ctx.samples) < 4 else None)
        if m_req != newreq or m_cop != after_copies:
            ctx.corr_broken.append({"stream": "post_add-vs-postAdd", "op": op, "real": [newreq, after_copies], "model": out})
        o_req, o_cop = oracle(nodes, erows, crows, node, 1)
        if newreq != o_req:
            ctx.violation("autosync:" + op[:60], f"post_add created requests {newreq}; the rules give {o_req}",
                          {"kind": "postadd", "op": op, "real_requests": newreq, "expected": o_req, "nodes": nodes, "edges": erows, "copies": crows, "node": node})
        if after_copies != o_cop:
            diff = [(a, b) for a, b in zip(after_copies, o_cop) if a != b]
            ctx.violation("autoclean:" + str(len(diff)), f"post_add left copies {diff[:3]} (real, expected)",
                          {"kind": "postadd", "op": op, "real_copies": after_copies, "expected": o_cop, "nodes": nodes, "edges": erows, "copies": crows, "node": node})
        if not frame_ok:
            ctx.violation("frame", "post_add changed a pre-existing request or a copy's file/node",
                          {"kind": "postadd", "op": op})
    ctx.corr_broken = ctx.corr_broken[:5]
    ctx.coverage["rule"] = ("random rule graphs (1-3 groups, 1-5 nodes, any subset of the unique (node,group) pairs incl. self-loops through "
                            "sibling nodes, both flags), copies of two files in all has/wants states, pre-existing requests; real "
                            "ioutil.post_add on SQLite vs Lean postAdd vs a rule evaluator written from the property text; "
                            "distinct = input line; non-trivial = at least one rule")
    from props.c06 import finish_search
    finish_search(ctx, ok)


def replay(ctx, path):
    import sys
    return common.replay_by_rerun(ctx, path, sys.modules[__name__])
