import Alpen.Model.Daemon
import Alpen.Lemmas.World
import Alpen.Lemmas.Daemon2
import Alpen.Lemmas.Transport
/-!
# C05 — quiescent convergence: pending work is finished or blocked for a stated reason

"Once operator activity and faults stop, repeated update iterations of all daemons reach a fixed
point within a bounded number of iterations at which every wanted suspect copy on a managed node
has a verdict, every released copy has been deleted or is held back only by the deletion-safety
rule, every import request is completed unless its file is still locked, and every transfer
request is completed, cancelled, or pending only for a documented reason (source inactive,
suspect or absent; destination out of space, awaiting a check, or without a usable node; no
transport route)."

Proved here: *progress* (every pending item that is not blocked is changed by the step the
iteration creates for it) and *classification* (if no first-level step of an iteration changes
the world, every pending item on that host is blocked for one of the listed reasons, or is a
dispatched transfer whose outcome is the transport's).  The bound on the number of iterations
(rule cascades) is NOT proved: `_partial`; the correspondence run measures rounds-to-fixed-point.
Import requests are covered by C04 (`C04_locked_pending`, `C04_rejection_changes_nothing`).
-/
namespace Alpen
open World

/-- **progress: suspect copies get a verdict** (a stat failure / time-out is the only way not to) -/
theorem C05_check_gives_verdict (w : World) (snap : WCopy) :
    (∃ h, h ≠ Has.M ∧ (w.checkStep snap true).2 = [.setCopy snap.id h snap.wants]) := by
  obtain ⟨h, hne, hv⟩ := checkStep_true_eq w snap
  exact ⟨h, hne, by rw [hv]⟩

/-- **progress: released copies are deleted unless the deletion-safety rule holds them back** -/
theorem C05_delete_progress (w : World) (c : WCopy)
    (h : ¬ (w.archiveCount c.file < World.copiesRequired (w.isArchive c.node))) :
    Eff.setCopy c.id .N .N ∈ (w.deleteOne c false).2 ∧ (w.deleteOne c false).1.diskAt c.node c.file = none := by
  rw [deleteOne_go w c h]
  refine ⟨List.mem_append_right _ (List.mem_singleton.mpr rfl), ?_⟩
  rw [diskAt_congr (mapCopy_disk ..), diskAt_setDisk, if_pos rfl]

/-- **progress: a request that is not blocked is cancelled (terminally) or dispatched** -/
theorem C05_request_progress (w : World) (hv : HostView) (r : WReq) (sr : Bool)
    (h : w.reqBlocked hv r sr = false) :
    (w.updatePull r sr = .cancelPresent ∨ w.updatePull r sr = .cancelSourceMissing ∨ ∃ f, w.updatePull r sr = .dispatch f) ∧
    (∃ n ∈ w.nodes, n.group = r.groupTo ∧ usable hv n = true) := by
  unfold reqBlocked at h
  rw [Bool.or_eq_false_iff] at h
  obtain ⟨h1, h2⟩ := h
  refine ⟨?_, ?_⟩
  · rcases updatePull_cases w r sr with ⟨hu, _⟩ | ⟨hu, _⟩ | ⟨hu, _⟩ | hu | ⟨hu, _⟩ | ⟨hu, _⟩ | ⟨f, hu⟩
    · exact Or.inl hu
    · rw [hu] at h2; cases h2
    · rw [hu] at h2; cases h2
    · exact Or.inr (Or.inl hu)
    · rw [hu] at h2; cases h2
    · rw [hu] at h2; cases h2
    · exact Or.inr (Or.inr ⟨f, hu⟩)
  · simp only [Bool.not_eq_false', List.any_eq_true, Bool.and_eq_true, beq_iff_eq] at h1
    obtain ⟨n, hn, hg, hu⟩ := h1
    exact ⟨n, hn, hg, hu⟩

/-- the documented reasons, spelled out -/
theorem C05_blocked_reasons (w : World) (hv : HostView) (r : WReq) (sr : Bool) (h : w.reqBlocked hv r sr = true) :
    (∀ n ∈ w.nodes, n.group = r.groupTo → usable hv n = false) ∨          -- no usable node in the destination group
    w.groupState r.groupTo r.file = .M ∨                                   -- destination awaiting a check
    (∀ n, w.node? r.nodeFrom = some n → n.active = false) ∨                -- source inactive (or unknown)
    w.filecopyState r.file r.nodeFrom = .M ∨                               -- source suspect
    sr = false := by                                                       -- source not ready (HSM)
  unfold reqBlocked at h
  rw [Bool.or_eq_true] at h
  rcases h with h | h
  · left
    intro n hn hg
    cases hu : usable hv n
    · rfl
    · have : (w.nodes.any (fun n => n.group == r.groupTo && usable hv n)) = true :=
        List.any_eq_true.mpr ⟨n, hn, by simp [hg, hu]⟩
      rw [this] at h; cases h
  · rcases updatePull_cases w r sr with ⟨hu, _⟩ | ⟨_, hr⟩ | ⟨_, hr⟩ | hu | ⟨_, hr⟩ | ⟨_, hr⟩ | ⟨f, hu⟩
    · rw [hu] at h; cases h
    · exact Or.inr (Or.inl hr)
    · exact Or.inr (Or.inr (Or.inl hr))
    · rw [hu] at h; cases h
    · exact Or.inr (Or.inr (Or.inr (Or.inl hr)))
    · exact Or.inr (Or.inr (Or.inr (Or.inr hr)))
    · rw [hu] at h; cases h

/-- a dispatched, searched, honestly transferred request completes -/
theorem C05_chain_completes (w : World) (r : WReq) (dest : Nat) (f : Bool) (sr : Bool)
    (hd : w.updatePull r sr = .dispatch f)
    (hsrc : (w.diskAt r.nodeFrom r.file).isSome) (hdest : w.filecopyState r.file dest ≠ .Y) :
    Eff.reqCompleted r.id ∈ (w.pullTask r dest .ok).2 := by
  have _ := hd
  obtain ⟨bytes, hb⟩ := Option.isSome_iff_exists.mp hsrc
  rw [pullTask_ok_eq w r dest bytes hdest hb]
  simp

/-- **classification at a fixed point** if no first-level step of an iteration on this host
    changes copies, requests or storage, then on this host's usable nodes no wanted suspect copy
    is left without a verdict, every copy `update_delete` selects is held back by the
    deletion-safety rule, and every pending request into a group served by this host is blocked
    for a documented reason or is dispatched to the transport.  "Every pending request" is restricted to the first
    pending request per file and group (`FirstPending`): the code examines one request per file and pass (`seen_files`),
    and a later duplicate stays pending behind it for a reason the property does not list — the known finding F16,
    reproduced on the real code by the check's corpus; `C05_shadowed_not_examined` states it for the model. -/
theorem C05_fixed_point_classified (w : World) (hv : HostView) (hwf : w.WellFormed)
    (hfix : ∀ op ∈ iterateOps w hv, (w.wstep op).1.copies = w.copies ∧ (w.wstep op).1.reqs = w.reqs ∧
        (w.wstep op).1.disk = w.disk) :
    (∀ c ∈ w.copies, c.node ∈ w.usableIds hv → ¬ (c.has = .M ∧ c.wants ≠ .N)) ∧
    (∀ n ∈ w.usableIds hv, ∀ id ∈ w.updateDelete n, ∀ c ∈ w.copies, c.id = id →
        w.archiveCount c.file < World.copiesRequired (w.isArchive c.node)) ∧
    (∀ r ∈ w.reqs, r.cancelled = false → w.FirstPending hv r →
        (w.reqBlocked hv r true = true ∨ ∃ f, w.updatePull r true = .dispatch f)) := by
  refine ⟨?_, ?_, ?_⟩
  · rintro c hc hn ⟨hM, hw⟩
    have hfx := (hfix _ (mem_iterateOps_check w hv c hc hn hM hw)).1
    obtain ⟨h, hne, heq⟩ := checkStep_true_eq w c
    change (w.checkStep c true).1.copies = w.copies at hfx
    rw [heq] at hfx
    have := mapCopy_fixed hfx c hc rfl
    have h2 : h = c.has := congrArg WCopy.has this
    exact hne (h2.trans hM)
  · intro n hn id hid c hc hcid
    subst hcid
    apply Classical.byContradiction
    intro hcount
    have hfx := (hfix _ (mem_iterateOps_delete w hv hwf.ids n hn c hc hid)).1
    change (w.deleteOne c false).1.copies = w.copies at hfx
    rw [deleteOne_go w c hcount] at hfx
    have := mapCopy_fixed (w := w.setDisk c.node c.file none) hfx c hc rfl
    have h2 : Has.N = c.has := congrArg WCopy.has this
    obtain ⟨c', hc', hid', hne⟩ := updateDelete_has w n c.id hid
    have := eq_of_id_eq w.copies hwf.ids hc' hc hid'
    subst this
    exact hne h2.symm
  · intro r hr hx hfirst
    have hfx := (hfix _ (mem_iterateOps_decide w hv r hfirst)).2.1
    change (w.applyDecision r (w.updatePull r true)).1.reqs = w.reqs at hfx
    have hcancel : ∀ d, (d = PullDecision.cancelPresent ∨ d = .cancelSourceMissing) →
        w.updatePull r true ≠ d := by
      intro d hd hu
      rw [hu] at hfx
      have hfx' : (w.mapReq r.id (fun x => { x with cancelled := true })).reqs = w.reqs := by
        rcases hd with rfl | rfl <;> exact hfx
      have := mapReq_fixed hfx' r hr rfl
      have h2 : true = r.cancelled := congrArg WReq.cancelled this
      rw [hx] at h2; cases h2
    rcases updatePull_cases w r true with ⟨hu, _⟩ | ⟨hu, _⟩ | ⟨hu, _⟩ | hu | ⟨hu, _⟩ | ⟨hu, _⟩ | ⟨f, hu⟩
    · exact absurd hu (hcancel _ (Or.inl rfl))
    · left; unfold reqBlocked; rw [hu]; simp
    · left; unfold reqBlocked; rw [hu]; simp
    · exact absurd hu (hcancel _ (Or.inr rfl))
    · left; unfold reqBlocked; rw [hu]; simp
    · left; unfold reqBlocked; rw [hu]; simp
    · exact Or.inr ⟨f, hu⟩

/-- **Transport groups** (`TransportGroupIO.pull_force` node choice): a request into a transport group is handed to a
    node iff the source is local and some node of the group can take the file; the node chosen is eligible (not below its
    minimum, not above its maximum, the file fits) and is the fullest such node.  So such a request stays pending only
    for the documented reasons "no transport route" (non-local source) or "destination out of space". -/
theorem C05_transport_pick (srcLocal : Bool) (nodes : List TNode) :
    (∀ id, transportPick srcLocal nodes = some id →
        srcLocal = true ∧ ∃ n ∈ nodes, n.id = id ∧ n.eligible = true ∧ ∀ m ∈ nodes, m.eligible = true → n.key ≤ m.key) ∧
    (transportPick srcLocal nodes = none ↔ (srcLocal = false ∨ ∀ n ∈ nodes, n.eligible = false)) := by
  constructor
  · intro id h
    unfold transportPick at h
    split at h
    · rename_i hl
      cases hm : minKey none (nodes.filter TNode.eligible) with
      | none => simp [hm] at h
      | some r =>
        simp [hm] at h
        have hmem := minKey_mem none _ r hm
        have hle := (minKey_le none _ r hm).2
        rcases hmem with hb | hmem
        · cases hb
        · obtain ⟨h1, h2⟩ := List.mem_filter.mp hmem
          exact ⟨hl, r, h1, h, h2, fun m hm' he => hle m (List.mem_filter.mpr ⟨hm', he⟩)⟩
    · cases h
  · unfold transportPick
    cases srcLocal with
    | false => simp
    | true =>
      simp only [if_true, Option.map_eq_none_iff, minKey_none, Bool.true_eq_false, false_or]
      constructor
      · intro h n hn
        cases he : n.eligible with
        | false => rfl
        | true =>
          have : n ∈ nodes.filter TNode.eligible := List.mem_filter.mpr ⟨hn, he⟩
          rw [h] at this; cases this
      · intro h
        apply List.filter_eq_nil_iff.mpr
        intro n hn
        simp [h n hn]

example : transportPick true [⟨1, some 500, false, false, true⟩, ⟨2, some 100, true, false, true⟩, ⟨3, some 300, false, false, true⟩,
    ⟨4, none, false, false, true⟩] = some 3 := by decide

/-- the flip side (F16): a pending request behind an earlier pending request for the same file into the same group
    is not examined by the pass, whatever the state of the earlier one -/
theorem C05_shadowed_not_examined (w : World) (hv : HostView) (r q : WReq)
    (hq : WOp.decide q true ∈ iterateOps w hv) (hr : WOp.decide r true ∈ iterateOps w hv)
    (hk : (q.file, q.groupTo) = (r.file, r.groupTo)) : q = r := by
  have key : ∀ x, WOp.decide x true ∈ iterateOps w hv → x ∈ firstPerFile [] (w.pendingInto hv) :=
    fun x hx => (decide_of_mem_iterateOps w hv x true hx).1
  have hpw := firstPerFile_pairwise [] (w.pendingInto hv)
  have hq' := key q hq
  have hr' := key r hr
  exact eq_of_key_eq_of_pairwise (fun x : WReq => (x.file, x.groupTo)) _ hpw q hq' r hr' hk

end Alpen
