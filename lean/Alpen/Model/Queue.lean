import Alpen.Model.UpDown
/-
  Model of `alpenhorn.scheduler.queue.FairMultiFIFOQueue`, field by field (including its
  redundant bookkeeping), at the granularity of its critical sections, plus ghost history
  variables used to state exactly-once delivery and per-FIFO order.  Keys and item ids are
  `Nat`.  Core Lean only.
-/
namespace Alpen

structure QItem where
  id : Nat
  excl : Bool
  deriving DecidableEq, Repr

/-- a deferred put: (expiry, item, key) -/
structure Deferred where
  expiry : Nat
  item : QItem
  key : Nat
  deriving DecidableEq, Repr

structure Q where
  known : Nat → Bool                -- key ∈ _fifos
  fifo : Nat → List QItem           -- _fifos[key], head = left-most
  inprog : Nat → Nat                -- _inprogress_counts[key]
  keysBy : Nat → Nat → Bool         -- key ∈ _keys_by_inprogress[count]
  keysByLen : Nat                   -- len(_keys_by_inprogress)
  locked : Nat → Bool               -- key ∈ _fifo_locks
  deferrals : List Deferred         -- _deferrals (kept sorted by (expiry, item id))
  joining : Bool
  totalQueued : Nat
  totalInprog : Nat
  -- ghost history
  enq : Nat → List QItem            -- everything ever appended to the FIFO of a key, in order
  delivered : List (Nat × QItem)    -- (key, item) in delivery order
  accepted : List (Nat × QItem)     -- every put that returned True
  discarded : List (Nat × QItem)    -- deferred puts thrown away by join
  jwait : Nat → Option Bool         -- joiner thread parked on all_tasks_done; value = notified

def Q.init : Q :=
  { known := fun _ => false, fifo := fun _ => [], inprog := fun _ => 0,
    keysBy := fun _ _ => false, keysByLen := 1, locked := fun _ => false,
    deferrals := [], joining := false, totalQueued := 0, totalInprog := 0,
    enq := fun _ => [], delivered := [], accepted := [], discarded := [], jwait := fun _ => none }

def upd2 (f : Nat → Nat → Bool) (c k : Nat) (v : Bool) : Nat → Nat → Bool :=
  fun c' k' => if c' = c ∧ k' = k then v else f c' k'

/-- `_put` (caller holds `_lock`) -/
def Q.rawPut (q : Q) (it : QItem) (key : Nat) : Q :=
  let q1 := if q.known key then q else
    { q with known := upd q.known key true, inprog := upd q.inprog key 0, keysBy := upd2 q.keysBy 0 key true }
  { q1 with fifo := upd q1.fifo key (q1.fifo key ++ [it]), totalQueued := q1.totalQueued + 1,
            enq := upd q1.enq key (q1.enq key ++ [it]) }

/-- immediate `put` -/
def Q.putNow (q : Q) (it : QItem) (key : Nat) : Q :=
  let q' := q.rawPut it key
  { q' with accepted := q'.accepted ++ [(key, it)] }

def insertDeferred (d : Deferred) : List Deferred → List Deferred
  | [] => [d]
  | x :: xs => if d.expiry < x.expiry ∨ (d.expiry = x.expiry ∧ d.item.id ≤ x.item.id) then d :: x :: xs
               else x :: insertDeferred d xs

/-- deferred `put` (wait > 0) at time `now`; returns false when a join is in progress -/
def Q.putDeferred (q : Q) (it : QItem) (key wait now : Nat) : Q × Bool :=
  if q.joining then (q, false)
  else ({ q with deferrals := insertDeferred ⟨now + wait, it, key⟩ q.deferrals,
                 accepted := q.accepted ++ [(key, it)] }, true)

/-- promote every deferral whose expiry is ≤ now (heap order) -/
def Q.promote (q : Q) (now : Nat) : Q :=
  let due := q.deferrals.filter (fun d => d.expiry ≤ now)
  let rest := q.deferrals.filter (fun d => !(d.expiry ≤ now))
  due.foldl (fun acc d => acc.rawPut d.item d.key) { q with deferrals := rest }

/-- may `get` hand out the head of FIFO `k` now? -/
def Q.eligible (q : Q) (k : Nat) : Bool :=
  q.known k && !q.locked k && (match q.fifo k with
    | [] => false
    | h :: _ => !(q.inprog k > 0 && h.excl))

inductive GetRes where
  | none                      -- nothing to get (time-out of this attempt)
  | item (key : Nat) (it : QItem)
  | badChoice                 -- the observed choice is not one the model allows
  deriving DecidableEq, Repr

/-- one pass of `_get` after its wait: promote due deferrals, then pop from `choice`.
    `keys` is the finite set of keys ever used (for the minimality test);
    the real code's pick among equal counts comes from a Python `set`, so it is an input. -/
def Q.getAttempt (q0 : Q) (now : Nat) (keys : List Nat) (choice : Option Nat) : Q × GetRes :=
  let q := q0.promote now
  if q.totalQueued < 1 then (q, match choice with | none => .none | some _ => .badChoice) else
  match choice with
  | none => if keys.any q.eligible then (q, .badChoice) else (q, .none)
  | some k =>
    if q.eligible k && keys.all (fun k' => !q.eligible k' || q.inprog k ≤ q.inprog k') then
      match q.fifo k with
      | [] => (q, .badChoice)
      | h :: t =>
        let c := q.inprog k
        ({ q with fifo := upd q.fifo k t, totalQueued := q.totalQueued - 1, totalInprog := q.totalInprog + 1,
                  locked := if h.excl then upd q.locked k true else q.locked,
                  inprog := upd q.inprog k (c + 1),
                  keysBy := upd2 (upd2 q.keysBy c k false) (c + 1) k true,
                  keysByLen := if q.keysByLen = c + 1 then q.keysByLen + 1 else q.keysByLen,
                  delivered := q.delivered ++ [(k, h)] }, .item k h)
    else (q, .badChoice)

/-- `task_done(key)`; `none` = ValueError -/
def Q.taskDone (q : Q) (key : Nat) : Option Q :=
  let c := q.inprog key
  if !q.known key || c = 0 then none else
  let q' := { q with keysBy := upd2 (upd2 q.keysBy c key false) (c - 1) key true,
                     locked := upd q.locked key false,
                     inprog := upd q.inprog key (c - 1),
                     totalInprog := q.totalInprog - 1 }
  if q'.totalQueued = 0 ∧ q'.totalInprog = 0 then
    some { q' with jwait := fun t => (q'.jwait t).map (fun _ => true) }
  else some q'

/-- first section of `join` (under `_dlock`) -/
def Q.joinBegin (q : Q) : Q :=
  { q with joining := true, deferrals := [],
           discarded := q.discarded ++ q.deferrals.map (fun d => (d.key, d.item)) }

/-- the guarded wait of `join` (under `_lock`): returns true when the joiner may leave -/
def Q.joinCheck (q : Q) (t : Nat) : Q × Bool :=
  if q.totalInprog > 0 ∨ q.totalQueued > 0 then ({ q with jwait := upd q.jwait t (some false) }, false)
  else ({ q with jwait := upd q.jwait t none }, true)

def Q.joinEnd (q : Q) : Q := { q with joining := false }

def Q.qsize (q : Q) : Nat := q.totalQueued
def Q.inprogressSize (q : Q) : Nat := q.totalInprog
def Q.deferredSize (q : Q) : Nat := q.deferrals.length
def Q.fifoSize (q : Q) (k : Nat) : Nat := if q.known k then (q.fifo k).length + q.inprog k else 0

inductive QOp where
  | putNow (it : QItem) (key : Nat)
  | putDeferred (it : QItem) (key wait now : Nat)
  | get (now : Nat) (choice : Option Nat)
  | taskDone (key : Nat)
  | joinBegin
  | joinCheck (t : Nat)
  | joinEnd
  deriving Repr

/-- total step function over a fixed finite key universe `keys` (ill-formed ops are no-ops) -/
def Q.step (keys : List Nat) (q : Q) : QOp → Q
  | .putNow it key => q.putNow it key
  | .putDeferred it key wait now => (q.putDeferred it key wait now).1
  | .get now choice =>
    match q.getAttempt now keys choice with
    | (_, .badChoice) => (q.promote now)   -- promotions happen regardless; a bad choice delivers nothing
    | (q', _) => q'
  | .taskDone key => (q.taskDone key).getD q
  | .joinBegin => q.joinBegin
  | .joinCheck t => (q.joinCheck t).1
  | .joinEnd => q.joinEnd

def Q.run (keys : List Nat) (q : Q) (ops : List QOp) : Q := ops.foldl (Q.step keys) q

end Alpen
