"""C05 — quiescent convergence: after a random multi-host history, fault-free rounds of all daemons reach a fixed point;
the residue is classified by an oracle written from the property text."""
import json
import os

import common
import dharness
import wharness
import env as envmod
from props import c07

MODULE = "Alpen.Props.C05"
MAX_ROUNDS = 14


def classify_residue(case):
    """every pending item must be finished or blocked for a documented reason; returns list of problems"""
    db = case.w.db
    probs = []
    usable = {h: case.usable_now(h) for h in case.hosts}
    all_usable = set().union(*usable.values())
    nodes = {n.id: n for n in db.StorageNode.select()}
    # 1. wanted suspect copies on managed nodes have a verdict
    for c in db.ArchiveFileCopy.select().where(db.ArchiveFileCopy.has_file == "M", db.ArchiveFileCopy.wants_file != "N"):
        if c.node_id in all_usable:
            probs.append(f"wanted suspect copy {c.id} on managed node {nodes[c.node_id].name} still has no verdict")
    # 2. released copies are deleted or held back only by the deletion-safety rule
    for c in db.ArchiveFileCopy.select().where(db.ArchiveFileCopy.wants_file == "N", db.ArchiveFileCopy.has_file != "N"):
        if c.node_id not in all_usable:
            continue
        n = nodes[c.node_id]
        others = (db.ArchiveFileCopy.select().join(db.StorageNode)
                  .where(db.ArchiveFileCopy.file == c.file_id, db.ArchiveFileCopy.has_file == "Y", db.StorageNode.storage_type == "A",
                         db.ArchiveFileCopy.node != n.id).count())
        pend = db.ArchiveFileCopyRequest.select().where(db.ArchiveFileCopyRequest.file == c.file_id, db.ArchiveFileCopyRequest.node_from == n.id,
                                                        db.ArchiveFileCopyRequest.completed == 0, db.ArchiveFileCopyRequest.cancelled == 0).count()
        # the implemented deletion-safety rule counts all healthy archive copies (incl. this node's own, when healthy) against
        # 3 on an archive node / 2 otherwise -- for a healthy copy that is ">= 2 others"; for a suspect/corrupt released copy on
        # an archive node it is stricter (3 others), which only holds the copy back longer
        own = 1 if (c.has_file == "Y" and n.storage_type == "A") else 0
        required = 3 if n.storage_type == "A" else 2
        if others + own >= required and not pend:
            probs.append(f"released copy {c.id} on {n.name} not deleted although {others} healthy archive copies exist elsewhere and it is no pending source")
    # 3. import requests completed (no lock files are generated here)
    for r in db.ArchiveFileImportRequest.select().where(db.ArchiveFileImportRequest.completed == 0):
        nd_ = nodes.get(r.node_id)
        full = os.path.join(nd_.root, r.path) if nd_ is not None else None
        if full and os.path.exists(os.path.join(os.path.dirname(full), "." + os.path.basename(full) + ".lock")):
            continue         # the documented exception: the file is still locked by its writer
        if r.node_id in all_usable:
            probs.append(f"import request {r.id} ({r.path}) on managed node still pending")
    # 4. transfer requests
    for r in db.ArchiveFileCopyRequest.select().where(db.ArchiveFileCopyRequest.completed == 0, db.ArchiveFileCopyRequest.cancelled == 0):
        dest_nodes = [n for n in nodes.values() if n.group_id == r.group_to_id]
        # a Default group is served by a host iff exactly one of its nodes is usable there (several: the group I/O rejects them)
        serving = []
        for h in case.hosts:
            mine = [n for n in dest_nodes if n.id in usable[h]]
            if len(mine) == 1:
                serving += mine
        src = nodes[r.node_from_id]
        sc = db.ArchiveFileCopy.get_or_none(file=r.file_id, node=src.id)
        sstate = sc.has_file if sc else "N"
        gstates = [c.has_file for c in db.ArchiveFileCopy.select().join(db.StorageNode)
                   .where(db.ArchiveFileCopy.file == r.file_id, db.StorageNode.group == r.group_to_id)]
        reasons = []
        if not serving:
            reasons.append("destination without a usable node (none, or several active on one host: rejected by the group I/O)")
        if "M" in gstates and "Y" not in gstates:
            reasons.append("destination awaiting a check")
        if not src.active:
            reasons.append("source inactive")
        if sstate == "M":
            reasons.append("source suspect")
        for n in serving:
            host = n.host
            if src.host != host and (src.address is None or src.username is None):
                reasons.append("no transport route")
            if src.host != host and getattr(case, "quiescent_tools", "rsync-only") == "none":
                reasons.append("no transport route (neither rsync nor bbcp installed on the destination host)")
            srcfile = case.w.file_on(src, db.ArchiveFile.get(id=r.file_id))
            if srcfile is None and sstate == "Y":
                reasons.append("source bytes missing although recorded healthy (tracked damage): transfer keeps failing")
        earlier = [q for q in db.ArchiveFileCopyRequest.select().where(
            db.ArchiveFileCopyRequest.completed == 0, db.ArchiveFileCopyRequest.cancelled == 0, db.ArchiveFileCopyRequest.file == r.file_id,
            db.ArchiveFileCopyRequest.group_to == r.group_to_id, db.ArchiveFileCopyRequest.id < r.id)]
        if not reasons and earlier:
            probs.append(f"SHADOWED request {r.id} (file {r.file_id}, {src.name} -> group {r.group_to_id}) is never examined: an earlier pending "
                         f"request ({earlier[0].id}) for the same file into the same group is blocked and the group update looks at one request per file")
            continue
        if not reasons:
            probs.append(f"request {r.id} (file {r.file_id}, {src.name} -> group {r.group_to_id}) is pending without a documented reason "
                         f"(source state {sstate}, destination states {gstates})")
    return probs


def corpus_shadowed(e):
    import random
    import world as worldmod
    rng = random.Random(5)
    case = dharness.DWorld.__new__(dharness.DWorld)
    # build by hand: inactive source n1 (copy Y), n3 without a copy, destination group g2 served by n2
    import wharness
    w = worldmod.World(e)
    db = w.db
    for m in (db.StorageTransferAction, db.ArchiveFileCopyRequest, db.ArchiveFileImportRequest, db.ArchiveFileCopy,
              db.ArchiveFile, db.ArchiveAcq, db.StorageNode, db.StorageGroup):
        m.delete().execute()
    g1, g2, g3 = w.group("g1"), w.group("g2"), w.group("g3")
    n1 = w.node("n1", g1, active=False)
    n2 = w.node("n2", g2)
    n3 = w.node("n3", g3)
    f = w.file(w.acq("acq"), "f.dat", b"data")
    w.copy(f, n1, has="Y")
    w.req(f, n1, g2)
    w.req(f, n3, g2)
    case.env, case.rng, case.w = e, rng, w
    case.hosts = ["h1", "h2"]
    case.daemons = {h: worldmod.Daemon(e, h) for h in case.hosts}
    case.marker_state, case.tracked, case.view, case.initq = {}, set(), {}, {}
    case.nodes, case.groups, case.files = [n1, n2, n3], [g1, g2, g3], [f]
    case.set_tools("rsync-only", "ok")
    for _ in range(4):
        dharness.round_all(case)
    os.environ["PATH"] = "/usr/local/bin:/usr/bin:/bin"
    return classify_residue(case)


def corpus_modify_then_pull(ctx):
    """regression corpus: an operator re-registers a digest with `file modify --md5` (no --size); the daemons must still converge"""
    import world as worldmod
    with envmod.CliEnv() as e:
        w = worldmod.World(e)
        g1, g2 = w.group("g1"), w.group("g2")
        n1, n2 = w.node("n1", g1), w.node("n2", g2)
        f = w.file(w.acq("acq"), "f.dat", b"payload")
        w.copy(f, n1, has="Y")
        rc, out, exc = e.cli(["file", "modify", "acq/f.dat", "--md5", worldmod.md5(b"payload").upper(), "--no-reverify"])
        w.req(w.db.ArchiveFile.get(id=f.id), n1, g2)
        d = worldmod.Daemon(e, "h1")
        try:
            for _ in range(3):
                d.drain(); d.iterate(); d.drain()
        except Exception as ex:  # noqa
            return [f"after `file modify acq/f.dat --md5 <digest>` (exit {rc}) the daemon's update pass raised {type(ex).__name__}: {ex}"]
        r = w.db.ArchiveFileCopyRequest.get()
        if not r.completed:
            return [f"after `file modify --md5` the pending transfer was not completed (size_b now {w.db.ArchiveFile.get(id=f.id).size_b})"]
    return []


def corpus_hsm(ctx, e):
    """scripted Lustre-HSM scenarios, enumerated: a released copy that is either suspect (needs a check) or the source of a
    pending transfer; the daemon starts the restore; an lfs fault (or none) hits the first call or a later poll; then the
    faults stop, the tape system completes restores, and fault-free rounds run to a fixed point (same daemon process or a
    restarted one).  The residue classifier judges the fixed point."""
    import itertools
    import json
    import shutil
    import world as worldmod
    import wharness
    import fakelfs
    out = []
    n = 0
    for role, fault, when, restart in itertools.product(["suspect", "source"], [None, "hsm_state", "hsm_restore", "hsm_action", "vanish"],
                                                         ["first", "poll"], [False, True]):
        if fault is None and when == "poll":
            continue
        import random
        rng = random.Random(f"hsm-{role}-{fault}-{when}-{restart}")
        case = dharness.DWorld.__new__(dharness.DWorld)
        w = worldmod.World(e)
        db = w.db
        for m in (db.StorageTransferAction, db.ArchiveFileCopyRequest, db.ArchiveFileImportRequest, db.ArchiveFileCopy,
                  db.ArchiveFile, db.ArchiveAcq, db.StorageNode, db.StorageGroup):
            m.delete().execute()
        shutil.rmtree(os.path.join(e.tmp, "roots"), ignore_errors=True)
        gh, gd = w.group("ghsm"), w.group("gd")
        cfg = json.dumps({"quota_id": "q", "quota_type": "group", "headroom": 10, "lfs": os.path.join(wharness.FAKE, "lfs"),
                          "restore_wait": 5, "release_check_count": 5})
        nh = w.node("nh", gh, host="h1", stype="A", io_class="LustreHSM", io_config=cfg)
        nd = w.node("dst", gd, host="h1", stype="A")
        acq = w.acq("acq")
        f = w.file(acq, "f.dat", b"tape-data")
        w.copy(f, nh, has="M" if role == "suspect" else "Y", wants="Y", ready=False)
        path = os.path.join(nh.root, "acq", "f.dat")
        if role == "source":
            w.req(f, nh, gd)
        case.env, case.rng, case.w = e, rng, w
        case.hosts = ["h1"]
        case.daemons = {"h1": (worldmod.PersistentDaemon if dharness.verif_persistent(e) else worldmod.Daemon)(e, "h1")}
        case.marker_state = {nh.id: "ok", nd.id: "ok"}
        case.tracked, case.view, case.initq = set(), {}, {}
        case.nodes, case.groups, case.files = [nh, nd], [gh, gd], [f]
        case.rich = case.multi = case.churn = False
        case.hsm, case.hsm_node = True, nh
        case.lfs_state = os.path.join(e.tmp, "lfs_state.json")
        os.environ["VERIF_LFS_STATE"] = case.lfs_state
        case.lfs_save({"paths": {path: "released"}})
        fakelfs.install(case.lfs_state)
        case.set_tools("none", "ok")
        log = []

        def arm():
            st = case.lfs_load()
            if fault == "vanish":
                os.remove(path)
                case.tracked.add((nh.id, f.id))
            elif fault:
                st["fail"] = {fault: 1}
                case.lfs_save(st)
            log.append(f"fault armed: {fault}")
        try:
            if when == "first":
                arm()
            log.append(f"pass: {[t[1] for t in case.iterate('h1')]}")
            d = case.daemons["h1"]
            for _ in range(6):            # run queued tasks until the HSM task has had its first segment
                r = d.run_task()
                log.append(f"task: {r and r[1]}")
                if r is None or "on node nh" in r[1]:
                    break
            if when == "poll":
                arm()
                d.queue._deferrals = [(k * 1e-9, *x[1:]) for k, x in enumerate(d.queue._deferrals)]
                r = d.run_task()
                log.append(f"poll: {r and r[1]}")
            if restart:
                case.restart("h1")
                log.append("daemon restarted")
            # faults stop
            sig = dharness.state_sig(case)
            rounds = 0
            for rounds in range(1, MAX_ROUNDS + 1):
                ran = dharness.round_all(case)
                log.append(f"round {rounds}: {[x[2] for x in ran][:6]}")
                s2 = dharness.state_sig(case)
                if s2 == sig:
                    break
                sig = s2
            probs = classify_residue(case) if fault != "vanish" else [p for p in classify_residue(case) if "no verdict" in p]
        finally:
            case.close()
            os.environ["PATH"] = "/usr/local/bin:/usr/bin:/bin"
        n += 1
        ctx.case(("hsm-scenario", role, fault, when, restart), nontrivial=True, sample={"scenario": [role, fault, when, restart], "steps": log} if n == 7 else None)
        ctx.count("hsm-scenarios")
        for p in probs:
            out.append((f"{p} [HSM scenario: {role} copy released on tape, lfs fault {fault} at the {when} call, "
                        f"{'daemon restarted' if restart else 'same daemon process'}]", log))
    return out


def stage_transport(ctx, n):
    from props import c14
    """`TransportGroupIO.pull_force` on real Transport groups (1-4 local transport nodes with random free space, minimum /
    maximum settings and `fits` answers; local and remote sources) vs Lean `transportPick` vs the rule oracle"""
    import world as worldmod
    import alpenhorn.daemon.update as upd
    from alpenhorn.scheduler import FairMultiFIFOQueue
    rng = ctx.rng
    lines, metas = [], []
    with envmod.Env() as e:
        for it in range(n):
            w = worldmod.World(e)
            db = w.db
            for m in (db.StorageTransferAction, db.ArchiveFileCopyRequest, db.ArchiveFileImportRequest, db.ArchiveFileCopy,
                      db.ArchiveFile, db.ArchiveAcq, db.StorageNode, db.StorageGroup):
                m.delete().execute()
            gs, gt = w.group("gs"), w.group("gt", io_class="Transport")
            local = rng.random() < 0.8
            src = w.node("src", gs, host="h1" if local else "h2", stype="F", address="a", username="u")
            f = w.file(w.acq("acq"), "f.dat", b"x" * 10)
            w.copy(f, src, has="Y")
            nodes = []
            for k in range(rng.randint(1, 4)):
                av = rng.choice([None, 1, 5, 5, 20, 100])
                nd = w.node(f"t{k}", gt, host="h1", stype="T", avail_kib=None if av is None else av * 2 ** 20,
                            min_kib=rng.choice([0, 0, 10 * 2 ** 20]), max_kib=rng.choice([None, None, 1]))
                if rng.random() < 0.4:
                    g_ = w.file(w.db.ArchiveAcq.get(name="acq"), f"big{k}.dat", b"y", size=2 ** 31)   # counts toward max_total_gb
                    db.ArchiveFileCopy.create(file=g_, node=nd, has_file="Y", wants_file="Y", size_b=2 ** 31)
                nodes.append(nd)
            req = w.req(f, src, gt)
            e.set_host("h1")
            q = FairMultiFIFOQueue()
            uns = [upd.UpdateableNode(q, db.StorageNode.get(id=nd.id)) for nd in nodes]
            ug = upd.UpdateableGroup(queue=q, group=db.StorageGroup.get(id=gt.id), nodes=uns, idle=True)
            fits = {}
            picked = []
            for un in uns:
                fits[un.db.id] = rng.random() < 0.75
                un.io.fits = (lambda size, _i=un.db.id: fits[_i])
                un.io.pull = (lambda r, _i=un.db.id: picked.append(_i))
            ug.io.pull_force(db.ArchiveFileCopyRequest.get(id=req.id))
            recs = []
            for un in uns:
                nd = un.db
                recs.append((nd.id, None if nd.avail_gb is None else round(nd.avail_gb * 2 ** 20), c14.under_min(nd), c14.at_limit(db, nd), fits[nd.id]))
            lines.append(f"tpick {int(local)} " + ",".join(f"{i}:{'-' if a is None else a}:{int(u)}:{int(o)}:{int(ft)}" for i, a, u, o, ft in recs))
            metas.append((local, recs, picked))
    outs = common.Driver().batch(lines)
    for (local, recs, picked), out, line in zip(metas, outs, lines):
        real = str(picked[0]) if picked else "-"
        elig = [r for r in recs if not r[2] and not r[3] and r[4]]
        ctx.count(f"transport:{'local' if local else 'remote'}:eligible={min(len(elig), 2)}:{'picked' if picked else 'none'}")
        ctx.case(("transport", line), nontrivial=len(recs) > 1,
                 sample={"source_local": local, "nodes(id,availKiB,underMin,overMax,fits)": recs, "picked": picked} if len(elig) > 1 and len(ctx.samples) < 6 else None)
        if len(picked) > 1:
            ctx.violation("transport:two-nodes", f"pull_force handed one request to two nodes {picked}", {"kind": "transport", "op": line})
        # rule oracle: local source and some eligible node <=> handed to a node; that node is eligible and no eligible node is fuller
        if picked:
            me = [r for r in recs if r[0] == picked[0]][0]
            key = lambda r: r[1] if r[1] is not None else r[0] * 10 ** 9 * 2 ** 20
            if not local or me not in elig or any(key(r) < key(me) for r in elig):
                ctx.violation("transport:wrong-node", f"pull_force chose node {picked[0]} among {recs} (source local: {local})", {"kind": "transport", "op": line})
        elif local and elig:
            ctx.violation("transport:not-dispatched", f"pull_force dispatched nothing although nodes {[r[0] for r in elig]} can take the file "
                          f"(nodes {recs})", {"kind": "transport", "op": line})
        if out.strip() != real and len(ctx.corr_broken) < 5:
            ctx.corr_broken.append({"stream": "TransportGroupIO.pull_force-vs-transportPick", "op": line, "real": real, "model": out})


def corpus_transport_convergence(ctx):
    """scripted: several requests into a Transport group (1-3 transport nodes with scripted, ample free space) are all filed
    at once or one per pass; the real daemon runs fault-free passes to a fixed point.  Every request must end completed: none
    of the documented reasons to stay pending applies (sources healthy and local, space for every file, nothing to check)."""
    import itertools
    import shutil
    import world as worldmod
    probs = []
    with envmod.Env() as e:
        for k, nreq, spread in itertools.product([1, 2, 3], [2, 5, 8], ["at-once", "one-per-pass"]):
            w = worldmod.World(e)
            db = w.db
            for m in (db.StorageTransferAction, db.ArchiveFileCopyRequest, db.ArchiveFileImportRequest, db.ArchiveFileCopy,
                      db.ArchiveFile, db.ArchiveAcq, db.StorageNode, db.StorageGroup):
                m.delete().execute()
            shutil.rmtree(os.path.join(e.tmp, "roots"), ignore_errors=True)
            from alpenhorn.io import default as dmod
            with dmod._mutex:
                dmod._reserved_bytes.clear()
            gs, gt = w.group("gs"), w.group("gt", io_class="Transport")
            src = w.node("src", gs, stype="F")
            ts = [w.node(f"t{i}", gt, stype="T") for i in range(k)]
            acq = w.acq("acq")
            size = 10000
            files = [w.file(acq, f"f{i}.dat", bytes([65 + i]) * size) for i in range(nreq)]
            for f in files:
                w.copy(f, src, has="Y")
            free = {n.root: 12 * size for n in ts}          # room for six transfers' reservations at once, per node
            real_statvfs = os.statvfs

            class SV:
                def __init__(self, b):
                    self.f_bavail, self.f_bsize = b, 1
            os.statvfs = lambda path, _f=free: SV(_f[str(path)]) if str(path) in _f else real_statvfs(path)
            os.environ["PATH"] = os.path.join(wharness.FAKE, "none")
            log = [f"{k} transport node(s) with {12 * size} bytes free each; {nreq} requests of {size} bytes, filed {spread}"]
            try:
                d = worldmod.Daemon(e, "h1")
                todo = list(files)
                if spread == "at-once":
                    for f in todo:
                        w.req(f, src, gt)
                    todo = []
                for ps in range(nreq + 6):
                    if todo:
                        w.req(todo.pop(0), src, gt)
                    d.iterate()
                    ran = d.drain()
                    log.append(f"pass {ps + 1}: {[r[1] for r in ran][:6]}")
            finally:
                os.statvfs = real_statvfs
                os.environ["PATH"] = "/usr/local/bin:/usr/bin:/bin"
            RQ = db.ArchiveFileCopyRequest
            pend = [r.file_id for r in RQ.select().where(RQ.completed == 0, RQ.cancelled == 0)]
            ctx.case(("transport-convergence", k, nreq, spread), nontrivial=True, sample={"scenario": log} if (k, nreq, spread) == (2, 5, "at-once") else None)
            ctx.count(f"transport-convergence:{'all-completed' if not pend else 'pending'}")
            if pend:
                probs.append((f"{len(pend)} of {nreq} requests into Transport group gt are still pending after {nreq + 6} fault-free passes with "
                              f"nothing queued, although every source copy is healthy and local and each of the {k} node(s) has "
                              f"{12 * size} bytes free for files of {size} bytes (none of the documented reasons applies)", log))
    return probs


def corpus_scan_requests(ctx):
    """"every import request is completed unless its file is still locked": recursive (scan) and single-file import requests
    for trees of every shape - files, an empty directory, directories holding only directories, only dot-files, a path that
    does not exist - on a node of the real daemon; four fault-free passes.  Nothing is locked, so nothing may stay pending."""
    import shutil
    import world as worldmod
    probs = []
    with envmod.Env() as e:
        w = worldmod.World(e)
        db = w.db
        for m in (db.StorageTransferAction, db.ArchiveFileCopyRequest, db.ArchiveFileImportRequest, db.ArchiveFileCopy,
                  db.ArchiveFile, db.ArchiveAcq, db.StorageNode, db.StorageGroup):
            m.delete().execute()
        shutil.rmtree(os.path.join(e.tmp, "roots"), ignore_errors=True)
        n = w.node("n", w.group("g"))
        root = n.root
        for d in ("full/sub", "empty", "onlydirs/a/b", "dots"):
            os.makedirs(os.path.join(root, d), exist_ok=True)
        for rel, data in (("full/x.dat", b"x"), ("full/sub/y.dat", b"yy"), ("dots/.hidden", b"h")):
            with open(os.path.join(root, rel), "wb") as fh:
                fh.write(data)
        import verif_idext
        verif_idext.MODE[:] = ["first", 1]
        reqs = [("full", True), ("empty", True), ("onlydirs", True), ("onlydirs/a", True), ("dots", True), ("nowhere", True),
                ("full/x.dat", False), ("nowhere/z.dat", False), ("empty", False)]
        for path, rec in reqs:
            db.ArchiveFileImportRequest.create(node=n, path=path, recurse=rec, register=True)
        os.environ["PATH"] = os.path.join(wharness.FAKE, "none")
        try:
            d = worldmod.Daemon(e, "h1")
            for _ in range(4):
                d.iterate()
                d.drain()
        finally:
            os.environ["PATH"] = "/usr/local/bin:/usr/bin:/bin"
        for r in db.ArchiveFileImportRequest.select():
            ctx.case(("scan-request", r.path, bool(r.recurse)), nontrivial=True)
            ctx.count(f"scan-requests:{'completed' if r.completed else 'pending'}")
            if not r.completed:
                probs.append(f"import request for {r.path!r} (recurse={bool(r.recurse)}) is still pending after four fault-free passes although "
                             f"nothing on the node is locked (tree: files under full/, an empty directory, directories of directories, a "
                             f"dot-file, a missing path)")
    return probs


def one_history(ctx, e, hseed, hsm=None):
    """a random history, then fault-free rounds to a fixed point; returns (log, rounds, [(key, problem)])"""
    import random
    hr = random.Random(hseed)
    case, p7, p8, log = c07.run_history(ctx, e, hr, hr.randint(6, 25), hsm=hsm, keep_open=True)
    # operator activity and faults stop; the transports installed stay what they are: scripted rsync, rsync + bbcp, or none
    case.quiescent_tools = hr.choice(["rsync-only", "rsync-only", "both", "none"])
    case.set_tools(case.quiescent_tools, "ok")
    sig = dharness.state_sig(case)
    rounds = 0
    converged = False
    raised = None
    while rounds < MAX_ROUNDS:
        try:
            dharness.round_all(case)
        except Exception as ex:  # noqa
            raised = f"{type(ex).__name__}: {ex}"
            break
        rounds += 1
        s2 = dharness.state_sig(case)
        if s2 == sig:
            converged = True
            break
        sig = s2
    os.environ["PATH"] = "/usr/local/bin:/usr/bin:/bin"
    case.close()
    if raised:
        return log, rounds, [("round-raised:" + raised[:30], f"a fault-free round raised {raised}")]
    if not converged:
        return log, rounds, [("no-fixed-point", f"no fixed point within {MAX_ROUNDS} fault-free rounds (state keeps changing)")]
    out = []
    for p in classify_residue(case):
        out.append(("request-shadowed" if p.startswith("SHADOWED") else "residue:" + p.split("(")[0][:40].replace(" ", "_"), p))
    return log, rounds, out


def run(ctx):
    ok = common.proof_stage(ctx, MODULE)
    nh = 110 if ctx.quick() else 2500
    dist = {}
    with envmod.Env(dbfile=True) as e:      # file database: persistent daemon loops (threads)
        for i in range(nh):
            hseed = f"{ctx.prop}-{ctx.seed}-h{i}"
            log, rounds, probs = one_history(ctx, e, hseed)
            dist[rounds] = dist.get(rounds, 0) + 1
            ctx.count(f"rounds-to-fixed-point={rounds}")
            ctx.case(tuple(log), nontrivial=len(log) > 4, sample={"history": log[:20], "rounds_to_fixed_point": rounds} if i == 0 else None)
            for key, p in probs:
                ctx.violation(key, p, {"kind": "dhistory", "hseed": hseed, "history": log})
        os.environ["PATH"] = "/usr/local/bin:/usr/bin:/bin"
        for p, steps in corpus_hsm(ctx, e):
            ctx.violation("residue:hsm:" + p.split("(")[0][:40].replace(" ", "_"), p, {"kind": "hsm-scenario", "steps": steps})
    stage_transport(ctx, 150 if ctx.quick() else 4000)
    for p, lg in corpus_transport_convergence(ctx):
        ctx.violation("transport:not-converged", p, {"kind": "corpus", "name": "transport convergence", "steps": lg})
    for p in corpus_scan_requests(ctx):
        ctx.violation("import-request-pending", p, {"kind": "corpus", "name": "scan requests"})
    for p in corpus_modify_then_pull(ctx):
        ctx.violation("modify-md5-nulls-size", p, {"kind": "corpus", "name": "file modify --md5 then pull"})
    with envmod.Env() as e:
        # regression corpus: the shadowed-request corner (known finding F16)
        for p in corpus_shadowed(e):
            ctx.violation("request-shadowed" if p.startswith("SHADOWED") else "residue:corpus", p, {"kind": "corpus", "name": "shadowed request"})
    ctx.coverage["rounds_to_fixed_point"] = dist
    ctx.coverage["rule"] = ("random two-host histories (as C07) followed by fault-free rounds (every daemon: one update pass, all tasks incl. "
                            "deferred) until a whole round changes neither index nor storage (max 14 rounds); then every wanted suspect copy, "
                            "released copy, import request and transfer request on managed nodes is classified by an oracle written from the "
                            "property's list of documented reasons. distinct = history log")
    ctx.assumptions.append("bound on the number of iterations is measured, not proved (rule cascades): C05 bound is _partial")
    from props.c06 import finish_search
    finish_search(ctx, ok)


def replay(ctx, path):
    """re-run the recorded history + fault-free rounds (same per-history seed) on the current tree"""
    d = json.load(open(path))
    print(json.dumps({k: d[k] for k in d if k != "history"}, indent=1)[:3000])
    if d.get("kind") == "hsm-scenario":
        with envmod.Env(dbfile=True) as e:
            probs = corpus_hsm(ctx, e)
        for p, steps in probs:
            print("VIOLATION-REPRODUCED:", p)
        return 1 if probs else 0
    if d.get("kind") == "corpus":
        with envmod.Env() as e:
            if "transport" in d.get("name", ""):
                probs = [p for p, _ in corpus_transport_convergence(ctx)]
            elif "scan" in d.get("name", ""):
                probs = corpus_scan_requests(ctx)
            else:
                probs = corpus_modify_then_pull(ctx) if "modify" in d.get("name", "") else corpus_shadowed(e)
        for p in probs:
            print("VIOLATION-REPRODUCED:", p)
        return 1 if probs else 0
    if "hseed" not in d:
        return 1
    with envmod.Env(dbfile=True) as e:
        log, rounds, probs = one_history(ctx, e, d["hseed"])
    for l in log:
        print("  ", l[:200])
    print("rounds to fixed point:", rounds)
    for key, p in probs:
        print("VIOLATION-REPRODUCED:", p)
    return 1 if probs else 0
