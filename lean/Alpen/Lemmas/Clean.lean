import Alpen.Model.Clean
/-! Helper lemmas on `selectLoop` / `needAfter` / `batchesF`. Core Lean only. -/
namespace Alpen

theorem selectLoop_sublist (pending : Nat → Bool) (need : Int) (l : List DCopy) :
    (selectLoop pending need l).Sublist l := by
  induction l generalizing need with
  | nil => simp [selectLoop]
  | cons c cs ih =>
    unfold selectLoop
    split
    · exact (ih _).cons _
    · split
      · exact (ih _).cons _
      · exact (ih _).cons_cons _

theorem selectLoop_pending (pending : Nat → Bool) (need : Int) (l : List DCopy) :
    ∀ c ∈ selectLoop pending need l, pending c.file = false := by
  induction l generalizing need with
  | nil => simp [selectLoop]
  | cons c cs ih =>
    unfold selectLoop
    split
    · exact ih _
    · split
      · exact ih _
      · intro x hx
        rcases List.mem_cons.mp hx with rfl | hx
        · simp_all
        · exact ih _ x hx

theorem selectLoop_mem_of_not_M (pending : Nat → Bool) (need : Int) (l : List DCopy)
    (c : DCopy) (hc : c ∈ l) (hw : c.wants ≠ .M) (hp : pending c.file = false) :
    c ∈ selectLoop pending need l := by
  induction l generalizing need with
  | nil => cases hc
  | cons d ds ih =>
    unfold selectLoop
    rcases List.mem_cons.mp hc with rfl | hc
    · simp [hw, hp]
    · split
      · exact ih _ hc
      · split
        · exact ih _ hc
        · exact List.mem_cons_of_mem _ (ih _ hc)

theorem selectLoop_nonpos_not_M (pending : Nat → Bool) (need : Int) (l : List DCopy)
    (h : need ≤ 0) : ∀ c ∈ selectLoop pending need l, c.wants ≠ .M := by
  induction l generalizing need with
  | nil => simp [selectLoop]
  | cons c cs ih =>
    unfold selectLoop
    split
    · exact ih _ h
    · split
      · exact ih _ h
      · rename_i h1 _
        have hn : ¬ need > 0 := by omega
        intro x hx
        rcases List.mem_cons.mp hx with rfl | hx
        · intro hM; exact h1 ⟨hM, h⟩
        · rw [if_neg hn] at hx
          exact ih _ h x hx

theorem needAfter_le (pending : Nat → Bool) (need : Int) (l : List DCopy) :
    needAfter pending need l ≤ need := by
  induction l generalizing need with
  | nil => simp [needAfter]
  | cons c cs ih =>
    unfold needAfter
    split
    · exact ih _
    · split
      · exact ih _
      · have := ih (if need > 0 then need - credit c else need)
        by_cases hn : need > 0
        · rw [if_pos hn] at this ⊢; omega
        · rw [if_neg hn] at this ⊢; omega

theorem needAfter_nonpos (pending : Nat → Bool) (need : Int) (l : List DCopy) (h : need ≤ 0) :
    needAfter pending need l = need := by
  induction l generalizing need with
  | nil => simp [needAfter]
  | cons c cs ih =>
    unfold needAfter
    have hn : ¬ need > 0 := by omega
    split
    · exact ih _ h
    · split
      · exact ih _ h
      · exact ih _ h

theorem selectLoop_split_M (pending : Nat → Bool) (need : Int) (pre post : List DCopy) (c : DCopy)
    (hc : c.wants = .M) :
    selectLoop pending need (pre ++ c :: post) =
      selectLoop pending need pre ++
        (if pending c.file = false ∧ needAfter pending need pre > 0
         then c :: selectLoop pending (needAfter pending need pre - credit c) post
         else selectLoop pending (needAfter pending need pre) post) := by
  induction pre generalizing need with
  | nil =>
    simp only [List.nil_append, selectLoop, needAfter, hc, true_and]
    by_cases h1 : need ≤ 0
    · have : ¬ need > 0 := by omega
      simp [h1, this]
    · have h2 : need > 0 := by omega
      cases hp : pending c.file <;> simp [h1, h2]
  | cons d ds ih =>
    by_cases h1 : d.wants = .M ∧ need ≤ 0
    · simp only [List.cons_append, selectLoop, needAfter, h1, and_self, if_true]
      exact ih _
    · by_cases h2 : pending d.file = true
      · simp only [List.cons_append, selectLoop, needAfter, h1, h2, if_true, if_false]
        exact ih _
      · simp only [List.cons_append, selectLoop, needAfter, h1, h2, Bool.false_eq_true, if_false]
        rw [ih]

theorem batchesF_spec (fuel : Nat) (l : List DCopy) (h : l.length ≤ fuel) :
    (batchesF fuel l).flatten = l ∧ ∀ b ∈ batchesF fuel l, b ≠ [] ∧ b.length ≤ 10 := by
  induction fuel generalizing l with
  | zero =>
    have : l = [] := List.length_eq_zero_iff.mp (by omega)
    subst this; simp [batchesF]
  | succ n ih =>
    unfold batchesF
    split
    · rename_i hl; subst hl; simp
    · rename_i hl
      split
      · rename_i h10; simp [hl, h10]
      · rename_i h10
        have hd : (l.drop 10).length ≤ n := by
          have : (l.drop 10).length = l.length - 10 := List.length_drop
          omega
        obtain ⟨ih1, ih2⟩ := ih (l.drop 10) hd
        constructor
        · simp [ih1, List.take_append_drop]
        · intro b hb
          rcases List.mem_cons.mp hb with rfl | hb
          · constructor
            · intro ht
              have h1 : (l.take 10).length = min 10 l.length := List.length_take
              rw [ht] at h1
              simp only [List.length_nil] at h1
              omega
            · have h1 : (l.take 10).length = min 10 l.length := List.length_take
              omega
          · exact ih2 b hb

theorem candidate_spec (press : Bool) (c : DCopy) (h : candidate press c = true) :
    c.has ≠ .N ∧ c.wants ≠ .Y ∧ (press = false → c.wants = .N) := by
  unfold candidate at h
  cases press <;> cases hh : c.has <;> cases hw : c.wants <;> simp_all

theorem candidate_of_released (press : Bool) (c : DCopy) (hw : c.wants = .N) (hh : c.has ≠ .N) :
    candidate press c = true := by
  unfold candidate
  cases press <;> simp [hw, hh]

end Alpen
