import Alpen.Model.Hsm
import Alpen.Lemmas.Str
/-! Helper lemmas for `Props/C20.lean` (HSM models). Core Lean only. -/
namespace Alpen

theorem drop_length_append_cons (p : Str) (c : Char) (rest : Str) :
    (p ++ c :: rest).drop p.length = c :: rest := by
  simp

theorem stripPath_colon (path rest : Str) :
    stripPath path (path ++ ':' :: rest) = some (':' :: rest) := by
  unfold stripPath
  have h : (path ++ [':']).isPrefixOf (path ++ ':' :: rest) = true := by
    rw [List.isPrefixOf_iff_prefix]
    exact ⟨rest, by simp⟩
  rw [if_pos h, drop_length_append_cons]

/-! ### restore wait -/

theorem mem_clear (b : Rbk) (f g : Nat) :
    (g ∈ (b.clear f).restoring ↔ g ∈ b.restoring ∧ g ≠ f) ∧
    (g ∈ (b.clear f).started ↔ g ∈ b.started ∧ g ≠ f) := by
  simp [Rbk.clear, List.mem_filter]

theorem mem_mark_self (b : Rbk) (f : Nat) : f ∈ (b.mark f).restoring := by
  unfold Rbk.mark
  by_cases h : b.restoring.contains f = true
  · rw [if_pos h]; simpa using h
  · rw [if_neg h]; simp

theorem mem_mark_ne (b : Rbk) (f g : Nat) (hg : g ≠ f) :
    g ∈ (b.mark f).restoring ↔ g ∈ b.restoring := by
  unfold Rbk.mark
  by_cases h : b.restoring.contains f = true
  · rw [if_pos h]
  · rw [if_neg h]; simp [hg]

theorem restoreWait_cases (b : Rbk) (f : Nat) (st : Option HsmState) (rr : Option Bool) :
    (restoreWait b f st rr = (b.clear f, .error)) ∨
    (restoreWait b f st rr = (b.mark f, .wait)) ∨
    (restoreWait b f st rr = (b.clear f, .ready) ∧ (st = some .restored ∨ st = some .unarchived)) := by
  rcases st with _ | st
  · simp [restoreWait]
  · cases st
    case released =>
      rcases rr with _ | rr
      · simp [restoreWait]
      · cases rr <;> simp [restoreWait]
    all_goals simp [restoreWait]

/-! ### release selection -/

/-- like `releaseLoop` but returning the selected copies -/
def releaseLoopC (need : Int) : Int → List RCopy → List RCopy
  | _, [] => []
  | total, c :: cs =>
    if c.state = some .restored then
      let total' := total + c.size
      if total' ≥ need then [c] else c :: releaseLoopC need total' cs
    else releaseLoopC need total cs

theorem releaseLoop_eq_map (need total : Int) (l : List RCopy) :
    releaseLoop need total l = (releaseLoopC need total l).map (·.id) := by
  induction l generalizing total with
  | nil => rfl
  | cons c cs ih =>
    unfold releaseLoop releaseLoopC
    by_cases hs : c.state = some .restored
    · simp only [hs, if_true]
      by_cases ht : total + (c.size : Int) ≥ need
      · simp [ht]
      · simp [ht, ih]
    · simp only [hs, if_false]; exact ih total

theorem releaseLoopC_sublist (need total : Int) (l : List RCopy) :
    (releaseLoopC need total l).Sublist l := by
  induction l generalizing total with
  | nil => exact List.Sublist.slnil
  | cons c cs ih =>
    unfold releaseLoopC
    by_cases hs : c.state = some .restored
    · simp only [hs, if_true]
      by_cases ht : total + (c.size : Int) ≥ need
      · simp [ht]
      · simp only [ht, if_false]; exact (ih _).cons_cons c
    · simp only [hs, if_false]; exact (ih total).cons c

theorem releaseLoopC_restored (need total : Int) (l : List RCopy) :
    ∀ c ∈ releaseLoopC need total l, c.state = some .restored := by
  induction l generalizing total with
  | nil => intro c hc; simp [releaseLoopC] at hc
  | cons c cs ih =>
    unfold releaseLoopC
    by_cases hs : c.state = some .restored
    · simp only [hs, if_true]
      by_cases ht : total + (c.size : Int) ≥ need
      · simp only [ht, if_true]; intro x hx; simp at hx; rw [hx]; exact hs
      · simp only [ht, if_false]
        intro x hx
        rcases List.mem_cons.mp hx with rfl | hx
        · exact hs
        · exact ih _ x hx
    · simp only [hs, if_false]; exact ih total

theorem releaseLoopC_minimal (need total : Int) (l : List RCopy) (ht0 : total < need)
    (hne : releaseLoopC need total l ≠ []) :
    total + ((releaseLoopC need total l).dropLast.map (fun c => (c.size : Int))).sum < need := by
  induction l generalizing total with
  | nil => simp [releaseLoopC] at hne
  | cons c cs ih =>
    unfold releaseLoopC at hne ⊢
    by_cases hs : c.state = some .restored
    · simp only [hs, if_true] at hne ⊢
      by_cases ht : total + (c.size : Int) ≥ need
      · simp only [ht, if_true]; simpa using ht0
      · simp only [ht, if_false] at hne ⊢
        by_cases hr : releaseLoopC need (total + (c.size : Int)) cs = []
        · rw [hr]; simpa using ht0
        · have := ih (total + (c.size : Int)) (by omega) hr
          rw [List.dropLast_cons_of_ne_nil hr]
          simp only [List.map_cons, List.sum_cons]
          omega
    · simp only [hs, if_false] at hne ⊢
      exact ih total ht0 hne

theorem find_id_of_mem_nodup (copies : List RCopy) (hnd : (copies.map (·.id)).Nodup)
    (c : RCopy) (hc : c ∈ copies) : copies.find? (·.id == c.id) = some c := by
  induction copies with
  | nil => simp at hc
  | cons d ds ih =>
    simp only [List.map_cons, List.nodup_cons] at hnd
    rcases List.mem_cons.mp hc with rfl | hc
    · simp
    · have hne : d.id ≠ c.id := by
        intro e; apply hnd.1; rw [e]; exact List.mem_map.mpr ⟨c, hc, rfl⟩
      rw [List.find?_cons_of_neg (by simpa using hne)]
      exact ih hnd.2 hc

end Alpen
