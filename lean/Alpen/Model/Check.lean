import Alpen.Model.Basic
import Alpen.Model.Str
/-
  Models for C03: the verdict of `check_async`, the block/chunk loop of `_md5sum_file`,
  the CLI digest validator.  Core Lean only.
-/
namespace Alpen

/-- what `check_async` observed on disk -/
structure Observed where
  exists_ : Bool
  statOk : Bool                 -- `stat` succeeded (no OSError / time-out)
  len : Nat                     -- st_size
  digest : Option Str           -- `io.md5(path)`: `none` on FileNotFound/PermissionError/time-out
  deriving DecidableEq, Repr

/-- verdict written to `has_file`; `none` = check abandoned, copy left unchanged.
    Repaired behaviour: a registered size is enforced whenever it is not NULL. -/
def checkVerdict (o : Observed) (regSize : Option Nat) (regDigest : Option Str) : Option Has :=
  if !o.exists_ then some .N
  else if !o.statOk then none
  else match regSize with
    | some s => if o.len != s then some .X
                else if o.digest = regDigest then some .Y else some .X
    | none => if o.digest = regDigest then some .Y else some .X

/-- pinned behaviour: `if copy.file.size_b and size != copy.file.size_b` — a registered size
    of 0 is not enforced -/
def checkVerdictLegacy (o : Observed) (regSize : Option Nat) (regDigest : Option Str) : Option Has :=
  if !o.exists_ then some .N
  else if !o.statOk then none
  else if truthy regSize && o.len != regSize.getD 0 then some .X
  else if o.digest = regDigest then some .Y else some .X

/-! ### `_md5sum_file`: blocks and chunks -/

abbrev Bytes := List UInt8

/-- one `_md5_chunk` call: read blocks of `bs` bytes, feeding each to the hash (`fed` collects
    them), until `b""` is read (→ eof) or `bpc` blocks have been fed (→ not eof).
    Returns (blocks fed by this call, rest of file, eof). `fuel` ≥ `bpc` suffices. -/
def md5Chunk (bs bpc : Nat) : Nat → Nat → Bytes → List Bytes × Bytes × Bool
  | 0, _, rest => ([], rest, false)
  | fuel + 1, count, rest =>
    let block := rest.take bs
    if block = [] then ([], rest, true)
    else
      let rest' := rest.drop bs
      if count + 1 ≥ bpc then ([block], rest', false)
      else
        let (bl, r, e) := md5Chunk bs bpc fuel (count + 1) rest'
        (block :: bl, r, e)

/-- the outer `while not eof` loop; returns all blocks fed to the hash, in order -/
def md5Blocks (bs bpc : Nat) : Nat → Bytes → List Bytes
  | 0, _ => []
  | fuel + 1, rest =>
    let (bl, r, e) := md5Chunk bs bpc bpc 0 rest
    if e then bl else bl ++ md5Blocks bs bpc fuel r

/-- an incremental hash with the law `update (update s a) b = update s (a ++ b)` -/
structure HashAlg (σ : Type) where
  init : σ
  update : σ → Bytes → σ
  law : ∀ s a b, update (update s a) b = update s (a ++ b)

def HashAlg.feed {σ} (H : HashAlg σ) (blocks : List Bytes) : σ := blocks.foldl H.update H.init

/-! ### digest validator (repaired: exactly 32 hex digits, stored lower-case) -/

def isHexDigit (c : Char) : Bool :=
  ('0' ≤ c && c ≤ '9') || ('a' ≤ c && c ≤ 'f') || ('A' ≤ c && c ≤ 'F')

def lowerHex (c : Char) : Char := if 'A' ≤ c && c ≤ 'F' then Char.ofNat (c.toNat + 32) else c

/-- `validate_md5`: `none` = rejected, `some d` = accepted and `d` is what gets stored -/
def validateMd5 (s : Str) : Option Str :=
  if s.length = 32 ∧ s.all isHexDigit then some (s.map lowerHex) else none

def isLowerHexDigit (c : Char) : Bool := ('0' ≤ c && c ≤ '9') || ('a' ≤ c && c ≤ 'f')

def hexVal (c : Char) : Nat :=
  if '0' ≤ c && c ≤ '9' then c.toNat - 48
  else if 'a' ≤ c && c ≤ 'f' then c.toNat - 87
  else if 'A' ≤ c && c ≤ 'F' then c.toNat - 55 else 0

def hexValue (s : Str) : Nat := s.foldl (fun acc c => acc * 16 + hexVal c) 0

end Alpen
