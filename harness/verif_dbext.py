"""alpenhorn *database extension* used by the verification harness.

Listed under `extensions:` in the alpenhorn config; provides the "connect" capability
returning an instrumented peewee.SqliteDatabase (statement counter, fault plan,
scheduling hook).  Works for the daemon and the click CLI; needs no change in /repo.
"""
import os
import threading

import peewee as pw

# module-level control block (set by the harness)
CTL = {
    "path": os.environ.get("VERIF_DB_PATH", ":memory:"),
    "uri": False,
    "reentrant": True,
    "fault_at": set(),      # statement indices (0-based, counted from last reset) that raise OperationalError
    "fault_hook": None,     # callable(sql, params, index) -> bool (raise?)
    "stmt_hook": None,      # callable(sql, params, index) called before each statement (scheduling/crash point)
    "log": None,            # list to append (sql, params) to
    "count": 0,
    "write_only_faults": False,
}
_lock = threading.Lock()


def reset_counters():
    CTL["count"] = 0


class VerifSqlite(pw.SqliteDatabase):
    def execute_sql(self, sql, params=None, *a, **kw):
        with _lock:
            idx = CTL["count"]
            CTL["count"] = idx + 1
        if CTL["log"] is not None:
            CTL["log"].append((sql, tuple(params) if params else ()))
        hook = CTL["stmt_hook"]
        if hook is not None:
            hook(sql, params, idx)
        fh = CTL["fault_hook"]
        if idx in CTL["fault_at"] or (fh is not None and fh(sql, params, idx)):
            raise pw.OperationalError(f"injected fault at statement {idx}: {sql[:60]}")
        return super().execute_sql(sql, params, *a, **kw)


def _connect(config):
    path = config.get("verif_path", CTL["path"])
    kw = {}
    if CTL["uri"] or str(path).startswith("file:"):
        kw["uri"] = True
    db = VerifSqlite(path, pragmas={"foreign_keys": 0, "busy_timeout": 20000, "synchronous": 0}, check_same_thread=False,
                     timeout=20, **kw)
    return db


def register_extension():
    return {"database": {"connect": _connect, "reentrant": CTL["reentrant"]}}
