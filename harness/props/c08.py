"""C08 — index well-formedness and index/storage agreement over real multi-daemon histories (runner shared with C07)."""
import json
import os
import re
import random

import common
import env as envmod
from props import c07

MODULE = "Alpen.Props.C08"


def corpus_import_delete_race(e):
    """regression corpus (known finding F21): a released copy is being deleted by one worker while another worker imports the
    same file on the same node (an operator's import request): up to 150 seeded two-worker schedules of that one pass"""
    import dharness
    import world as worldmod
    for trial in range(150):
        rng = random.Random(f"import-delete-race-{trial}")
        case = dharness.DWorld.__new__(dharness.DWorld)
        w = worldmod.World(e)
        db = w.db
        for m in (db.StorageTransferAction, db.ArchiveFileCopyRequest, db.ArchiveFileImportRequest, db.ArchiveFileCopy,
                  db.ArchiveFile, db.ArchiveAcq, db.StorageNode, db.StorageGroup):
            m.delete().execute()
        import shutil
        shutil.rmtree(os.path.join(e.tmp, "roots"), ignore_errors=True)
        g1, g2, g3 = w.group("g1"), w.group("g2"), w.group("g3")
        n1, a1, a2 = w.node("n1", g1, stype="F"), w.node("a1", g2, stype="A"), w.node("a2", g3, stype="A")
        f = w.file(w.acq("acq"), "sub/f0.dat", b"payload payload")
        w.copy(f, n1, has="Y", wants="N")
        w.copy(f, a1, has="Y")
        w.copy(f, a2, has="Y")
        db.ArchiveFileImportRequest.create(node=n1, path="acq/sub/f0.dat", recurse=False, register=True)
        case.env, case.rng, case.w = e, rng, w
        case.hosts = ["h1"]
        case.daemons = {"h1": (worldmod.PersistentDaemon if dharness.verif_persistent(e) else worldmod.Daemon)(e, "h1")}
        case.marker_state = {x.id: "ok" for x in (n1, a1, a2)}
        case.tracked, case.view, case.initq = set(), {}, {}
        case.nodes, case.groups, case.files = [n1, a1, a2], [g1, g2, g3], [f]
        case.rich = case.multi = case.churn = case.hsm = False
        case.set_tools("none", "ok")
        try:
            case.iterate("h1")
            ran, schedule, excs = case.concurrent_drain("h1", rng, nw=2)
        finally:
            case.close()
            os.environ["PATH"] = "/usr/local/bin:/usr/bin:/bin"
        c = db.ArchiveFileCopy.get(file=f, node=n1)
        if c.has_file == "Y" and w.file_on(n1, f) is None:
            return [f"two workers ran {ran} with schedule {''.join(map(str, schedule))}: the delete task unlinked acq/sub/f0.dat on n1 and "
                    f"recorded it removed, then the import task of the same file (which had found the file on disk earlier) recorded the "
                    f"copy healthy and wanted: has_file={c.has_file} wants_file={c.wants_file}, file on disk: no"]
    return []


def corpus_pull_delete_race(e):
    """regression corpus (known finding F26): a copy recorded corrupt *and* released sits on a node into whose group a transfer of
    the same file is pending; one pass queues the deletion of the copy and the forced re-pull over it in the same node FIFO,
    and two workers run them at once: up to 150 seeded two-worker schedules of that one pass"""
    import dharness
    import world as worldmod
    for trial in range(150):
        rng = random.Random(f"pull-delete-race-{trial}")
        case = dharness.DWorld.__new__(dharness.DWorld)
        w = worldmod.World(e)
        db = w.db
        for m in (db.StorageTransferAction, db.ArchiveFileCopyRequest, db.ArchiveFileImportRequest, db.ArchiveFileCopy,
                  db.ArchiveFile, db.ArchiveAcq, db.StorageNode, db.StorageGroup):
            m.delete().execute()
        import shutil
        shutil.rmtree(os.path.join(e.tmp, "roots"), ignore_errors=True)
        g1, g2, g3 = w.group("g1"), w.group("g2"), w.group("g3")
        n1, a1, a2 = w.node("n1", g1, stype="F"), w.node("a1", g2, stype="A"), w.node("a2", g3, stype="A")
        f = w.file(w.acq("acq"), "sub/f0.dat", b"payload payload")
        w.copy(f, n1, has="X", wants="N", on_disk=b"corrupt corrupt")
        w.copy(f, a1, has="Y")
        w.copy(f, a2, has="Y")
        w.req(f, a1, g1)
        case.env, case.rng, case.w = e, rng, w
        case.hosts = ["h1"]
        case.daemons = {"h1": (worldmod.PersistentDaemon if dharness.verif_persistent(e) else worldmod.Daemon)(e, "h1")}
        case.marker_state = {x.id: "ok" for x in (n1, a1, a2)}
        case.tracked, case.view, case.initq = set(), {}, {}
        case.nodes, case.groups, case.files = [n1, a1, a2], [g1, g2, g3], [f]
        case.rich = case.multi = case.churn = case.hsm = False
        case.set_tools("none", "ok")
        try:
            case.iterate("h1")
            ran, schedule, excs = case.concurrent_drain("h1", rng, nw=2)
        finally:
            case.close()
            os.environ["PATH"] = "/usr/local/bin:/usr/bin:/bin"
        c = db.ArchiveFileCopy.get(file=f, node=n1)
        on_disk = w.file_on(n1, f)
        if (c.has_file == "N" and on_disk is not None) or (c.has_file == "Y" and on_disk is None):
            return [f"two workers ran {ran} with schedule {''.join(map(str, schedule))}: the deletion of the released, corrupt copy of "
                    f"acq/sub/f0.dat on n1 and the forced re-pull over it ran at once; afterwards the copy is recorded "
                    f"has_file={c.has_file} wants_file={c.wants_file} while the file is {'on disk' if on_disk is not None else 'gone'}"]
    return []


def corpus_index_clauses(ctx, e):
    """scripted cases for two clauses, run before the random histories: "a copy recorded removed by the daemon is gone from disk"
    under an I/O error of the unlink, and "a completed request implies a copy recorded in its destination group" for every
    pre-existing destination row (none, N/N after an earlier removal, X recorded corrupt)"""
    import itertools
    import pathlib
    import shutil
    import dharness
    import world as worldmod
    probs = []
    for scenario, pre in itertools.chain([("delete-eio", None)], (("repull", p_) for p_ in (None, ("N", "N"), ("X", "Y"), ("X", "N")))):
        w = worldmod.World(e)
        db = w.db
        for m in (db.StorageTransferAction, db.ArchiveFileCopyRequest, db.ArchiveFileImportRequest, db.ArchiveFileCopy,
                  db.ArchiveFile, db.ArchiveAcq, db.StorageNode, db.StorageGroup):
            m.delete().execute()
        shutil.rmtree(os.path.join(e.tmp, "roots"), ignore_errors=True)
        g1, g2, g3 = w.group("g1"), w.group("g2"), w.group("g3")
        n1, a1, a2 = w.node("n1", g1, stype="F"), w.node("a1", g2, stype="A"), w.node("a2", g3, stype="A")
        f = w.file(w.acq("acq"), "sub/f0.dat", b"payload payload")
        w.copy(f, a1, has="Y")
        w.copy(f, a2, has="Y")
        d = worldmod.Daemon(e, "h1")
        os.environ["PATH"] = os.path.join(dharness.wharness.FAKE, "none")
        real_unlink = pathlib.Path.unlink
        try:
            if scenario == "delete-eio":
                w.copy(f, n1, has="Y", wants="N")
                fired = []

                def failing(self_, *a, **k):
                    if not fired and self_.name == "f0.dat":
                        fired.append(1)
                        raise OSError(5, "Input/output error (injected)", str(self_))
                    return real_unlink(self_, *a, **k)
                pathlib.Path.unlink = failing
                d.iterate()
                d.drain()
                pathlib.Path.unlink = real_unlink
                c = db.ArchiveFileCopy.get(file=f, node=n1)
                if c.has_file == "N" and w.file_on(n1, f) is not None:
                    probs.append("the unlink of a released copy failed with EIO, yet the copy was recorded removed (has_file=N) while the "
                                 "file is still on disk")
                d.iterate()
                d.drain()                      # the next pass retries
                c = db.ArchiveFileCopy.get(file=f, node=n1)
                if not (c.has_file == "N" and w.file_on(n1, f) is None):
                    probs.append(f"after the retry pass the released copy is {c.has_file}/{c.wants_file} and the file is "
                                 f"{'still there' if w.file_on(n1, f) is not None else 'gone'}")
            else:
                if pre is not None:
                    w.copy(f, n1, has=pre[0], wants=pre[1], on_disk=None if pre[0] == "N" else b"corrupt corrupt!")
                rq = w.req(f, a1, g1)
                for _ in range(3):
                    d.iterate()
                    d.drain()
                rq = db.ArchiveFileCopyRequest.get(id=rq.id)
                c = db.ArchiveFileCopy.get_or_none(file=f, node=n1)
                if rq.completed and not (c is not None and c.has_file == "Y" and w.file_on(n1, f) == b"payload payload"):
                    probs.append(f"a transfer onto a node whose copy row was {pre} was completed but the destination row is "
                                 f"{None if c is None else (c.has_file, c.wants_file)} and the file on disk is {w.file_on(n1, f)!r}")
                if not rq.completed and not rq.cancelled and pre != ("X", "N"):
                    probs.append(f"a transfer onto a node whose copy row was {pre} was never completed")
        except Exception as ex:  # noqa
            probs.append(f"scenario {scenario}/{pre} raised {type(ex).__name__}: {ex}")
        finally:
            pathlib.Path.unlink = real_unlink
            os.environ["PATH"] = "/usr/local/bin:/usr/bin:/bin"
        ctx.case(("corpus", scenario, pre), nontrivial=True)
        ctx.count("corpus:index-clauses")
    return probs


def corpus_bad_source(ctx, e):
    """scripted: a transfer is requested from a node whose copy the index already records corrupt / suspect / absent (bytes on
    disk damaged accordingly), for every transport route that does not itself compare a digest (hard link, scripted rsync)
    and the ones that do; three passes of the real daemon.  Oracle ("a copy recorded healthy exists on disk with the
    registered size"): whatever is recorded healthy in the destination group has the registered length and content."""
    import itertools
    import shutil
    import dharness
    import world as worldmod
    probs = []
    good = b"registered content, 4 lines\n" * 4
    for state, tools, stype in itertools.product(["X", "M", "N"], ["none", "rsync-only", "both"], ["A", "F"]):
        w = worldmod.World(e)
        db = w.db
        for m in (db.StorageTransferAction, db.ArchiveFileCopyRequest, db.ArchiveFileImportRequest, db.ArchiveFileCopy,
                  db.ArchiveFile, db.ArchiveAcq, db.StorageNode, db.StorageGroup):
            m.delete().execute()
        shutil.rmtree(os.path.join(e.tmp, "roots"), ignore_errors=True)
        src = w.node("src", w.group("g1"), stype=stype)
        dst = w.node("dst", w.group("g2"), stype="A")
        f = w.file(w.acq("acq"), "sub/f0.dat", good)
        w.copy(f, src, has=state, on_disk=None if state == "N" else good[:37])       # truncated on disk
        rq = w.req(f, src, db.StorageGroup.get(name="g2"))
        ctl = os.path.join(e.tmp, "toolctl.json")
        with open(ctl, "w") as fh:
            json.dump({"mode": "ok"}, fh)
        os.environ["VERIF_TOOL_CTL"] = ctl
        os.environ["PATH"] = os.path.join(dharness.wharness.FAKE, tools)
        try:
            d = worldmod.Daemon(e, "h1")
            for _ in range(3):
                d.iterate()
                d.drain()
        finally:
            os.environ["PATH"] = "/usr/local/bin:/usr/bin:/bin"
        c = db.ArchiveFileCopy.get_or_none(file=f.id, node=dst.id)
        rq = db.ArchiveFileCopyRequest.get(id=rq.id)
        data = w.file_on(dst, f)
        ctx.case(("corpus", "bad-source", state, tools, stype), nontrivial=True)
        ctx.count(f"corpus:bad-source:{state}:{'completed' if rq.completed else 'cancelled' if rq.cancelled else 'pending'}")
        if c is not None and c.has_file == "Y" and (data is None or data != good):
            probs.append(f"a transfer from a copy recorded {state} (source class {stype}, tools installed: {tools}) was carried out and its "
                         f"result recorded healthy at the destination although the file there is "
                         f"{'missing' if data is None else f'{len(data)} bytes, registered {len(good)}'} (request completed={bool(rq.completed)})")
    return probs


def corpus_cli_then_daemon(ctx):
    """histories that start at the operator's keyboard: `file modify` re-registers a size and / or a digest (every combination,
    right or wrong values, with and without --no-reverify), then the real daemon runs three passes.  Absent --no-reverify (the
    operator's explicit waiver) the quiescent index agrees with storage: a copy recorded healthy has the registered size and
    digest."""
    import itertools
    import world as worldmod
    probs = []
    data = b"ten bytes!"
    with envmod.CliEnv() as e:
        for size_opt, md5_opt, noreverify in itertools.product([None, "right", "wrong"], [None, "right", "wrong"], [False, True]):
            if size_opt is None and md5_opt is None:
                continue
            w = worldmod.World(e)
            db = w.db
            for m in (db.StorageTransferAction, db.ArchiveFileCopyRequest, db.ArchiveFileImportRequest, db.ArchiveFileCopy,
                      db.ArchiveFile, db.ArchiveAcq, db.StorageNode, db.StorageGroup):
                m.delete().execute()
            import shutil
            shutil.rmtree(os.path.join(e.tmp, "roots"), ignore_errors=True)
            n1 = w.node("n1", w.group("g1"))
            f = w.file(w.acq("acq"), "f.dat", data)
            w.copy(f, n1, has="Y")
            argv = ["file", "modify", "acq/f.dat"]
            if size_opt:
                argv += ["--size", str(len(data) if size_opt == "right" else 7)]
            if md5_opt:
                argv += ["--md5", worldmod.md5(data) if md5_opt == "right" else "0" * 32]
            if noreverify:
                argv += ["--no-reverify"]
            rc, out, exc = e.cli(argv)
            d = worldmod.Daemon(e, "h1")
            try:
                for _ in range(3):
                    d.iterate()
                    d.drain()
            except Exception as ex:  # noqa
                probs.append(f"after `alpenhorn {' '.join(argv)}` the daemon raised {type(ex).__name__}: {ex}")
                continue
            frow = db.ArchiveFile.get(id=f.id)
            c = db.ArchiveFileCopy.get(file=f.id, node=n1.id)
            on_disk = w.file_on(n1, frow)
            agrees = on_disk is not None and (frow.size_b is None or frow.size_b == len(on_disk)) and \
                (frow.md5sum is None or frow.md5sum == worldmod.md5(on_disk))
            ctx.case(("corpus", "cli-then-daemon", size_opt, md5_opt, noreverify), nontrivial=True)
            ctx.count(f"corpus:cli-then-daemon:{c.has_file}:{'agrees' if agrees else 'differs'}{':waived' if noreverify else ''}")
            if rc == 0 and not noreverify and c.has_file == "Y" and not agrees:
                probs.append(f"after `alpenhorn {' '.join(argv)}` and three daemon passes the copy on n1 is recorded healthy although the "
                             f"file there has {len(on_disk)} bytes / digest {worldmod.md5(on_disk)} and the index registers "
                             f"{frow.size_b} bytes / {frow.md5sum}")
    return probs


def run(ctx):
    ok = common.proof_stage(ctx, MODULE)
    rng = ctx.rng
    nh = 90 if ctx.quick() else 2000
    for p in corpus_cli_then_daemon(ctx):
        ctx.violation("index:corpus:cli-then-daemon", p, {"kind": "corpus2", "name": "file modify, then the daemon"})
    with envmod.Env(dbfile=True) as e:     # file database: persistent daemon loops and two-worker passes need threads
        for p in corpus_index_clauses(ctx, e):
            ctx.violation("index:corpus:" + p[:40].replace(" ", "_"), p, {"kind": "corpus2", "name": "index clauses"})
        for p in corpus_bad_source(ctx, e):
            ctx.violation("index:corpus:bad-source", p, {"kind": "corpus2", "name": "transfer from a copy recorded bad"})
        for p in corpus_pull_delete_race(e):
            ctx.violation("pull-delete-race", p, {"kind": "corpus", "name": "pull vs delete of one file by two workers"})
        for p in corpus_import_delete_race(e):
            ctx.violation("import-delete-race", p, {"kind": "corpus", "name": "import vs delete of one file by two workers"})
        for i in range(nh):
            hseed = f"{ctx.prop}-{ctx.seed}-h{i}"
            hr = random.Random(hseed)
            case, p7, p8, log = c07.run_history(ctx, e, hr, hr.randint(10, 35), conc=True)
            ctx.case(tuple(log), nontrivial=len(log) > 5, sample={"history": log[:25], "tracked_pairs": sorted(case.tracked)} if i == 0 else None)
            ctx.count("history:steps", len(log))
            ctx.count("history:tasks", sum(1 for l in log if l.startswith("task")))
            for item in p8:
                p, ctxlog = item if isinstance(item, tuple) else (item, log[-6:])
                last2w = " || ".join(l for l in ctxlog if l.startswith("tasks "))
                m_ = re.search(r"but file (\S+) is not on node (\S+)", p)
                if m_ and "recorded healthy and wanted" in p and "Delete copies" in last2w and f"Import acq/{m_.group(1)} on {m_.group(2)}" in last2w:
                    ctx.violation("import-delete-race", p + " [two-worker pass: " + last2w[:200] + "]",
                                  {"kind": "dhistory", "hseed": hseed, "last_steps": ctxlog, "history": log})
                    continue
                if m_ and "recorded healthy and wanted" in p and "Delete copies" in last2w and \
                        re.search(r"AFCR#\d+: \S+ -> " + re.escape(m_.group(2)) + r"\b", last2w):
                    ctx.violation("pull-delete-race", p + " [two-worker pass: " + last2w[:200] + "]",
                                  {"kind": "dhistory", "hseed": hseed, "last_steps": ctxlog, "history": log})
                    continue
                m2_ = re.search(r"copy \d+ of (\S+) on (\S+) was recorded removed .* by \('tasks-2-workers'", p)
                if m2_ and re.search(r"Delete copies \[[^\]]*\] from " + re.escape(m2_.group(2)) + r"'", p) and \
                        re.search(r"AFCR#\d+: \S+ -> " + re.escape(m2_.group(2)) + r"'", p):
                    ctx.violation("pull-delete-race", p, {"kind": "dhistory", "hseed": hseed, "last_steps": ctxlog, "history": log})
                    continue
                ctx.violation("index:" + p[:40].replace(" ", "_"), p, {"kind": "dhistory", "hseed": hseed, "last_steps": ctxlog, "history": log})
    ctx.coverage["rule"] = ("same multi-daemon histories as C07; after every step the real index and all node trees are checked: unique "
                            "(file,node) and (acq,name), legal states, completed request => ordered timestamps and a copy in its group, "
                            "healthy untracked copy => bytes present with the registered length, no dot-prefixed name registered; external "
                            "damage and operator overrides are tracked, a check clears, an unverified transfer from a tainted source taints. "
                            "distinct = history log")
    from props.c06 import finish_search
    finish_search(ctx, ok)


def replay(ctx, path):
    """re-run the recorded history (same per-history seed) on the current tree and report what the oracle says now"""
    d = json.load(open(path))
    print(json.dumps({k: d[k] for k in d if k != "history"}, indent=1)[:3000])
    if d.get("kind") == "corpus":
        with envmod.Env(dbfile=True) as e:
            probs = corpus_pull_delete_race(e) if "pull vs delete" in d.get("name", "") else corpus_import_delete_race(e)
        for p in probs:
            print("VIOLATION-REPRODUCED:", p)
        return 1 if probs else 0
    if "hseed" not in d:
        return 1
    with envmod.Env(dbfile=True) as e:
        hr = random.Random(d["hseed"])
        case, p7, p8, log = c07.run_history(ctx, e, hr, hr.randint(10, 35), conc=True)
    for l in log:
        print("  ", l[:200])
    for item in p8:
        print("VIOLATION-REPRODUCED:", item[0] if isinstance(item, tuple) else item)
    return 1 if p8 else 0
