"""C04 — import: real import_file/_import_file/update_import/scan on real trees vs the Lean import model vs tree oracle."""
import json
import os
import pathlib
import posixpath
import threading

import common
import env as envmod
import verif_idext
import world as worldmod

MODULE = "Alpen.Props.C04"


def build_tree(e, rng, root, outside):
    """returns dict rel path -> kind"""
    t = {}

    def mk(rel, data=b"x"):
        p = os.path.join(root, rel)
        os.makedirs(os.path.dirname(p), exist_ok=True)
        with open(p, "wb") as f:
            f.write(data)
    os.makedirs(outside, exist_ok=True)
    with open(os.path.join(outside, "secret.dat"), "wb") as f:
        f.write(b"outside-bytes")
    os.makedirs(os.path.join(outside, "odir"), exist_ok=True)
    with open(os.path.join(outside, "odir", "x.dat"), "wb") as f:
        f.write(b"outside-x")
    mk("acq/a.dat", bytes(rng.getrandbits(8) for _ in range(rng.choice([0, 3, 50])))); t["acq/a.dat"] = "regular"
    mk("acq/sub/b.dat", b"bbbb"); t["acq/sub/b.dat"] = "regular"
    mk("acq/deep/er/c.dat", b"cc"); t["acq/deep/er/c.dat"] = "regular"
    mk("acq/.hidden", b"h"); t["acq/.hidden"] = "dot"
    mk("acq/.dotdir/d.dat", b"d"); t["acq/.dotdir/d.dat"] = "regular"       # dot *directory*, ordinary file name
    mk("acq/locked.dat", b"l"); mk("acq/.locked.dat.lock", b""); t["acq/locked.dat"] = "locked"; t["acq/.locked.dat.lock"] = "dot"
    mk("acq/.a.dat.placeholder", b""); t["acq/.a.dat.placeholder"] = "dot"
    # the same kinds of temporaries next to a file *nested* below its acquisition directory
    mk("acq/sub/.b.dat.placeholder", b""); t["acq/sub/.b.dat.placeholder"] = "dot"
    mk("acq/deep/er/.c.dat.lock", b""); t["acq/deep/er/.c.dat.lock"] = "dot"; t["acq/deep/er/c.dat"] = "locked"
    mk("acq/sub/.hidden2", b"hh"); t["acq/sub/.hidden2"] = "dot"
    os.symlink(os.path.join(root, "acq/a.dat"), os.path.join(root, "acq/link.dat")); t["acq/link.dat"] = "symlink"
    os.symlink(os.path.join(outside, "secret.dat"), os.path.join(root, "acq/out.dat")); t["acq/out.dat"] = "symlink"
    os.makedirs(os.path.join(root, "acq/adir"), exist_ok=True); t["acq/adir"] = "dir"
    os.symlink(os.path.join(outside, "odir"), os.path.join(root, "acq/linkdir")); t["acq/linkdir/x.dat"] = "via-outside-symlink"
    os.symlink(os.path.join(root, "acq/sub"), os.path.join(root, "acq/indir")); t["acq/indir/b.dat"] = "via-inside-symlink"
    t["ALPENHORN_NODE"] = "marker"
    t["acq/nothing.dat"] = "absent"
    return t


def classify(root, rel):
    """independent classification of what is on disk at root/rel (the oracle's view)"""
    full = os.path.join(root, rel)
    real_root = os.path.realpath(root)
    is_reg = os.path.isfile(full) and not os.path.islink(full)
    inside = os.path.realpath(full).startswith(real_root + os.sep)
    return is_reg and inside


def one_case(ctx, e, rng, idx):
    import alpenhorn.daemon.update as upd
    from alpenhorn.daemon import auto_import
    from alpenhorn.scheduler import FairMultiFIFOQueue
    w = worldmod.World(e)
    db = w.db
    for m in (db.StorageTransferAction, db.ArchiveFileCopyRequest, db.ArchiveFileImportRequest, db.ArchiveFileCopy,
              db.ArchiveFile, db.ArchiveAcq, db.StorageNode, db.StorageGroup):
        m.delete().execute()
    import shutil
    shutil.rmtree(os.path.join(e.tmp, "roots"), ignore_errors=True)
    shutil.rmtree(os.path.join(e.tmp, "outside"), ignore_errors=True)
    g, g2 = w.group("g"), w.group("g2")
    node = w.node("n", g)
    other = w.node("o", g2)
    w.edge(node, g2, autosync=True)             # makes post_add observable: one request per successful import
    root = node.root
    # outside the node root, but its path has the root's path as a string prefix (…/n vs …/n-old): containment must be
    # decided on path components, not characters
    outside = root.rstrip("/") + "-old"
    tree = build_tree(e, rng, root, outside)
    rel = rng.choice(list(tree))
    kind = tree[rel]
    # how the import is requested
    via = rng.choice(["event-abs", "event-rel", "request", "request"])
    register = rng.random() < 0.6
    pathform = rel
    under_root, is_root, is_marker = True, False, rel == "ALPENHORN_NODE"
    r = rng.random()
    if via == "event-abs":
        if r < 0.1:
            pathform, under_root = os.path.join(outside, "secret.dat"), False
        elif r < 0.15:
            pathform, is_root = root, True
        else:
            pathform = os.path.join(root, rel)
    elif via == "request" and r < 0.2:
        pathform = rng.choice(["/" + rel, "./" + rel, rel + "/", "acq//a.dat", "acq/../acq/a.dat", ""])
        under_root = False             # update_import refuses non-canonical / absolute request paths: treated as ignored
    # detector behaviour
    dmode = rng.choice(["first1", "first1", "first1", "first2", "reject", "hostile", "equals", "nonancestor"])
    parts = pathlib.PurePath(rel).parts
    if dmode == "first1":
        verif_idext.MODE[:] = ["first", 1]; det = "ok" if len(parts) > 1 else "none"
    elif dmode == "first2":
        verif_idext.MODE[:] = ["first", 2]; det = "ok" if len(parts) > 2 else "none"
    elif dmode == "reject":
        verif_idext.MODE[:] = ["reject"]; det = "none"
    elif dmode == "hostile":
        name = rng.choice(["../x", "acq/", "/abs", "acq//", "./acq", ".", "acq/./sub"])
        verif_idext.MODE[:] = ["fixed", name]; det = "invalidName"
    elif dmode == "equals":
        verif_idext.MODE[:] = ["fixed", rel]; det = "notAncestor"
    else:
        verif_idext.MODE[:] = ["fixed", "zzz"]; det = "notAncestor"
    acq_name = "/".join(parts[:1]) if dmode == "first1" else "/".join(parts[:2]) if dmode == "first2" else None
    # pre-existing index rows
    acq_exists = file_exists = False
    copy0 = None
    if det == "ok" and rng.random() < 0.5:
        acq = w.acq(acq_name); acq_exists = True
        if rng.random() < 0.7:
            fname = posixpath.relpath(rel, acq_name)
            f = db.ArchiveFile.create(acq=acq, name=fname, size_b=1, md5sum="0" * 32); file_exists = True
            if rng.random() < 0.7:
                copy0 = (rng.choice("NNNYMX"), rng.choice("YMN"))
                db.ArchiveFileCopy.create(file=f, node=node, has_file=copy0[0], wants_file=copy0[1], ready=False)
    regular = classify(root, rel) if kind != "marker" else True
    dot = pathlib.PurePath(rel).name.startswith(".")
    locked = os.path.exists(os.path.join(root, os.path.dirname(rel), "." + os.path.basename(rel) + ".lock"))
    # --- run the real import
    q = FairMultiFIFOQueue()
    un = upd.UpdateableNode(q, db.StorageNode.get(id=node.id))
    before = envmod.dump_index()
    outside_before = open(os.path.join(outside, "secret.dat"), "rb").read()
    e.set_host("h1")
    req = None
    raised = None
    try:
        if via == "request":
            req = db.ArchiveFileImportRequest.create(node=node, path=pathform, recurse=False, register=register)
            un.update_import()
        else:
            auto_import.import_file(un, q, pathlib.PurePath(pathform), register, None)
        for _ in range(10):
            item = q.get(timeout=0.001)
            if item is None:
                break
            try:
                item[0]()
            finally:
                q.task_done(item[1])
    except Exception as ex:  # noqa
        raised = f"{type(ex).__name__}: {ex}"
    after = envmod.dump_index()
    new_acq = len(after["acq"]) > len(before["acq"])
    new_file = len(after["file"]) > len(before["file"])
    crow = [c for c in after["copy"] if c[2] == node.id]
    copy_after = (crow[0][3], crow[0][4]) if crow else None
    post_add = len(after["req"]) > len(before["req"])
    completed = None if req is None else bool(db.ArchiveFileImportRequest.get(id=req.id).completed)
    model_line = (f"imp {int(under_root)} {int(is_root)} {int(is_marker)} {int(regular)} {int(dot)} {int(locked)} {det} {int(register)} "
                  f"{int(acq_exists)} {int(file_exists)} {'-' if copy0 is None else copy0[0] + ':' + copy0[1]}")
    real = dict(newAcq=new_acq, newFile=new_file, copy=copy_after, postAdd=post_add, completed=completed, raised=raised,
                stored_acqs=[a[1] for a in after["acq"]], stored_files=[(f[2], f[3], f[4]) for f in after["file"]])
    meta = dict(rel=rel, kind=kind, via=via, path=pathform, detector=dmode, register=register, copy0=copy0, acq_exists=acq_exists,
                file_exists=file_exists)
    # --- oracles from the property text
    probs = []
    if raised:
        probs.append(f"import raised {raised}")
    imported = new_file or new_acq or copy_after != copy0
    never = (kind in ("dot", "symlink", "dir", "absent", "marker", "via-outside-symlink") or dot or locked or is_root or not under_root
             or det != "ok")
    if imported and never:
        probs.append(f"a path that must never be imported was imported (kind={kind}, dot={dot}, locked={locked}, detector={dmode}, "
                     f"under_root={under_root})")
    if locked and regular and not dot and completed is True and under_root and not is_marker:
        probs.append("the request for a locked file was completed instead of staying pending")
    if not register and (new_acq or new_file):
        probs.append("acquisition/file record created with registration disabled")
    if new_file:
        data = open(os.path.join(root, rel), "rb").read()
        frow = [f for f in after["file"] if f not in before["file"]][0]
        if frow[3] != len(data) or frow[4] != worldmod.md5(data):
            probs.append(f"registered size/md5 {frow[3]}/{frow[4]} differ from the bytes on disk ({len(data)}/{worldmod.md5(data)})")
        if acq_name is not None and (frow[2] != posixpath.relpath(rel, acq_name)):
            probs.append(f"registered file name {frow[2]!r} is not the path relative to the acquisition {acq_name!r}")
    for a in after["acq"]:
        if a not in before["acq"] and (a[1] == "" or any(c in ("", ".", "..") for c in a[1].split("/"))):
            probs.append(f"non-canonical acquisition name stored: {a[1]!r}")
    for f in after["file"]:
        if f not in before["file"] and (str(f[2]) == "" or any(c in ("", ".", "..") for c in str(f[2]).split("/"))):
            probs.append(f"non-canonical file name stored: {f[2]!r}")
    if open(os.path.join(outside, "secret.dat"), "rb").read() != outside_before:
        probs.append("a file outside the node root was modified")
    return model_line, real, meta, probs


def real_str(real):
    c = "-" if real["copy"] is None else real["copy"][0] + ":" + real["copy"][1]
    return f"newAcq={int(real['newAcq'])} newFile={int(real['newFile'])} copy={c} postAdd={int(real['postAdd'])}"


def stage_race(ctx, e):
    """two and three real workers importing the same path with a scheduling point at every SQL statement"""
    import alpenhorn.daemon.update as upd
    from alpenhorn.daemon import auto_import
    from alpenhorn.scheduler import FairMultiFIFOQueue
    import alpenhorn.scheduler.pool as pmod
    rng = ctx.rng
    nruns = 60 if ctx.quick() else 1500
    for run in range(nruns):
        w = worldmod.World(e)
        db = w.db
        for m in (db.StorageTransferAction, db.ArchiveFileCopyRequest, db.ArchiveFileImportRequest, db.ArchiveFileCopy,
                  db.ArchiveFile, db.ArchiveAcq, db.StorageNode, db.StorageGroup):
            m.delete().execute()
        import shutil
        shutil.rmtree(os.path.join(e.tmp, "roots"), ignore_errors=True)
        g = w.group("g")
        node = w.node("n", g)
        os.makedirs(os.path.join(node.root, "acq"), exist_ok=True)
        with open(os.path.join(node.root, "acq", "f.dat"), "wb") as f:
            f.write(b"race")
        verif_idext.MODE[:] = ["first", 1]
        other = None
        if rng.random() < 0.6:
            # the acquisition already holds another, earlier registered file (with or without a copy on this node)
            acq0 = w.acq("acq")
            other = w.file(acq0, "e.dat", b"earlier")
            if rng.random() < 0.5:
                w.copy(other, node, has="Y", wants="Y", on_disk=b"earlier")
        other_before = None if other is None else [(c.has_file, c.wants_file) for c in db.ArchiveFileCopy.select().where(db.ArchiveFileCopy.file == other.id)]
        nw = rng.choice([2, 2, 3])
        reqs = [db.ArchiveFileImportRequest.create(node=node, path="acq/f.dat", recurse=False, register=True) for _ in range(nw)]
        qs = [FairMultiFIFOQueue() for _ in range(nw)]
        uns = [upd.UpdateableNode(qs[i], db.StorageNode.get(id=node.id)) for i in range(nw)]
        e.set_host("h1")
        for i in range(nw):
            auto_import.import_file(uns[i], qs[i], pathlib.PurePath("acq/f.dat"), True, reqs[i])
        # baton: one semaphore per worker; a worker yields before every SQL statement
        sems = [threading.Semaphore(0) for _ in range(nw)]
        main = threading.Semaphore(0)
        state = {"cur": None, "done": [False] * nw, "exc": [None] * nw}
        tids = {}

        dbobj = db.database_proxy.obj

        def hook(sql, params, idx):
            me = tids.get(threading.get_ident())
            if me is None:
                return
            try:
                if dbobj.in_transaction():
                    return          # transactions are serialised by the database: no scheduling point inside one
            except Exception:
                pass
            main.release()
            sems[me].acquire()
        schedule = []

        def body(i):
            tids[threading.get_ident()] = i
            sems[i].acquire()
            try:
                item = qs[i].get(timeout=0.001)
                while item is not None:
                    fin = item[0]()
                    qs[i].task_done(item[1])
                    item = qs[i].get(timeout=0.001)
            except BaseException as ex:  # noqa
                state["exc"][i] = f"{type(ex).__name__}: {ex}"
            state["done"][i] = True
            main.release()
        ths = [threading.Thread(target=body, args=(i,), daemon=True) for i in range(nw)]
        envmod.verif_dbext.CTL["stmt_hook"] = hook
        try:
            for t in ths:
                t.start()
            steps = 0
            while not all(state["done"]) and steps < 400:
                alive = [i for i in range(nw) if not state["done"][i]]
                i = rng.choice(alive)
                schedule.append(i)
                sems[i].release()
                main.acquire()
                steps += 1
        finally:
            envmod.verif_dbext.CTL["stmt_hook"] = None
            for i in range(nw):
                sems[i].release()
            for t in ths:
                t.join(timeout=2)
        d = envmod.dump_index()
        newfile = db.ArchiveFile.get_or_none(db.ArchiveFile.name == "f.dat")
        mine = [c for c in d["copy"] if c[2] == node.id and newfile is not None and c[1] == newfile.id]
        ncopy = len(mine)
        done_reqs = sum(1 for r in d["ireq"] if r[5])
        has = mine[0][3] if mine else None
        extra_probs = []
        if other is not None:
            other_after = [(c.has_file, c.wants_file) for c in db.ArchiveFileCopy.select().where(db.ArchiveFileCopy.file == other.id)]
            if other_after != other_before:
                extra_probs.append(f"importing acq/f.dat changed the copy records of another file of the acquisition (acq/e.dat): "
                                   f"{other_before} -> {other_after}")
        ctx.count(f"race:workers={nw}:final={has}")
        ctx.case(("race", nw, tuple(schedule)), nontrivial=True,
                 sample={"workers": nw, "schedule(statement granularity)": schedule, "final_copy": d["copy"], "acqs": d["acq"]} if len(ctx.samples) < 6 and has == "M" else None)
        probs = list(extra_probs)
        nfiles_expected = 1 + (1 if other is not None else 0)
        if len(d["acq"]) != 1 or len(d["file"]) != nfiles_expected or ncopy != 1:
            probs.append(f"{len(d['acq'])} acquisition, {len(d['file'])} file records (expected {nfiles_expected}), {ncopy} copy records of the "
                         f"imported file after {nw} concurrent imports")
        if has not in ("Y", "M"):
            probs.append(f"final copy state {has}")
        if any(state["exc"]):
            probs.append(f"a worker raised: {[x for x in state['exc'] if x]}")
        if done_reqs != nw:
            probs.append(f"only {done_reqs} of {nw} import requests completed")
        if pmod.global_abort.is_set():
            probs.append("global abort set")
        for p in probs:
            ctx.violation("race:" + p[:40], p, {"kind": "race", "workers": nw, "schedule": schedule})


def stage_hsm_import(ctx):
    """imports on a Lustre-HSM node, where the import task parks itself while the file is restored from tape: whatever
    happens to the file during the wait (a writer locks it, rewrites it, removes it, replaces it by a symlink) is judged when
    the task resumes - a file locked at that moment stays pending and nothing half-written is registered"""
    import itertools
    import json
    import pathlib
    import shutil
    import fakelfs
    import alpenhorn.daemon.update as upd
    from alpenhorn.daemon import auto_import
    from alpenhorn.scheduler import FairMultiFIFOQueue
    with envmod.Env() as e:
        for during, via_req, unlock_later in itertools.product(["nothing", "lock", "lock+rewrite", "remove", "symlink", "lfs-fault"], [False, True], [False, True]):
            w = worldmod.World(e)
            db = w.db
            for m in (db.StorageTransferAction, db.ArchiveFileCopyRequest, db.ArchiveFileImportRequest, db.ArchiveFileCopy,
                      db.ArchiveFile, db.ArchiveAcq, db.StorageNode, db.StorageGroup):
                m.delete().execute()
            shutil.rmtree(os.path.join(e.tmp, "roots"), ignore_errors=True)
            g = w.group("ghsm")
            cfg = json.dumps({"quota_id": "q", "quota_type": "group", "headroom": 10, "lfs": os.path.join(common.VERIF, "fake-tools", "lfs"),
                              "restore_wait": 5, "release_check_count": 5})
            node = w.node("nh", g, io_class="LustreHSM", io_config=cfg)
            p = os.path.join(node.root, "acq", "data.dat")
            os.makedirs(os.path.dirname(p), exist_ok=True)
            good = b"complete content of the file"
            with open(p, "wb") as fh:
                fh.write(good)
            st_file = os.path.join(e.tmp, "lfs_state.json")
            with open(st_file, "w") as fh:
                json.dump({"paths": {p: "released"}, "fail": {"hsm_state": 1} if during == "lfs-fault" else {}}, fh)
            undo = fakelfs.install(st_file)
            verif_idext.MODE[:] = ["first", 1]
            e.set_host("h1")
            q = FairMultiFIFOQueue()
            un = upd.UpdateableNode(q, db.StorageNode.get(id=node.id))
            req = db.ArchiveFileImportRequest.create(node=node, path="acq/data.dat", recurse=False, register=True) if via_req else None
            log = []

            def run_queued():
                item = q.get(timeout=0.001)
                n_ = 0
                while item is not None and n_ < 10:
                    item[0](); q.task_done(item[1]); n_ += 1
                    item = q.get(timeout=0.001)
            try:
                auto_import.import_file(un, q, pathlib.PurePath("acq/data.dat"), True, req)
                run_queued()                                     # first segment: not resident -> restore requested, task parks itself
                log.append(f"after first segment: deferred={q.deferred_size}")
                if during == "lfs-fault":
                    # the only answer so far was an lfs failure and the file is released on tape: nothing may have been read
                    early = [(f.name, f.size_b) for f in db.ArchiveFile.select()]
                    if early:
                        ctx.violation("hsm-import:lfs-fault", f"import on an HSM node registered {early} although lfs hsm_state had failed and the "
                                      f"file is released (not resident)", {"kind": "hsm-import", "during": during, "via_request": via_req})
                    ctx.count("hsm-import:lfs-fault")
                    continue
                lock = os.path.join(node.root, "acq", ".data.dat.lock")
                if during.startswith("lock"):
                    open(lock, "wb").close()
                    if during == "lock+rewrite":
                        with open(p, "wb") as fh:
                            fh.write(b"half")
                elif during == "remove":
                    os.remove(p)
                elif during == "symlink":
                    os.remove(p)
                    os.symlink(os.path.join(node.root, "ALPENHORN_NODE"), p)
                with open(st_file, "w") as fh:                    # the tape system has restored the file meanwhile
                    json.dump({"paths": {p: "restored"}}, fh)
                q._deferrals = [(k * 1e-9, *d[1:]) for k, d in enumerate(q._deferrals)]
                run_queued()
                files = [(f.name, f.size_b) for f in db.ArchiveFile.select()]
                ctx.count(f"hsm-import:{during}")
                ctx.case(("hsm-import", during, via_req, unlock_later), nontrivial=True,
                         sample={"during_the_wait": during, "registered": files} if during == "lock" and via_req and not unlock_later else None)
                if during != "nothing" and files:
                    ctx.violation(f"hsm-import:{during}", f"import on an HSM node: during the restore wait the file was changed ({during}); when the "
                                  f"task resumed it registered {files}" + (" although the lock file exists" if during.startswith("lock") else ""),
                                  {"kind": "hsm-import", "during": during, "via_request": via_req})
                if during == "nothing" and files != [("data.dat", len(good))]:
                    ctx.violation("hsm-import:lost", f"import on an HSM node after the restore wait registered {files}", {"kind": "hsm-import"})
                if during.startswith("lock") and via_req and db.ArchiveFileImportRequest.get(id=req.id).completed:
                    ctx.violation("hsm-import:lock-completes-request", "the import request of a locked file was completed",
                                  {"kind": "hsm-import", "during": during})
                if during == "lock" and unlock_later:
                    # the writer finishes: lock removed -> the next attempt imports the complete file
                    os.remove(lock)
                    auto_import.import_file(un, q, pathlib.PurePath("acq/data.dat"), True, req)
                    run_queued()
                    files = [(f.name, f.size_b) for f in db.ArchiveFile.select()]
                    if files != [("data.dat", len(good))]:
                        ctx.violation("hsm-import:after-unlock", f"after the lock was removed the import registered {files}", {"kind": "hsm-import"})
            except Exception as ex:  # noqa
                ctx.violation("hsm-import:raised", f"import on an HSM node raised {type(ex).__name__}: {ex} (during the wait: {during})",
                              {"kind": "hsm-import", "during": during})
            finally:
                undo()


def stage_scan(ctx, e):
    """recursive import (scan) requests for directory paths in canonical, dotted and escaping spellings over the adversarial
    tree: whatever is registered has canonical acquisition and file names that name a regular, importable file under the
    root; nothing that must never be imported is; nothing outside the root is touched"""
    import alpenhorn.daemon.update as upd
    from alpenhorn.scheduler import FairMultiFIFOQueue
    rng = ctx.rng
    forms = ["acq", "acq/sub", "acq/deep", ".", "acq/.dotdir", "acq/../acq", "./acq", "acq/sub/..", "acq//sub", "acq/sub/../deep",
             "acq/./sub", "acq/", "..", "/abs", "acq/../../x", "acq/linkdir", "acq/indir", "nothing/../acq"]
    for form in forms:
        for register in (True, False, "elsewhere"):
            elsewhere = register == "elsewhere"
            register = bool(register)
            if elsewhere and form not in ("acq", "acq/sub", ".", "./acq", "acq/"):
                continue
            w = worldmod.World(e)
            db = w.db
            for m in (db.StorageTransferAction, db.ArchiveFileCopyRequest, db.ArchiveFileImportRequest, db.ArchiveFileCopy,
                      db.ArchiveFile, db.ArchiveAcq, db.StorageNode, db.StorageGroup):
                m.delete().execute()
            import shutil
            shutil.rmtree(os.path.join(e.tmp, "roots"), ignore_errors=True)
            g = w.group("g")
            node = w.node("n", g)
            root = node.root
            outside = root.rstrip("/") + "-old"
            shutil.rmtree(outside, ignore_errors=True)
            tree = build_tree(e, rng, root, outside)
            verif_idext.MODE[:] = ["first", 1]
            if not register:
                # registration off: only files already registered may gain a copy
                acq = w.acq("acq")
                db.ArchiveFile.create(acq=acq, name="sub/b.dat", size_b=4, md5sum=worldmod.md5(b"bbbb"))
            if elsewhere:
                # the file is already registered and another node (another group, another host) holds a copy of it: that is no
                # reason to leave the copy on this node out of the index
                acq = w.acq("acq")
                fb = db.ArchiveFile.create(acq=acq, name="sub/b.dat", size_b=4, md5sum=worldmod.md5(b"bbbb"))
                other = w.node("other", w.group("g2"), host="h2")
                db.ArchiveFileCopy.create(file=fb, node=other, has_file=rng.choice("YMX"), wants_file="Y")
            e.set_host("h1")
            q = FairMultiFIFOQueue()
            un = upd.UpdateableNode(q, db.StorageNode.get(id=node.id))
            req = db.ArchiveFileImportRequest.create(node=node, path=form, recurse=True, register=register)
            outside_before = open(os.path.join(outside, "secret.dat"), "rb").read()
            try:
                un.update_import()
                for _ in range(80):
                    item = q.get(timeout=0.001)
                    if item is None:
                        break
                    item[0]()
                    q.task_done(item[1])
            except Exception as ex:  # noqa
                ctx.violation("scan:raised", f"a recursive import request for {form!r} raised {type(ex).__name__}: {ex}",
                              {"kind": "scan", "form": form, "register": register})
                continue
            regs = [(f.acq.name, f.name) for f in db.ArchiveFile.select()]
            copies = [(c.file.acq.name, c.file.name) for c in db.ArchiveFileCopy.select().where(db.ArchiveFileCopy.node == node.id)]
            if elsewhere:
                mine = [c for c in db.ArchiveFileCopy.select().where(db.ArchiveFileCopy.node == node.id) if c.file.name == "sub/b.dat"]
                ctx.count(f"scan:held-elsewhere:{'imported' if mine else 'skipped'}")
                if len(mine) != 1 or mine[0].has_file != "Y":
                    ctx.violation("scan:skipped-held-elsewhere", f"recursive import request {form!r} on node n: acq/sub/b.dat is on disk there "
                                  f"(regular file, registered content) but has {len(mine)} copy record(s) on n "
                                  f"{[(c.has_file, c.wants_file) for c in mine]} after the scan; another node holds a copy of the file",
                                  {"kind": "scan", "form": form, "variant": "held elsewhere"})
            ctx.count(f"scan:{'canonical' if posixpath.normpath(form) == form and not form.startswith(('/', '..')) else 'odd'}:{'some' if copies else 'none'}")
            ctx.case(("scan", form, register), nontrivial=True, sample={"request_path": form, "register": register, "copies": copies[:6]} if form == "acq/../acq" else None)
            for a, n in set(regs) | set(copies):
                for what, name in (("acquisition", a), ("file", n)):
                    if name != posixpath.normpath(name) or name.startswith(("/", "..")) or "/../" in "/" + name + "/" or name in ("", "."):
                        ctx.violation("scan:non-canonical-name", f"recursive import request {form!r}: {what} name {name!r} registered "
                                      f"(records {a!r} / {n!r}) is not a canonical relative path", {"kind": "scan", "form": form})
                rel = posixpath.normpath(posixpath.join(a, n))
                kind = tree.get(rel)
                if (a, n) in copies and kind not in ("regular", "via-inside-symlink"):     # (a directory symlink staying inside the root is followed)
                    ctx.violation("scan:never-import", f"recursive import request {form!r} gave a copy to {rel!r}, which is {kind or 'not in the tree'}",
                                  {"kind": "scan", "form": form, "rel": rel})
            if not register and any(x != ("acq", "sub/b.dat") for x in regs):
                ctx.violation("scan:registered-without-permission", f"registration was off but {regs} are registered", {"kind": "scan", "form": form})
            if open(os.path.join(outside, "secret.dat"), "rb").read() != outside_before or not os.path.isdir(root):
                ctx.violation("scan:outside", "a recursive import touched something outside the root (or the root)", {"kind": "scan", "form": form})


def stage_events(ctx):
    """every way a new file can arrive under a watched root, delivered as the watchdog events it causes (to the real
    `RegisterFile` handler, synchronously): written in place; written under a hidden name and renamed into place; written under a
    lock file that is then removed; renamed between ordinary names; renamed to a hidden name; directories created / renamed.
    After the queued import tasks have run (nothing locked any more): every regular, non-hidden file on disk has exactly one
    present copy on the node, and nothing hidden is registered."""
    import alpenhorn.daemon.update as upd
    from alpenhorn.daemon import auto_import
    from alpenhorn.scheduler import FairMultiFIFOQueue
    from watchdog.events import FileCreatedEvent, FileMovedEvent, FileDeletedEvent, DirCreatedEvent, DirMovedEvent
    import shutil
    with envmod.Env() as e:
        w = worldmod.World(e)
        db = w.db
        for m in (db.StorageTransferAction, db.ArchiveFileCopyRequest, db.ArchiveFileImportRequest, db.ArchiveFileCopy,
                  db.ArchiveFile, db.ArchiveAcq, db.StorageNode, db.StorageGroup):
            m.delete().execute()
        shutil.rmtree(os.path.join(e.tmp, "roots"), ignore_errors=True)
        node = w.node("n", w.group("g"))
        root = node.root
        verif_idext.MODE[:] = ["first", 1]
        e.set_host("h1")
        q = FairMultiFIFOQueue()
        un = upd.UpdateableNode(q, db.StorageNode.get(id=node.id))
        h = auto_import.RegisterFile(un, q)
        log = []

        def P(rel):
            p = os.path.join(root, rel)
            os.makedirs(os.path.dirname(p), exist_ok=True)
            return p

        def write(rel, data):
            with open(P(rel), "wb") as fh:
                fh.write(data)
        # (a) written in place
        write("acq/sub/inplace.dat", b"in place")
        h.on_created(FileCreatedEvent(P("acq/sub/inplace.dat"))); log.append("created acq/sub/inplace.dat")
        # (b) hidden temporary name, then renamed into place
        write("acq/sub/.final.dat.Xa81Qz", b"renamed into place")
        h.on_created(FileCreatedEvent(P("acq/sub/.final.dat.Xa81Qz")))
        os.rename(P("acq/sub/.final.dat.Xa81Qz"), P("acq/sub/final.dat"))
        h.on_moved(FileMovedEvent(P("acq/sub/.final.dat.Xa81Qz"), P("acq/sub/final.dat"))); log.append("moved .final.dat.Xa81Qz -> final.dat")
        # (c) written under a lock file
        write("acq/.locked.dat.lock", b"")
        h.on_created(FileCreatedEvent(P("acq/.locked.dat.lock")))
        write("acq/locked.dat", b"written under a lock")
        h.on_created(FileCreatedEvent(P("acq/locked.dat"))); log.append("created acq/locked.dat while .locked.dat.lock exists")
        os.remove(P("acq/.locked.dat.lock"))
        h.on_deleted(FileDeletedEvent(P("acq/.locked.dat.lock"))); log.append("deleted .locked.dat.lock")
        # (d) an ordinary file renamed to another ordinary name (only the rename is seen)
        write("acq/renamed.dat", b"renamed")
        h.on_moved(FileMovedEvent(P("acq/old-name.dat"), P("acq/renamed.dat"))); log.append("moved old-name.dat -> renamed.dat")
        # (e) renamed to a hidden name
        write("acq/.hidden.dat", b"hidden")
        h.on_moved(FileMovedEvent(P("acq/visible.dat"), P("acq/.hidden.dat"))); log.append("moved visible.dat -> .hidden.dat")
        # (f) directories
        os.makedirs(P("acq/newdir/x")[:-2], exist_ok=True)
        h.on_created(DirCreatedEvent(P("acq/newdir/x")[:-2]))
        h.on_moved(DirMovedEvent(P("acq/olddir/x")[:-2], P("acq/newdir/x")[:-2]))
        try:
            for _ in range(60):
                item = q.get(timeout=0.001)
                if item is None:
                    if q.deferred_size:
                        q._deferrals = [(k * 1e-9, *d[1:]) for k, d in enumerate(q._deferrals)]
                        continue
                    break
                try:
                    item[0]()
                finally:
                    q.task_done(item[1])
        except Exception as ex:  # noqa
            ctx.violation("events:raised", f"an event-triggered import raised {type(ex).__name__}: {ex}", {"kind": "events", "events": log})
        have = {}
        for c in db.ArchiveFileCopy.select().where(db.ArchiveFileCopy.node == node.id, db.ArchiveFileCopy.has_file == "Y"):
            k = f"{c.file.acq.name}/{c.file.name}"
            have[k] = have.get(k, 0) + 1
        on_disk = []
        for dp, dn, fn in os.walk(os.path.join(root, "acq")):
            for f_ in fn:
                on_disk.append(os.path.relpath(os.path.join(dp, f_), root))
        for rel in sorted(on_disk):
            hidden = any(part.startswith(".") for part in rel.split("/"))
            ctx.case(("event-arrival", rel), nontrivial=True)
            ctx.count(f"events:{'hidden' if hidden else 'ordinary'}:{'registered' if have.get(rel) else 'not-registered'}")
            if hidden and have.get(rel):
                ctx.violation("events:hidden-registered", f"the hidden file {rel} was registered as data after the events {log}",
                              {"kind": "events", "events": log})
            if not hidden and have.get(rel, 0) != 1:
                ctx.violation("events:not-imported", f"{rel} arrived under the watched root (events: {log}) and is a regular, unlocked, "
                              f"non-hidden file, but it has {have.get(rel, 0)} present copy record(s) on the node after the import tasks ran",
                              {"kind": "events", "events": log, "file": rel})

def stage_walk(ctx, e):
    """the recursive scan itself: real DefaultNodeIO.file_walk on random directory trees (regular files, dot names, symlinks to
    files inside/outside, unix sockets, dangling links, directories, symlinked directories, any nesting) and every kind of top-level
    argument, compared as a set with the Lean `fileWalk` (theorems C04_walk_exact / _once / _confined / C04_fileWalk_top);
    independent oracle: a plainly importable file reached through real directories only must be yielded"""
    import pathlib
    import shutil
    import alpenhorn.daemon.update as upd
    from alpenhorn.scheduler import FairMultiFIFOQueue
    rng = ctx.rng
    w = worldmod.World(e)
    node = w.node("nw", w.group("gw"))
    e.set_host("h1")
    io = upd.UpdateableNode(FairMultiFIFOQueue(), w.db.StorageNode.get(id=node.id)).io
    root = node.root.rstrip("/")
    outside = root + "-wout"
    shutil.rmtree(outside, ignore_errors=True)
    os.makedirs(outside)
    with open(os.path.join(outside, "target.dat"), "wb") as f:
        f.write(b"t")
    names = ["a", "b.dat", ".h", "c-d", "x_1", "ee", ".dd", "f.lock", "0"]
    counter = [0]

    def mksock(path):
        """a special file that nothing can block on (a unix socket; bound under a short name, then moved into place)"""
        import socket
        short = os.path.join("/tmp", f"vs{os.getpid()}")
        if os.path.exists(short):
            os.unlink(short)
        sk = socket.socket(socket.AF_UNIX)
        sk.bind(short)
        sk.close()
        shutil.move(short, path)

    def fresh(used):
        nm = rng.choice(names)
        while nm in used:
            nm = nm + str(rng.randrange(10))
        used.add(nm)
        return nm

    def make(full, name, kind, depth, plain, must, rel):
        """create one entry; returns its preorder tokens.  plain: reached through real directories only so far"""
        if kind == "F":
            with open(full, "wb") as f:
                f.write(b"x" * rng.choice([0, 1, 7]))
            if plain and not name.startswith("."):
                must.append(rel)
            return [f"{name}:F"]
        if kind == "S":
            os.symlink(rng.choice([os.path.join(outside, "target.dat"), os.path.join(root, "ALPENHORN_NODE")]), full)
            return [f"{name}:S"]
        if kind == "O":
            how = rng.choice(["dangling", "socket", "link-to-socket"])
            if how == "dangling":
                os.symlink(os.path.join(outside, "nothing-here"), full)
            elif how == "socket":
                mksock(full)
            else:
                counter[0] += 1
                ff = os.path.join(outside, f"sock{counter[0]}")
                mksock(ff)
                os.symlink(ff, full)
            return [f"{name}:O"]
        if kind == "D":
            os.mkdir(full)
            kids = children(full, depth + 1, plain, must, rel)
            return [f"{name}:D:{kids[0]}"] + kids[1]
        counter[0] += 1
        target = os.path.join(outside, f"dir{counter[0]}")
        os.mkdir(target)
        kids = children(target, depth + 1, False, must, rel)
        os.symlink(target, full)
        return [f"{name}:L:{kids[0]}"] + kids[1]

    def children(dirpath, depth, plain, must, rel):
        k = rng.choice([0, 1, 2, 3, 4, 5]) if depth < 4 else rng.choice([0, 1, 2])
        used, toks = set(), []
        for _ in range(k):
            nm = fresh(used)
            kind = rng.choice("FFFSODDL") if depth < 4 else rng.choice("FFSO")
            toks += make(os.path.join(dirpath, nm), nm, kind, depth, plain, must, rel + "/" + nm)
        return k, toks

    n = 400 if ctx.quick() else 6000
    lines, reals, metas = [], [], []
    for i in range(n):
        base = f"w{i}"
        rel = base if rng.random() < 0.6 else base + "/" + rng.choice(["sub", ".s", "q.dat"])
        os.makedirs(os.path.dirname(os.path.join(root, rel)) or root, exist_ok=True)
        full = os.path.join(root, rel)
        topkind = rng.choice(["D"] * 8 + ["L", "L", "F", "S", "O", "missing", "absolute"])
        must = []
        arg = rel
        if topkind == "missing":
            top = "missing"
        elif topkind == "absolute":
            top = "absolute"
            arg = rng.choice([full, "/" + rel, "/"])
        else:
            top = ",".join(make(full, rel.rsplit("/", 1)[-1], topkind, 0, True, must, rel))
        try:
            got = []
            for p_ in io.file_walk(pathlib.PurePath(arg)):
                sp = str(p_)
                got.append(sp[len(root) + 1:] if sp.startswith(root + "/") else "ABS:" + sp)
            real = "ok " + (",".join(sorted(got)) if got else "-")
        except ValueError:
            got, real = [], "valueError"
        except Exception as ex:  # noqa
            got, real = [], f"raised:{type(ex).__name__}"
        lines.append(f"fwalk {rel} {top}"); reals.append(real); metas.append((arg, topkind, top))
        ctx.count(f"walk:top:{topkind}")
        ctx.count("walk:yielded", len(got))
        if real.startswith("ok"):
            for m in must:
                if m not in got:
                    ctx.violation("walk:file-left-out", f"file_walk({arg!r}) did not yield {m!r}, a regular non-dot file reached through "
                                  f"real directories only: no recursive import request can ever register it (tree {top})",
                                  {"kind": "walk", "arg": arg, "tree": top, "missing": m, "yielded": got})
        if len(lines) % 40 == 0:          # keep the node root small
            for j in range(i - 39, i + 1):
                shutil.rmtree(os.path.join(root, f"w{j}"), ignore_errors=True)
    outs = common.Driver().batch(lines)
    for ml, real, meta, out in zip(lines, reals, metas, outs):
        mo = out
        if out.startswith("ok ") and out != "ok -":
            mo = "ok " + ",".join(sorted(out[3:].split(",")))
        ctx.case(ml, nontrivial=out not in ("ok -", "valueError"),
                 sample={"walked": meta[0], "tree": meta[2], "model": mo, "real": real} if meta[1] == "L" and len(ctx.samples) < 4 else None)
        if mo != real and len(ctx.corr_broken) < 6:
            ctx.corr_broken.append({"stream": "file_walk-vs-fileWalk", "walked": meta[0], "top": meta[1], "tree": meta[2],
                                    "model": mo, "real": real})
    shutil.rmtree(outside, ignore_errors=True)


def run(ctx):
    ok = common.proof_stage(ctx, MODULE)
    rng = ctx.rng
    n = 500 if ctx.quick() else 15000
    lines, reals, metas = [], [], []
    with envmod.Env() as e:
        for i in range(n):
            ml, real, meta, probs = one_case(ctx, e, rng, i)
            lines.append(ml); reals.append(real); metas.append(meta)
            for p in probs:
                ctx.violation("import:" + p[:45].replace(" ", "_"), p + f" [{meta}]", {"kind": "import", "meta": meta, "real": real, "model_line": ml})
    outs = common.Driver().batch(lines)
    for ml, real, meta, out in zip(lines, reals, metas, outs):
        res = out.split()[0]
        ctx.count("import:" + res)
        ctx.case(ml + "|" + meta["kind"] + "|" + meta["via"], nontrivial=True,
                 sample={"case": meta, "model_in": ml, "model_out": out, "real": real} if res == "success" and len(ctx.samples) < 3 else None)
        m_tail = " ".join(out.split()[2:])
        if m_tail != real_str(real) and len(ctx.corr_broken) < 6:
            ctx.corr_broken.append({"stream": "import_file-vs-importStep", "case": meta, "model_in": ml, "model": out, "real": real_str(real)})
        mc = out.split()[1]
        if real["completed"] is not None and mc != f"completed={int(real['completed'])}" and len(ctx.corr_broken) < 6:
            ctx.corr_broken.append({"stream": "import-request-completion", "case": meta, "model": out, "real_completed": real["completed"]})
    with envmod.Env(dbfile=True) as e2:
        stage_race(ctx, e2)
    stage_hsm_import(ctx)
    stage_events(ctx)
    with envmod.Env() as e3:
        stage_scan(ctx, e3)
    with envmod.Env() as e4:
        stage_walk(ctx, e4)
    ctx.coverage["rule"] = ("a fixed adversarial tree per case (regular files incl. nested and dot-directories, dot-files, lock file, placeholder, "
                            "symlinks to inside/outside files, symlinked directories to inside/outside, a directory, the marker, an absent "
                            "path) x request form (import request rel/abs/dotted/non-canonical, watchdog-style absolute event incl. outside "
                            "root and the root itself) x detector behaviour (first 1/2 components, reject, hostile names, the path itself, "
                            "non-ancestor) x register flag x pre-existing acq/file/copy rows in every state; real update_import / import_file "
                            "/ _import_file, index diff compared with the Lean importStep and judged by tree oracles; plus 2-3 real worker "
                            "threads importing one path, preempted at every SQL statement; plus the recursive scan (file_walk) on random trees of "
                            "every entry kind vs the Lean fileWalk. distinct = model input + tree entry + request form")
    from props.c06 import finish_search
    finish_search(ctx, ok)


def replay(ctx, path):
    import sys
    return common.replay_by_rerun(ctx, path, sys.modules[__name__])
