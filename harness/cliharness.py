"""Random indexes + the real click CLI (through CliEnv), for C17 and C18."""
from __future__ import annotations

import datetime
import os

import env as envmod


def full_dump():
    """every column of every table that a CLI command may write (timestamps as presence/relations only)"""
    from alpenhorn.db import (ArchiveAcq, ArchiveFile, ArchiveFileCopy, ArchiveFileCopyRequest, ArchiveFileImportRequest,
                              StorageGroup, StorageNode, StorageTransferAction)
    d = {}
    d["group"] = sorted((g.id, g.name, g.io_class, g.io_config, g.notes) for g in StorageGroup.select())
    d["node"] = sorted((n.id, n.name, n.group_id, n.host, n.username, n.address, bool(n.active), n.storage_type, n.root, n.io_class,
                        n.io_config, n.max_total_gb, n.min_avail_gb, bool(n.auto_import), n.auto_verify, n.notes)
                       for n in StorageNode.select())
    d["acq"] = sorted((a.id, a.name, a.comment) for a in ArchiveAcq.select())
    d["file"] = sorted((f.id, f.acq_id, f.name, f.size_b, f.md5sum) for f in ArchiveFile.select())
    d["copy"] = sorted((c.id, c.file_id, c.node_id, c.has_file, c.wants_file, bool(c.ready)) for c in ArchiveFileCopy.select())
    d["req"] = sorted((r.id, r.file_id, r.node_from_id, r.group_to_id, bool(r.completed), bool(r.cancelled))
                      for r in ArchiveFileCopyRequest.select())
    d["ireq"] = sorted((r.id, r.node_id, r.path, bool(r.recurse), bool(r.register), bool(r.completed))
                       for r in ArchiveFileImportRequest.select())
    d["edge"] = sorted((e.id, e.node_from_id, e.group_to_id, bool(e.autosync), bool(e.autoclean)) for e in StorageTransferAction.select())
    return d


class Index:
    """a random index created directly through the ORM"""

    def __init__(self, e: envmod.CliEnv, rng):
        from alpenhorn import db
        self.e, self.rng, self.db = e, rng, db
        for m in (db.StorageTransferAction, db.ArchiveFileCopyRequest, db.ArchiveFileImportRequest, db.ArchiveFileCopy,
                  db.ArchiveFile, db.ArchiveAcq, db.StorageNode, db.StorageGroup):
            m.delete().execute()
        self.now = datetime.datetime.now(datetime.timezone.utc).replace(tzinfo=None)
        ng = rng.randint(2, 4)
        self.groups = [db.StorageGroup.create(name=f"G{i + 1}") for i in range(ng)]
        self.nodes = []
        for i in range(rng.randint(2, 5)):
            g = rng.choice(self.groups)
            self.nodes.append(db.StorageNode.create(name=f"N{i + 1}", group=g, root=e.root(f"N{i + 1}"), host="h1",
                                                    active=rng.random() < 0.8, storage_type=rng.choice("AFFT")))
        self.acqs = [db.ArchiveAcq.create(name=f"A{i + 1}") for i in range(rng.randint(1, 3))]
        self.files = []
        for i in range(rng.randint(2, 7)):
            a = rng.choice(self.acqs)
            reg = self.now + datetime.timedelta(days=rng.choice([-40, -10, -3, -1, 1, 3, 10, 40]))
            self.files.append(db.ArchiveFile.create(acq=a, name=f"f{i + 1}.dat", size_b=rng.choice([None, 0, 2 ** 29, 2 ** 30, 3 * 2 ** 30]),
                                                    md5sum="0" * 32, registered=reg))
        for f in self.files:
            for n in self.nodes:
                if rng.random() < 0.7:
                    db.ArchiveFileCopy.create(file=f, node=n, has_file=rng.choice("YYYYMXN"), wants_file=rng.choice("YYYMN"),
                                              ready=rng.random() < 0.5)
        for _ in range(rng.randint(0, 4)):
            f = rng.choice(self.files)
            n = rng.choice(self.nodes)
            g = rng.choice(self.groups)
            db.ArchiveFileCopyRequest.create(file=f, node_from=n, group_to=g, completed=rng.random() < 0.2, cancelled=rng.random() < 0.2)
        for _ in range(rng.randint(0, 2)):
            try:
                db.StorageTransferAction.create(node_from=rng.choice(self.nodes), group_to=rng.choice(self.groups),
                                                autosync=rng.random() < 0.5, autoclean=rng.random() < 0.5)
            except Exception:
                pass

    # name pickers (sometimes a name that does not exist: look-up error)
    def node(self, bad=0.06):
        return "NOPE" if self.rng.random() < bad else self.rng.choice(self.nodes).name

    def group(self, bad=0.06):
        return "NOPE" if self.rng.random() < bad else self.rng.choice(self.groups).name

    def acq(self, bad=0.06):
        return "NOPE" if self.rng.random() < bad else self.rng.choice(self.acqs).name

    def fpath(self, bad=0.06):
        if self.rng.random() < bad:
            return self.rng.choice(["A1/nope.dat", "/abs/path", "NOPE/f1.dat"])
        f = self.rng.choice(self.files)
        return f"{f.acq.name}/{f.name}"

    def filelist(self, good=True):
        """write a file list; returns path"""
        p = os.path.join(self.e.tmp, f"list{self.rng.getrandbits(30)}.txt")
        with open(p, "w") as fh:
            fh.write("# comment\n")
            for f in self.rng.sample(self.files, k=self.rng.randint(1, len(self.files))):
                fh.write(f"{f.acq.name}/{f.name}\n")
            if not good:
                fh.write("A1/does-not-exist.dat\n")
        return p

    def filelist_text(self):
        return "".join(f"{f.acq.name}/{f.name}\n" for f in self.rng.sample(self.files, k=self.rng.randint(1, len(self.files))))


def opt(rng, p, *args):
    return list(args) if rng.random() < p else []


KINDS = ["node clean", "node verify", "group sync", "node sync", "file clean", "file sync", "file state", "file modify", "file create",
         "file verify", "file import", "acq create", "node create", "node modify", "node activate", "node deactivate", "node rename",
         "node autoclean", "node scan", "node init", "group create", "group modify", "group rename", "group autosync"]


def gen_command(ix: Index, kind=None):
    """returns (argv, stdin_text_or_None, meta)"""
    rng = ix.rng
    kind = kind or rng.choice(["node clean", "node clean", "node verify", "node verify", "group sync", "group sync", "node sync", "file clean",
                       "file sync", "file state", "file modify", "file create", "file verify", "file import", "acq create",
                       "node create", "node modify", "node activate", "node deactivate", "node rename", "node autoclean", "node scan",
                       "node init", "group create", "group modify", "group rename", "group autosync"])
    stdin = None
    a = kind.split()
    if kind == "node clean":
        a += [ix.node()]
        a += opt(rng, 0.3, "--acq", ix.acq()) + opt(rng, 0.15, "--acq", ix.acq(bad=0.4)) + opt(rng, 0.4, "--archive-ok") + opt(rng, 0.25, "--include-bad")
        r = rng.random()
        if r < 0.3:
            a += ["--now"]
        elif r < 0.5:
            a += ["--cancel"]
        if "--cancel" not in a:
            a += opt(rng, 0.3, "--size", rng.choice(["0.5", "1", "2.5", "-1", "0"]))
        a += opt(rng, 0.25, "--days", rng.choice(["2", "5", "20", "0"]))
        a += opt(rng, 0.3, "--target", ix.group())
        a += opt(rng, 0.2, "--target", ix.group())
        a += opt(rng, 0.2, "--target", ix.group())
    elif kind == "node verify":
        a += [ix.node()]
        a += opt(rng, 0.3, "--acq", ix.acq()) + opt(rng, 0.15, "--acq", ix.acq(bad=0.4))
        r = rng.random()
        if r < 0.3:
            a += ["--cancel"] + rng.choice([[], ["--healthy"], ["--missing"], ["--corrupt"], ["--healthy", "--missing"]])
        else:
            a += opt(rng, 0.3, "--all") + opt(rng, 0.3, "--corrupt") + opt(rng, 0.3, "--healthy") + opt(rng, 0.3, "--missing")
    elif kind == "group sync":
        a += [ix.group()]
        r = rng.random()
        if r < 0.2:
            a += ["--cancel", "--all"]
        elif r < 0.35:
            a += [ix.node(), "--cancel"]
        else:
            a += [ix.node()] + opt(rng, 0.3, "--target", ix.group()) + opt(rng, 0.15, "--target", ix.group())
        a += opt(rng, 0.3, "--acq", ix.acq()) + opt(rng, 0.15, "--acq", ix.acq(bad=0.4)) + opt(rng, 0.2, "--show-acqs") + opt(rng, 0.2, "--show-files")
    elif kind == "node sync":
        a += [ix.node(), ix.group()] + opt(rng, 0.25, "--cancel") + opt(rng, 0.3, "--acq", ix.acq()) + opt(rng, 0.15, "--acq", ix.acq(bad=0.4))
        if "--cancel" not in a:
            a += opt(rng, 0.3, "--target", ix.group())
    elif kind == "file clean":
        a += [ix.fpath()] + opt(rng, 0.8, "--node", ix.node()) + opt(rng, 0.3, "--now") + opt(rng, 0.3, "--cancel") + opt(rng, 0.4, "--archive-ok")
    elif kind == "file sync":
        a += [ix.fpath()] + opt(rng, 0.9, "--from", ix.node()) + opt(rng, 0.9, "--to", ix.group()) + opt(rng, 0.25, "--cancel") + opt(rng, 0.3, "--force")
    elif kind == "file state":
        a += [ix.fpath(), ix.node()] + opt(rng, 0.6, "--set", rng.choice(["healthy", "corrupt", "suspect", "absent", "bogus"])) + \
            opt(rng, 0.2, "--ready") + opt(rng, 0.2, "--unready")
    elif kind == "file modify":
        a += [ix.fpath()] + opt(rng, 0.6, "--md5", rng.choice(["a" * 32, "A" * 32, "xyz", "0" * 32, "c" * 32])) + \
            opt(rng, 0.5, "--size", rng.choice(["0", "5", "-3", "9"])) + opt(rng, 0.25, "--no-reverify")
    elif kind == "file create":
        a += [rng.choice(["new.dat", "sub/new.dat", "../evil", "f1.dat"]), ix.acq()] + \
            opt(rng, 0.8, "--md5", rng.choice(["b" * 32, "zz"])) + opt(rng, 0.8, "--size", rng.choice(["7", "-1"]))
    elif kind == "file verify":
        a += [ix.fpath(), ix.node()]
    elif kind == "file import":
        a += [rng.choice(["A1/x.dat", "/abs/x.dat", "A1/../y"]), ix.node()] + opt(rng, 0.5, "--register-new")
    elif kind == "acq create":
        a += [rng.choice(["NEWACQ", "A1", "bad//name", "x/y"])]
    elif kind == "node create":
        a += [rng.choice(["NEWNODE", "N1"])] + opt(rng, 0.8, "--group", ix.group()) + opt(rng, 0.3, "--create-group") + \
            opt(rng, 0.5, "--root", "/some/root") + opt(rng, 0.3, "--archive") + opt(rng, 0.2, "--auto-verify", rng.choice(["3", "-1"])) + \
            opt(rng, 0.2, "--min-avail", rng.choice(["1.5", "-2"])) + opt(rng, 0.4, "--init") + opt(rng, 0.3, "--activate") + \
            opt(rng, 0.2, "--host", "hx") + opt(rng, 0.2, "--auto-import") + opt(rng, 0.2, "--notes", "nn") + opt(rng, 0.15, "--io-var", "k=v")
    elif kind == "node modify":
        a += [ix.node()] + opt(rng, 0.4, "--host", "otherhost") + opt(rng, 0.3, "--max-total", rng.choice(["5", "-1"])) + \
            opt(rng, 0.3, "--notes", "hello") + opt(rng, 0.2, "--field") + opt(rng, 0.2, "--io-config", rng.choice(['{"a": 1}', "notjson"])) + \
            opt(rng, 0.2, "--group", ix.group()) + opt(rng, 0.2, "--no-max-total") + opt(rng, 0.2, "--auto-verify", "4") + opt(rng, 0.2, "--root", "/new/root")
    elif kind == "node activate":
        a += [ix.node()] + opt(rng, 0.3, "--host", "h9") + opt(rng, 0.3, "--username", "u")
    elif kind == "node deactivate":
        a += [ix.node()]
    elif kind == "node rename":
        a += [ix.node(), rng.choice(["RENAMED", "N1", "N2"])]
    elif kind == "node autoclean":
        a += [ix.node(), ix.group()] + opt(rng, 0.3, "--remove")
    elif kind == "node scan":
        a += [ix.node()] + opt(rng, 0.7, rng.choice(["A1", "/abs", "."])) + opt(rng, 0.4, "--register-new")
    elif kind == "node init":
        a += [ix.node()]
    elif kind == "group create":
        a += [rng.choice(["NEWGROUP", "G1"])] + opt(rng, 0.3, "--class", "Transport") + opt(rng, 0.2, "--io-config", rng.choice(['{"b": 2}', "[1]"]))
    elif kind == "group modify":
        a += [ix.group()] + opt(rng, 0.4, "--notes", "n") + opt(rng, 0.3, "--class", "Default") + opt(rng, 0.2, "--io-var", "k=v")
    elif kind == "group rename":
        a += [ix.group(), rng.choice(["RENAMEDG", "G1", "G2"])]
    elif kind == "group autosync":
        a += [ix.group(), ix.node()] + opt(rng, 0.3, "--remove")
    # the check / confirm / force / stdin machinery of the commands that have it
    mode = "plain"
    if kind in ("node clean", "node verify", "group sync", "node sync"):
        mode = rng.choice(["check", "force", "confirm-yes", "confirm-no", "stdin", "stdin-force", "filelist", "filelist-bad"])
        if mode == "check":
            a += ["--check"]
        elif mode == "force":
            a += ["--force"]
        elif mode == "confirm-yes":
            stdin = "y\n"
        elif mode == "confirm-no":
            stdin = "n\n"
        elif mode == "stdin":
            a += ["--file-list", "-"]
            stdin = ix.filelist_text()
        elif mode == "stdin-force":
            a += ["--file-list", "-", "--force"]
            stdin = ix.filelist_text()
        elif mode == "filelist":
            a += ["--file-list", ix.filelist(True), "--force"]
        elif mode == "filelist-bad":
            a += ["--file-list", ix.filelist(False), "--force"]
    return a, stdin, dict(kind=kind, mode=mode)


def canonical(ix: Index, kind):
    """one well-formed invocation per mutating sub-command that normally changes the index (corpus for the fault sweep)"""
    rng = ix.rng
    n = rng.choice(ix.nodes).name
    g = rng.choice(ix.groups).name
    f = rng.choice(ix.files)
    path = f"{f.acq.name}/{f.name}"
    table = {
        "node clean": [n, "--force", "--archive-ok"] + rng.choice([[], ["--now"], ["--include-bad"], ["--size", "1.5"]]),
        "node verify": [n, "--all", "--force"],
        "group sync": [g, n, "--force"],
        "node sync": [n, g, "--force"],
        "file clean": [path, "--node", n, "--now", "--archive-ok"],
        "file sync": [path, "--from", n, "--to", g, "--force"],
        "file state": [path, n, "--set", rng.choice(["corrupt", "suspect", "healthy"])],
        "file modify": [path, "--md5", "c" * 32, "--size", "9"],
        "file create": ["sub/new.dat", ix.acqs[0].name, "--md5", "b" * 32, "--size", "7"],
        "file verify": [path, n],
        "file import": ["A1/x.dat", n, "--register-new"],
        "acq create": ["NEWACQ"],
        "node create": ["NEWNODE", "--group", "NEWG", "--create-group", "--root", "/r", "--archive", "--init", "--activate", "--host", "hx"],
        "node modify": [n, "--host", "otherhost", "--notes", "hello", "--max-total", "5"],
        "node activate": [n, "--host", "h9", "--username", "u"],
        "node deactivate": [n],
        "node rename": [n, "RENAMED"],
        "node autoclean": [n, g],
        "node scan": [n, ".", "--register-new"],
        "node init": [n],
        "group create": ["NEWGROUP", "--io-config", '{"b": 2}'],
        "group modify": [g, "--notes", "n", "--class", "Default"],
        "group rename": [g, "RENAMEDG"],
        "group autosync": [g, n],
    }
    return kind.split() + table[kind], None, dict(kind=kind, mode="plain")
