import Alpen.Generated
import Alpen.Lemmas.Str
/-!
# C06 — path confinement, string part

"A name is accepted as an acquisition, file or import path only if it is a canonical
relative path (non-empty, no leading or trailing slash, no empty, '.' or '..'
component), so a stored name equals its own normalised form and never resolves to its
node root or outside it."

`Gen.invalidImportPathGen` is *translated from the Python source on every run*
(harness/extract.py), so these theorems are re-checked against what
`alpenhorn.common.util.invalid_import_path` says now.
-/
namespace Alpen
open Alpen.Gen

private theorem noSlash_nil : NoSlash ([] : Str) := by simp [NoSlash]
private theorem noSlash_dot : NoSlash dot := by simp [NoSlash, dot, slash]
private theorem noSlash_dotdot : NoSlash dotdot := by simp [NoSlash, dotdot, slash]

/-- **C06.1** For every string: `invalid_import_path` accepts it (returns `None`) iff
    every `/`-separated component is non-empty, not "." and not "..". -/
theorem C06_invalid_import_path_iff (s : Str) :
    invalidImportPathGen s = none ↔ Canonical s := by
  have e := mem_splitSlash_iff noSlash_nil s
  have d := mem_splitSlash_iff noSlash_dot s
  have dd := mem_splitSlash_iff noSlash_dotdot s
  have key : Canonical s ↔ ([] ∉ splitSlash s ∧ dot ∉ splitSlash s ∧ dotdot ∉ splitSlash s) := by
    unfold Canonical CanonicalComps
    constructor
    · intro h
      exact ⟨fun m => (h _ m).1 rfl, fun m => (h _ m).2.1 rfl, fun m => (h _ m).2.2 rfl⟩
    · rintro ⟨h1, h2, h3⟩ c hc
      exact ⟨fun e => h1 (e ▸ hc), fun e => h2 (e ▸ hc), fun e => h3 (e ▸ hc)⟩
  rw [key, e, d, dd]
  simp only [invalidImportPathGen, dot, dotdot, slash, List.isPrefixOf_iff_prefix,
    List.isSuffixOf_iff_suffix, Bool.or_eq_true, decide_eq_true_eq, List.nil_append,
    List.cons_append]
  have c46 : Char.ofNat 46 = '.' := by decide
  have c47 : Char.ofNat 47 = '/' := by decide
  simp only [c46, c47]
  constructor
  · intro h
    split at h <;> try contradiction
    split at h <;> try contradiction
    split at h <;> try contradiction
    split at h <;> try contradiction
    split at h <;> try contradiction
    split at h <;> try contradiction
    split at h <;> try contradiction
    simp_all
  · rintro ⟨h1, h2, h3⟩
    simp_all

/-- the same statement for the hand-written model used by the driver -/
theorem C06_model_invalid_import_path_iff (s : Str) :
    invalidImportPath s = none ↔ Canonical s := by
  have e := mem_splitSlash_iff noSlash_nil s
  have d := mem_splitSlash_iff noSlash_dot s
  have dd := mem_splitSlash_iff noSlash_dotdot s
  have key : Canonical s ↔ ([] ∉ splitSlash s ∧ dot ∉ splitSlash s ∧ dotdot ∉ splitSlash s) := by
    unfold Canonical CanonicalComps
    constructor
    · intro h
      exact ⟨fun m => (h _ m).1 rfl, fun m => (h _ m).2.1 rfl, fun m => (h _ m).2.2 rfl⟩
    · rintro ⟨h1, h2, h3⟩ c hc
      exact ⟨fun e => h1 (e ▸ hc), fun e => h2 (e ▸ hc), fun e => h3 (e ▸ hc)⟩
  rw [key, e, d, dd]
  simp only [invalidImportPath, dot, dotdot, slash, List.isPrefixOf_iff_prefix,
    List.isSuffixOf_iff_suffix, Bool.or_eq_true, List.nil_append,
    List.cons_append]
  constructor
  · intro h
    split at h <;> try contradiction
    split at h <;> try contradiction
    split at h <;> try contradiction
    split at h <;> try contradiction
    split at h <;> try contradiction
    split at h <;> try contradiction
    split at h <;> try contradiction
    simp_all
  · rintro ⟨h1, h2, h3⟩
    simp_all

/-- **tie** the function translated from the source and the hand-written model accept
    exactly the same strings. -/
theorem C06_generated_agrees_with_model (s : Str) :
    invalidImportPathGen s = none ↔ invalidImportPath s = none := by
  rw [C06_invalid_import_path_iff, C06_model_invalid_import_path_iff]

/-- Accepted names are never empty. -/
theorem C06_accepted_nonempty (s : Str) (h : invalidImportPathGen s = none) : s ≠ [] := by
  intro e; subst e
  have := (C06_invalid_import_path_iff []).mp h
  exact (this [] (by simp [splitSlash])).1 rfl

-- non-vacuity: a concrete accepted name and concrete rejected ones
example : invalidImportPathGen "acq/2024/f.dat".toList = none := by decide
example : invalidImportPathGen "a//b".toList ≠ none := by decide
example : invalidImportPathGen "a/../b".toList ≠ none := by decide
example : Canonical "acq/2024/f.dat".toList := by decide

end Alpen

namespace Alpen
open Alpen.Gen

private theorem canonical_head_ne_slash {s : Str} (h : Canonical s) : ∀ c t, s = c :: t → c ≠ slash := by
  intro c t e hc
  subst e; subst hc
  have := h [] (by simp [splitSlash])
  exact this.1 rfl

/-- **C06.2a** a canonical relative path equals its own `posixpath.normpath`. -/
theorem C06_canonical_is_normal (s : Str) (h : Canonical s) : normpath s = s := by
  have hne : s ≠ [] := by
    intro e; subst e; exact (h [] (by simp [splitSlash])).1 rfl
  have h0 : initialSlashes s = 0 := by
    cases s with
    | nil => rfl
    | cons c t =>
      have := canonical_head_ne_slash h c t rfl
      unfold initialSlashes
      split <;> simp_all [slash]
  unfold normpath
  simp only [hne, if_false, h0]
  rw [normLoop_canonical _ _ _ h]
  simp [joinSlash_splitSlash, hne]

/-- **C06.2b** joined below an absolute, normalised root `/r₁/…/rₙ` (n ≥ 1, canonical
    components) a canonical name normalises to `root/name` itself: the root is a
    *proper* prefix, i.e. the path is strictly inside the root — never the root, never
    outside it. -/
theorem C06_canonical_stays_inside (rc : List Str) (hrne : rc ≠ []) (hr : CanonicalComps rc)
    (hrs : ∀ c ∈ rc, NoSlash c) (s : Str) (h : Canonical s) :
    normpath (slash :: joinSlash rc ++ slash :: s) = slash :: joinSlash rc ++ slash :: s := by
  have hsne : s ≠ [] := by
    intro e; subst e; exact (h [] (by simp [splitSlash])).1 rfl
  obtain ⟨r0, rt, hrc⟩ := List.exists_cons_of_ne_nil hrne
  have hr0 : r0 ≠ [] := (hr r0 (by simp [hrc])).1
  obtain ⟨x, xt, hx⟩ := List.exists_cons_of_ne_nil hr0
  have hxs : x ≠ slash := by
    intro e; exact hrs r0 (by simp [hrc]) (by simp [hx, e])
  have hjoin : ∃ jt, joinSlash rc = x :: jt := by
    subst hrc; subst hx
    cases rt with
    | nil => exact ⟨xt, rfl⟩
    | cons b t => exact ⟨_, rfl⟩
  obtain ⟨jt, hj⟩ := hjoin
  have hinit : initialSlashes (slash :: joinSlash rc ++ slash :: s) = 1 := by
    rw [hj]; simp only [List.cons_append, slash]
    unfold initialSlashes
    split <;> simp_all [slash]
  have hsplit : splitSlash (slash :: joinSlash rc ++ slash :: s) = [] :: (rc ++ splitSlash s) := by
    have : slash :: joinSlash rc ++ slash :: s = slash :: (joinSlash rc ++ slash :: s) := rfl
    rw [this]
    simp only [splitSlash, if_true]
    rw [splitSlash_append_slash, splitSlash_joinSlash hrne hrs]
  have hcan : CanonicalComps (rc ++ splitSlash s) := by
    intro c hc
    rcases List.mem_append.mp hc with hc | hc
    · exact hr c hc
    · exact h c hc
  unfold normpath
  have hne : (slash :: joinSlash rc ++ slash :: s) ≠ [] := by simp
  simp only [hne, if_false, hinit, hsplit]
  have : normLoop (1 != 0) ([] :: (rc ++ splitSlash s)) [] = rc ++ splitSlash s := by
    unfold normLoop; simp only [true_or, if_true]
    rw [normLoop_canonical _ _ _ hcan]; simp
  rw [this, joinSlash_append hrne (splitSlash_ne_nil s), joinSlash_splitSlash]
  simp [slash]

example : normpath "a/./b/../c".toList = "a/c".toList := by decide
example : normpath "/data/n1/../../etc".toList = "/etc".toList := by decide
example : normpath "//x".toList = "//x".toList := by decide

end Alpen
