"""Deterministic ("baton") thread scheduler + cooperative threading shim.

Real Python threads, but exactly one runs at a time.  A managed thread hands the baton back to
the scheduler at every *scheduling point*: before acquiring a cooperative Lock/RLock, when it
blocks on one, in Condition.wait, and in sleep().  The schedule is the list of choices made among
the enabled actions; it is the replay artefact.  Virtual clock: advanced only when the scheduler
fires a time-out (wait/sleep deadline).

Usage:
    s = Scheduler(choices=[...] or rng=random.Random(..))
    fake = s.threading_module()          # object with Lock, RLock, Condition, get_ident, Event
    module_under_test.threading = fake ; module_under_test.monotonic = s.monotonic ; ...
    s.spawn(fn, name) ...
    s.run()                              # returns "done" | "deadlock"
"""
from __future__ import annotations

import threading as _t

RUNNABLE, BLOCKED, WAITING, SLEEPING, DONE = "runnable", "blocked", "waiting", "sleeping", "done"


class Deadlock(Exception):
    pass


class _Abort(BaseException):
    pass


class MThread:
    def __init__(self, sched, idx, fn, name):
        self.sched = sched
        self.idx = idx
        self.fn = fn
        self.name = name
        self.sem = _t.Semaphore(0)
        self.status = RUNNABLE
        self.blocked_on = None
        self.wait_cond = None
        self.notified = False
        self.deadline = None
        self.timed_out = False
        self.exc = None
        self.thread = _t.Thread(target=self._main, daemon=True, name=name)

    def _main(self):
        self.sem.acquire()
        try:
            if not self.sched.aborting:
                self.fn()
        except _Abort:
            pass
        except BaseException as e:  # noqa
            self.exc = e
        self.status = DONE
        self.sched.main_sem.release()


class Scheduler:
    def __init__(self, choices=None, rng=None, max_steps=20000, yield_on_release=False):
        self.yield_on_release = yield_on_release
        self.threads = []
        self.main_sem = _t.Semaphore(0)
        self.current = None
        self.clock = 0.0
        self.choices = list(choices) if choices is not None else None
        self.rng = rng
        self.taken = []          # choices actually made (replayable)
        self.log = []            # event log (appended by shim + harness)
        self.aborting = False
        self.max_steps = max_steps
        self.steps = 0
        self.on_tick = None
        self.on_event = None
        self._ident_of = {}

    # -- API for programs
    def spawn(self, fn, name=None):
        t = MThread(self, len(self.threads), fn, name or f"T{len(self.threads)}")
        self.threads.append(t)
        t.thread.start()
        self._ident_of[t.thread.ident] = t
        return t

    def me(self):
        return self._ident_of.get(_t.get_ident())

    def monotonic(self):
        return self.clock

    def sleep(self, d):
        t = self.me()
        if t is None:
            return
        if d <= 0:
            self.yield_point()
            return
        t.status = SLEEPING
        t.deadline = self.clock + d
        self._switch(t)

    def yield_point(self):
        t = self.me()
        if t is None:
            return
        self._switch(t)

    # -- internals
    def _switch(self, t):
        """hand the baton to the scheduler and wait to be resumed"""
        if self.aborting:
            raise _Abort()
        self.main_sem.release()
        t.sem.acquire()
        if self.aborting:
            raise _Abort()

    def enabled(self):
        acts = []
        for t in self.threads:
            if t.status == RUNNABLE:
                acts.append(("run", t.idx))
            elif t.status == BLOCKED:
                if t.blocked_on.can_take(t):
                    acts.append(("run", t.idx))
            elif t.status == WAITING:
                if t.notified:
                    acts.append(("run", t.idx))
                elif t.deadline is not None:
                    acts.append(("timeout", t.idx))
            elif t.status == SLEEPING:
                acts.append(("timeout", t.idx))
        return acts

    def run(self):
        """Run until all threads are done. Returns 'done', 'deadlock' or 'steps'."""
        result = "done"
        while True:
            if all(t.status == DONE for t in self.threads):
                break
            acts = self.enabled()
            if not acts:
                result = "deadlock"
                break
            if self.steps >= self.max_steps:
                result = "steps"
                break
            self.steps += 1
            if self.choices is not None:
                c = self.choices.pop(0) if self.choices else 0
            elif self.rng is not None:
                c = self.rng.randrange(len(acts))
            else:
                c = 0
            c %= len(acts)
            self.taken.append(c)
            kind, idx = acts[c]
            t = self.threads[idx]
            if kind == "timeout":
                if t.deadline is not None and t.deadline > self.clock:
                    dt = t.deadline - self.clock
                    self.clock = t.deadline
                    self.log.append(("tick", dt))
                    if self.on_tick:
                        self.on_tick(dt)
                t.timed_out = True
                if t.status == WAITING:
                    t.wait_cond._remove_waiter(t)
            t.status = RUNNABLE
            self.current = t
            t.sem.release()
            self.main_sem.acquire()
        self.blocked_desc = self.describe_blocked()
        if result != "done":
            self.abort()
        return result

    def abort(self):
        self.aborting = True
        for t in self.threads:
            if t.status != DONE:
                t.sem.release()
        for t in self.threads:
            t.thread.join(timeout=2)

    def describe_blocked(self):
        out = []
        for t in self.threads:
            if t.status != DONE:
                out.append((t.name, t.status, getattr(t.blocked_on, "name", None) or getattr(t.wait_cond, "name", None)))
        return out

    # -- the shim module
    def threading_module(self):
        s = self

        class Fake:
            Lock = staticmethod(lambda: CoopLock(s, reentrant=False))
            RLock = staticmethod(lambda: CoopLock(s, reentrant=True))
            Condition = staticmethod(lambda lock=None: CoopCondition(s, lock))
            Event = _t.Event
            local = _t.local
            Thread = _t.Thread

            @staticmethod
            def get_ident():
                t = s.me()
                return t.idx if t is not None else _t.get_ident()

            @staticmethod
            def current_thread():
                return _t.current_thread()
        return Fake


class CoopLock:
    _n = 0

    def __init__(self, sched, reentrant):
        self.sched = sched
        self.reentrant = reentrant
        self.owner = None
        self.depth = 0
        CoopLock._n += 1
        self.name = f"lock{CoopLock._n}"

    def can_take(self, t):
        return self.owner is None or (self.reentrant and self.owner is t)

    def acquire(self, blocking=True, timeout=-1):
        s = self.sched
        t = s.me()
        if t is None:            # unmanaged (harness main thread): immediate, no scheduling
            if self.owner is None or (self.reentrant and self.owner == "main"):
                self.owner = "main"
                self.depth += 1
                return True
            raise RuntimeError("unmanaged thread would block on a cooperative lock")
        s.yield_point()          # scheduling point before every acquisition attempt
        while not self.can_take(t):
            if not blocking:
                return False
            t.status = BLOCKED
            t.blocked_on = self
            s._switch(t)
        t.blocked_on = None
        self.owner = t
        self.depth += 1
        s.log.append(("acq", t.idx, self.name))
        if s.on_event:
            s.on_event(s.log[-1])
        return True

    def release(self):
        s = self.sched
        t = s.me()
        me = t if t is not None else "main"
        if s.aborting:
            return
        if self.owner is not me:
            raise RuntimeError("release of un-acquired cooperative lock")
        self.depth -= 1
        if self.depth == 0:
            self.owner = None
            s.log.append(("rel", getattr(t, "idx", -1), self.name))
            if s.yield_on_release and t is not None:
                s.yield_point()       # optional: lets another thread run right after a critical section ends

    def locked(self):
        return self.owner is not None

    __enter__ = acquire

    def __exit__(self, *a):
        self.release()

    # used by Condition
    def _release_save(self):
        d = self.depth
        self.depth = 0
        self.owner = None
        return d

    def _acquire_restore(self, t, d):
        s = self.sched
        while not self.can_take(t):
            t.status = BLOCKED
            t.blocked_on = self
            s._switch(t)
        t.blocked_on = None
        self.owner = t
        self.depth = d
        s.log.append(("acq", t.idx, self.name))
        if s.on_event:
            s.on_event(s.log[-1])


class CoopCondition:
    def __init__(self, sched, lock=None):
        self.sched = sched
        self.lock = lock if lock is not None else CoopLock(sched, reentrant=True)
        self.waiters = []
        self.name = "cond(" + self.lock.name + ")"
        self.acquire = self.lock.acquire
        self.release = self.lock.release

    def __enter__(self):
        return self.lock.acquire()

    def __exit__(self, *a):
        self.lock.release()

    def _remove_waiter(self, t):
        if t in self.waiters:
            self.waiters.remove(t)

    def wait(self, timeout=None):
        s = self.sched
        t = s.me()
        if t is None:
            raise RuntimeError("unmanaged thread cannot wait on a cooperative condition")
        if self.lock.owner is not t:
            raise RuntimeError("cannot wait on un-acquired lock")
        d = self.lock._release_save()
        t.status = WAITING
        t.wait_cond = self
        t.notified = False
        t.timed_out = False
        t.deadline = None if timeout is None else s.clock + max(timeout, 0)
        self.waiters.append(t)
        s.log.append(("wait", t.idx, self.name, t.deadline, s.clock))
        if s.on_event:
            s.on_event(s.log[-1])
        s._switch(t)
        notified = t.notified
        t.wait_cond = None
        t.deadline = None
        self._remove_waiter(t)
        self.lock._acquire_restore(t, d)
        return notified

    def wait_for(self, predicate, timeout=None):
        end = None if timeout is None else self.sched.clock + timeout
        r = predicate()
        while not r:
            if end is not None:
                rem = end - self.sched.clock
                if rem <= 0:
                    break
                self.wait(rem)
            else:
                self.wait()
            r = predicate()
        return r

    def notify(self, n=1):
        t = self.sched.me()
        me = t if t is not None else "main"
        if self.lock.owner is not me:
            raise RuntimeError("cannot notify on un-acquired lock")
        k = 0
        for w in list(self.waiters):
            if k >= n:
                break
            if not w.notified:
                w.notified = True
                self.waiters.remove(w)
                k += 1

    def notify_all(self):
        self.notify(len(self.waiters) + 1)
