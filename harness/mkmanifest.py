#!/venv/bin/python
"""Regenerates MANIFEST.json from the table below (kept valid at all times)."""
import json, os
HERE = os.path.dirname(os.path.dirname(os.path.abspath(__file__)))
props = [json.loads(l) for l in open(os.path.join(HERE, "properties.jsonl"))]

NOTE_COMMON = ("Trusted: Lean 4.33 kernel + axioms {propext, Classical.choice, Quot.sound} only (audited every run); "
               "harness/extract.py; the correspondence harness. Modelled not verified: CPython, peewee/SQLite, POSIX, threading.")

CLAIMED = {
 "C06": dict(
    text=("Lean theorems for ALL strings: invalid_import_path (function translated from the Python source on every run) "
          "accepts exactly the canonical relative paths; accepted names equal their posixpath.normpath and stay strictly "
          "inside any normalised absolute root. Tie: translated function is the theorem's subject; hand model proved "
          "equivalent; exhaustive differential run of real code vs model vs property-text oracle."),
    note=NOTE_COMMON + " OS symlink resolution is outside the string theorems.",
    technique="Lean 4 proof over translated source function + exhaustive model/implementation correspondence",
    ref="§5 C06"),
 "C19": dict(
    text=("Lean theorems for all tables, cursors, batch sizes k and all sequences of changing tables: each QueryWalker.get "
          "returns exactly k ids from the table continuing at the cursor and wrapping; an id present throughout is returned "
          "within floor((N-1)/k)+1 <= ceil(N/k)+1 calls (N = distinct ids seen in the window); age filter exact. Tie: "
          "real QueryWalker on SQLite with churn and real run_auto_verify (virtual clock) vs the model, plus a cyclic-order oracle."),
    note=NOTE_COMMON + " SQL ORDER BY/LIMIT semantics trusted; time zone UTC (last_update.timestamp() on naive values).",
    technique="Lean 4 proof (induction over call sequences) + differential correspondence on SQLite",
    ref="§5 C19"),
}

checks = []
for p in props:
    pid = p["id"]
    if pid in CLAIMED:
        c = CLAIMED[pid]
        checks.append({
            "property_id": pid,
            "quick_cmd": f"./check {pid} --tier quick",
            "thorough_cmd": f"./check {pid} --tier thorough",
            "evidence_file": f"/verif/evidence/{pid}.json",
            "replay_cmd_template": f"./check {pid} --replay {{path}}",
            "engine": "lean4-proof+correspondence",
            "level_claimed": {"category": "proof", "text": c["text"], "design_ref": c["ref"]},
            "level_note": c["note"],
            "technique": c["technique"],
        })
na = [{"property_id": p["id"], "reason": "check not built yet (build in progress; see DESIGN.md §10 order)"}
      for p in props if p["id"] not in CLAIMED]
man = {
 "version": 1,
 "setup_cmd": "./setup.sh",
 "hooks": {"guard": "ALPENHORN_VERIF", "enable": "checks set ALPENHORN_VERIF=1 in their own process; instrumentation is by rebinding module globals from the harness",
           "baseline_off_cmd": "cd /repo && /venv/bin/python -m pytest -ra -q -p no:cacheprovider --timeout=900 --continue-on-collection-errors",
           "source_commits": [], "add_only": True},
 "engines": [{"name": "lean4-proof+correspondence", "path": "/verif/lean", "serves_properties": sorted(CLAIMED),
              "kind_free_text": "Lean 4 theorems about executable models + differential correspondence against the real Python"}],
 "checks": checks,
 "not_applicable": na,
 "notes": "See DESIGN.md. Every claimed property is decided by Lean theorems + a model/implementation correspondence run on each invocation.",
}
json.dump(man, open(os.path.join(HERE, "MANIFEST.json"), "w"), indent=1)
print("claimed:", sorted(CLAIMED))
