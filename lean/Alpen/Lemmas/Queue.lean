import Alpen.Model.Queue
/-! Invariant of the queue model and helper lemmas.  (Skeleton: the prover may strengthen
`QInv` with further conjuncts needed to make it inductive, but must keep the listed ones.) -/
namespace Alpen

/-- keys mentioned by an op -/
def OpIn (keys : List Nat) : QOp → Prop
  | .putNow _ key => key ∈ keys
  | .putDeferred _ key _ _ => key ∈ keys
  | .get _ choice => ∀ k, choice = some k → k ∈ keys
  | .taskDone key => key ∈ keys
  | _ => True

def OpsIn (keys : List Nat) (ops : List QOp) : Prop := ∀ op ∈ ops, OpIn keys op

/-- queued items of all FIFOs as (key, item) pairs -/
def queuedOf (keys : List Nat) (q : Q) : List (Nat × QItem) :=
  keys.flatMap (fun k => (q.fifo k).map (fun it => (k, it)))

structure QInv (keys : List Nat) (q : Q) : Prop where
  outside : ∀ k, k ∉ keys → q.known k = false
  unknown : ∀ k, q.known k = false → q.fifo k = [] ∧ q.inprog k = 0 ∧ q.locked k = false ∧ ∀ c, q.keysBy c k = false
  byCount : ∀ k, q.known k = true → ∀ c, (q.keysBy c k = true ↔ q.inprog k = c)
  byLen : ∀ k, q.inprog k < q.keysByLen
  tq : q.totalQueued = (keys.map (fun k => (q.fifo k).length)).sum
  ti : q.totalInprog = (keys.map q.inprog).sum
  lockOne : ∀ k, q.locked k = true → q.inprog k = 1
  order : ∀ k, q.enq k = ((q.delivered.filter (fun p => p.1 == k)).map (·.2)) ++ q.fifo k
  once : q.accepted.Perm (q.delivered ++ queuedOf keys q ++ q.deferrals.map (fun d => (d.key, d.item)) ++ q.discarded)
  defKeys : ∀ d ∈ q.deferrals, d.key ∈ keys
  joinNlw : ∀ t, q.jwait t = some false → 0 < q.totalQueued + q.totalInprog

/-! ### generic helpers: point updates, sums, flattened FIFOs -/

theorem map_upd_of_notin {α β} {keys : List Nat} (g : α → β) (f : Nat → α) {k : Nat} (v : α)
    (h : k ∉ keys) : keys.map (fun i => g (upd f k v i)) = keys.map (fun i => g (f i)) := by
  apply List.map_congr_left
  intro a ha
  have : a ≠ k := fun e => h (e ▸ ha)
  simp [upd, this]

theorem sum_map_upd {α} {keys : List Nat} (hk : keys.Nodup) (g : α → Nat) (f : Nat → α) {k : Nat}
    (v : α) (h : k ∈ keys) :
    (keys.map (fun i => g (upd f k v i))).sum + g (f k) = (keys.map (fun i => g (f i))).sum + g v := by
  induction keys with
  | nil => simp at h
  | cons a l ih =>
    simp only [List.nodup_cons] at hk
    by_cases hak : a = k
    · subst hak
      rw [List.map_cons, List.map_cons, map_upd_of_notin g f v hk.1]
      simp only [List.sum_cons, upd, if_true]
      omega
    · have hkl : k ∈ l := by
        rcases List.mem_cons.1 h with e | e
        · exact absurd e.symm hak
        · exact e
      have := ih hk.2 hkl
      simp only [List.map_cons, List.sum_cons, upd, hak, if_false]
      simp only [upd] at this
      omega

theorem le_sum_of_mem {keys : List Nat} (f : Nat → Nat) {k : Nat} (h : k ∈ keys) :
    f k ≤ (keys.map f).sum := by
  induction keys with
  | nil => simp at h
  | cons a l ih =>
    rcases List.mem_cons.1 h with e | e
    · subst e; simp
    · have := ih e
      simp only [List.map_cons, List.sum_cons]
      omega

theorem sum_eq_zero_iff {keys : List Nat} (f : Nat → Nat) :
    (keys.map f).sum = 0 ↔ ∀ k ∈ keys, f k = 0 := by
  induction keys with
  | nil => simp
  | cons a l ih => simp [ih]

/-- the (key, item) pairs of a family of FIFOs -/
def flat (keys : List Nat) (f : Nat → List QItem) : List (Nat × QItem) :=
  keys.flatMap (fun k => (f k).map (fun it => (k, it)))

theorem queuedOf_eq (keys : List Nat) (q : Q) : queuedOf keys q = flat keys q.fifo := rfl

theorem flat_upd_of_notin {keys : List Nat} (f : Nat → List QItem) {k : Nat} (v : List QItem)
    (h : k ∉ keys) : flat keys (upd f k v) = flat keys f := by
  induction keys with
  | nil => rfl
  | cons a l ih =>
    have hak : a ≠ k := fun e => h (e ▸ List.mem_cons_self)
    have hl : k ∉ l := fun e => h (List.mem_cons_of_mem _ e)
    simp only [flat, List.flatMap_cons] at ih ⊢
    rw [ih hl]
    simp [upd, hak]

theorem flat_upd_append_perm {keys : List Nat} (hk : keys.Nodup) (f : Nat → List QItem) {k : Nat}
    (it : QItem) (h : k ∈ keys) :
    (flat keys (upd f k (f k ++ [it]))).Perm (flat keys f ++ [(k, it)]) := by
  induction keys with
  | nil => simp at h
  | cons a l ih =>
    simp only [List.nodup_cons] at hk
    by_cases hak : a = k
    · subst hak
      have := flat_upd_of_notin f (f a ++ [it]) hk.1
      simp only [flat, List.flatMap_cons] at this ⊢
      rw [this]
      simp only [upd, if_true, List.map_append, List.map_cons, List.map_nil, List.append_assoc]
      exact List.Perm.append_left _ List.perm_append_comm
    · have hkl : k ∈ l := by
        rcases List.mem_cons.1 h with e | e
        · exact absurd e.symm hak
        · exact e
      have := ih hk.2 hkl
      simp only [flat, List.flatMap_cons] at this ⊢
      simp only [upd, hak, if_false, List.append_assoc]
      exact List.Perm.append_left _ this

theorem flat_pop_perm {keys : List Nat} (hk : keys.Nodup) (f : Nat → List QItem) {k : Nat}
    {x : QItem} {t : List QItem} (h : k ∈ keys) (hf : f k = x :: t) :
    (flat keys f).Perm ((k, x) :: flat keys (upd f k t)) := by
  induction keys with
  | nil => simp at h
  | cons a l ih =>
    simp only [List.nodup_cons] at hk
    by_cases hak : a = k
    · subst hak
      have := flat_upd_of_notin f t hk.1
      simp only [flat, List.flatMap_cons] at this ⊢
      rw [this]
      simp [upd, hf]
    · have hkl : k ∈ l := by
        rcases List.mem_cons.1 h with e | e
        · exact absurd e.symm hak
        · exact e
      have := ih hk.2 hkl
      simp only [flat, List.flatMap_cons] at this ⊢
      simp only [upd, hak, if_false]
      exact (List.Perm.append_left _ this).trans List.perm_middle


/-! ### `rawPut`, field by field -/

theorem rawPut_fifo (q : Q) (it : QItem) (key : Nat) :
    (q.rawPut it key).fifo = upd q.fifo key (q.fifo key ++ [it]) := by
  simp only [Q.rawPut]; split <;> rfl

theorem rawPut_enq (q : Q) (it : QItem) (key : Nat) :
    (q.rawPut it key).enq = upd q.enq key (q.enq key ++ [it]) := by
  simp only [Q.rawPut]; split <;> rfl

theorem rawPut_totalQueued (q : Q) (it : QItem) (key : Nat) :
    (q.rawPut it key).totalQueued = q.totalQueued + 1 := by
  simp only [Q.rawPut]; split <;> rfl

theorem rawPut_known (q : Q) (it : QItem) (key : Nat) :
    (q.rawPut it key).known = upd q.known key true := by
  simp only [Q.rawPut]; split
  · funext i; simp only [upd]; split
    · subst_vars; assumption
    · rfl
  · rfl

theorem rawPut_inprog (q : Q) (it : QItem) (key : Nat) (h : q.known key = false → q.inprog key = 0) :
    (q.rawPut it key).inprog = q.inprog := by
  simp only [Q.rawPut]; split
  · rfl
  · rename_i hk
    funext i; simp only [upd]; split
    · subst_vars; exact (h (by simpa using hk)).symm
    · rfl

theorem rawPut_keysBy (q : Q) (it : QItem) (key : Nat) :
    (q.rawPut it key).keysBy = if q.known key then q.keysBy else upd2 q.keysBy 0 key true := by
  simp only [Q.rawPut]; split <;> rfl

theorem rawPut_totalInprog (q : Q) (it : QItem) (key : Nat) :
    (q.rawPut it key).totalInprog = q.totalInprog := by
  simp only [Q.rawPut]; split <;> rfl
theorem rawPut_keysByLen (q : Q) (it : QItem) (key : Nat) :
    (q.rawPut it key).keysByLen = q.keysByLen := by
  simp only [Q.rawPut]; split <;> rfl
theorem rawPut_locked (q : Q) (it : QItem) (key : Nat) :
    (q.rawPut it key).locked = q.locked := by
  simp only [Q.rawPut]; split <;> rfl
theorem rawPut_deferrals (q : Q) (it : QItem) (key : Nat) :
    (q.rawPut it key).deferrals = q.deferrals := by
  simp only [Q.rawPut]; split <;> rfl
theorem rawPut_joining (q : Q) (it : QItem) (key : Nat) :
    (q.rawPut it key).joining = q.joining := by
  simp only [Q.rawPut]; split <;> rfl
theorem rawPut_delivered (q : Q) (it : QItem) (key : Nat) :
    (q.rawPut it key).delivered = q.delivered := by
  simp only [Q.rawPut]; split <;> rfl
theorem rawPut_accepted (q : Q) (it : QItem) (key : Nat) :
    (q.rawPut it key).accepted = q.accepted := by
  simp only [Q.rawPut]; split <;> rfl
theorem rawPut_discarded (q : Q) (it : QItem) (key : Nat) :
    (q.rawPut it key).discarded = q.discarded := by
  simp only [Q.rawPut]; split <;> rfl
theorem rawPut_jwait (q : Q) (it : QItem) (key : Nat) :
    (q.rawPut it key).jwait = q.jwait := by
  simp only [Q.rawPut]; split <;> rfl

/-- `QInv` without the multiset bookkeeping (`once`), which `rawPut` alone does not preserve -/
structure QCore (keys : List Nat) (q : Q) : Prop where
  outside : ∀ k, k ∉ keys → q.known k = false
  unknown : ∀ k, q.known k = false → q.fifo k = [] ∧ q.inprog k = 0 ∧ q.locked k = false ∧ ∀ c, q.keysBy c k = false
  byCount : ∀ k, q.known k = true → ∀ c, (q.keysBy c k = true ↔ q.inprog k = c)
  byLen : ∀ k, q.inprog k < q.keysByLen
  tq : q.totalQueued = (keys.map (fun k => (q.fifo k).length)).sum
  ti : q.totalInprog = (keys.map q.inprog).sum
  lockOne : ∀ k, q.locked k = true → q.inprog k = 1
  order : ∀ k, q.enq k = ((q.delivered.filter (fun p => p.1 == k)).map (·.2)) ++ q.fifo k
  defKeys : ∀ d ∈ q.deferrals, d.key ∈ keys
  joinNlw : ∀ t, q.jwait t = some false → 0 < q.totalQueued + q.totalInprog

theorem QInv.core {keys : List Nat} {q : Q} (h : QInv keys q) : QCore keys q :=
  ⟨h.outside, h.unknown, h.byCount, h.byLen, h.tq, h.ti, h.lockOne, h.order, h.defKeys, h.joinNlw⟩

theorem QCore.toInv {keys : List Nat} {q : Q} (h : QCore keys q)
    (ho : q.accepted.Perm (q.delivered ++ queuedOf keys q ++ q.deferrals.map (fun d => (d.key, d.item)) ++ q.discarded)) :
    QInv keys q :=
  ⟨h.outside, h.unknown, h.byCount, h.byLen, h.tq, h.ti, h.lockOne, h.order, ho, h.defKeys, h.joinNlw⟩

theorem QCore.rawPut {keys : List Nat} (hk : keys.Nodup) {q : Q} (h : QCore keys q) (it : QItem)
    {key : Nat} (hkey : key ∈ keys) : QCore keys (q.rawPut it key) := by
  have hip : (q.rawPut it key).inprog = q.inprog :=
    rawPut_inprog q it key (fun hkn => (h.unknown key hkn).2.1)
  constructor
  · intro k hkk
    have : k ≠ key := fun e => hkk (e ▸ hkey)
    simp [rawPut_known, upd, this, h.outside k hkk]
  · intro k hkn
    rw [rawPut_known] at hkn
    have hne : k ≠ key := by
      intro e; subst e; simp [upd] at hkn
    simp only [upd, hne, if_false] at hkn
    obtain ⟨h1, h2, h3, h4⟩ := h.unknown k hkn
    rw [rawPut_fifo, hip, rawPut_locked, rawPut_keysBy]
    refine ⟨by simp [upd, hne, h1], h2, h3, ?_⟩
    intro c
    split
    · exact h4 c
    · simp [upd2, hne, h4 c]
  · intro k hkn c
    rw [hip, rawPut_keysBy]
    by_cases hq : q.known key = true
    · simp only [hq, if_true]
      by_cases hne : k = key
      · subst hne; exact h.byCount k hq c
      · rw [rawPut_known] at hkn
        simp only [upd, hne, if_false] at hkn
        exact h.byCount k hkn c
    · have hq' : q.known key = false := by simpa using hq
      simp only [hq', Bool.false_eq_true, if_false]
      obtain ⟨_, h2, _, h4⟩ := h.unknown key hq'
      by_cases hne : k = key
      · subst hne
        by_cases hc : c = 0
        · subst hc; simp [upd2, h2]
        · simp [upd2, hc, h4 c, h2]; omega
      · rw [rawPut_known] at hkn
        simp only [upd, hne, if_false] at hkn
        simp only [upd2, hne, and_false, if_false]
        exact h.byCount k hkn c
  · intro k; rw [hip, rawPut_keysByLen]; exact h.byLen k
  · rw [rawPut_totalQueued, rawPut_fifo, h.tq]
    have := sum_map_upd hk List.length q.fifo (q.fifo key ++ [it]) hkey
    simp only [List.length_append, List.length_cons, List.length_nil] at this
    omega
  · rw [rawPut_totalInprog, hip]; exact h.ti
  · intro k; rw [rawPut_locked, hip]; exact h.lockOne k
  · intro k
    rw [rawPut_enq, rawPut_delivered, rawPut_fifo]
    by_cases hne : k = key
    · subst hne; simp [upd, h.order k]
    · simp [upd, hne, h.order k]
  · intro d hd; rw [rawPut_deferrals] at hd; exact h.defKeys d hd
  · intro t ht; rw [rawPut_totalQueued]; omega

theorem queuedOf_rawPut {keys : List Nat} (hk : keys.Nodup) (q : Q) (it : QItem)
    {key : Nat} (hkey : key ∈ keys) :
    (queuedOf keys (q.rawPut it key)).Perm (queuedOf keys q ++ [(key, it)]) := by
  rw [queuedOf_eq, queuedOf_eq, rawPut_fifo]
  exact flat_upd_append_perm hk q.fifo it hkey


/-! ### folding `rawPut` over a list of deferrals (`promote`) -/


def rawPuts (q : Q) (ds : List Deferred) : Q := ds.foldl (fun acc d => acc.rawPut d.item d.key) q

theorem rawPuts_nil (q : Q) : rawPuts q [] = q := rfl
theorem rawPuts_cons (q : Q) (d : Deferred) (ds : List Deferred) :
    rawPuts q (d :: ds) = rawPuts (q.rawPut d.item d.key) ds := rfl

theorem promote_eq (q : Q) (now : Nat) :
    q.promote now = rawPuts { q with deferrals := q.deferrals.filter (fun d => !(d.expiry ≤ now)) }
      (q.deferrals.filter (fun d => d.expiry ≤ now)) := rfl

theorem rawPuts_locked (q : Q) (ds : List Deferred) : (rawPuts q ds).locked = q.locked := by
  induction ds generalizing q with
  | nil => rfl
  | cons d ds ih => rw [rawPuts_cons, ih, rawPut_locked]
theorem rawPuts_deferrals (q : Q) (ds : List Deferred) : (rawPuts q ds).deferrals = q.deferrals := by
  induction ds generalizing q with
  | nil => rfl
  | cons d ds ih => rw [rawPuts_cons, ih, rawPut_deferrals]
theorem rawPuts_delivered (q : Q) (ds : List Deferred) : (rawPuts q ds).delivered = q.delivered := by
  induction ds generalizing q with
  | nil => rfl
  | cons d ds ih => rw [rawPuts_cons, ih, rawPut_delivered]
theorem rawPuts_accepted (q : Q) (ds : List Deferred) : (rawPuts q ds).accepted = q.accepted := by
  induction ds generalizing q with
  | nil => rfl
  | cons d ds ih => rw [rawPuts_cons, ih, rawPut_accepted]
theorem rawPuts_discarded (q : Q) (ds : List Deferred) : (rawPuts q ds).discarded = q.discarded := by
  induction ds generalizing q with
  | nil => rfl
  | cons d ds ih => rw [rawPuts_cons, ih, rawPut_discarded]

theorem rawPuts_enq_mono (q : Q) (ds : List Deferred) (k : Nat) (x : QItem) (h : x ∈ q.enq k) :
    x ∈ (rawPuts q ds).enq k := by
  induction ds generalizing q with
  | nil => exact h
  | cons d ds ih =>
    rw [rawPuts_cons]
    apply ih
    rw [rawPut_enq]
    by_cases hk : k = d.key
    · subst hk; simp [upd, h]
    · simp [upd, hk, h]

theorem rawPuts_enq_mem (q : Q) (ds : List Deferred) (d : Deferred) (h : d ∈ ds) :
    d.item ∈ (rawPuts q ds).enq d.key := by
  induction ds generalizing q with
  | nil => simp at h
  | cons e ds ih =>
    rw [rawPuts_cons]
    rcases List.mem_cons.1 h with rfl | h'
    · apply rawPuts_enq_mono
      rw [rawPut_enq]; simp [upd]
    · exact ih _ h'

theorem QCore.rawPuts {keys : List Nat} (hk : keys.Nodup) (ds : List Deferred) {q : Q}
    (h : QCore keys q) (hds : ∀ d ∈ ds, d.key ∈ keys) :
    QCore keys (rawPuts q ds) ∧
    (queuedOf keys (rawPuts q ds)).Perm (queuedOf keys q ++ ds.map (fun d => (d.key, d.item))) := by
  induction ds generalizing q with
  | nil => exact ⟨h, by simp [rawPuts_nil]⟩
  | cons d ds ih =>
    have hd : d.key ∈ keys := hds d List.mem_cons_self
    obtain ⟨h1, h2⟩ := ih (h.rawPut hk d.item hd) (fun e he => hds e (List.mem_cons_of_mem _ he))
    rw [rawPuts_cons]
    refine ⟨h1, h2.trans ?_⟩
    have := queuedOf_rawPut hk q d.item hd
    simp only [List.map_cons]
    refine (List.Perm.append_right _ this).trans ?_
    simp

/-- solve a goal `l.Perm r` from permutation hypotheses by counting -/
theorem perm_of_count {α} [DecidableEq α] {l r : List α} (h : ∀ a, l.count a = r.count a) : l.Perm r :=
  List.perm_iff_count.2 h

theorem promote_deferrals (q : Q) (now : Nat) :
    (q.promote now).deferrals = q.deferrals.filter (fun d => !(d.expiry ≤ now)) := by
  rw [promote_eq, rawPuts_deferrals]
theorem promote_locked (q : Q) (now : Nat) : (q.promote now).locked = q.locked := by
  rw [promote_eq, rawPuts_locked]

theorem QInv.promote {keys : List Nat} (hk : keys.Nodup) {q : Q} (h : QInv keys q) (now : Nat) :
    QInv keys (q.promote now) := by
  have hc : QCore keys { q with deferrals := q.deferrals.filter (fun d => !(d.expiry ≤ now)) } :=
    ⟨h.outside, h.unknown, h.byCount, h.byLen, h.tq, h.ti, h.lockOne, h.order,
      fun d hd => h.defKeys d (List.mem_filter.1 hd).1, h.joinNlw⟩
  have hdue : ∀ d ∈ q.deferrals.filter (fun d => d.expiry ≤ now), d.key ∈ keys :=
    fun d hd => h.defKeys d (List.mem_filter.1 hd).1
  obtain ⟨h1, h2⟩ := hc.rawPuts hk _ hdue
  rw [← promote_eq] at h1 h2
  refine h1.toInv ?_
  rw [promote_deferrals, promote_eq, rawPuts_accepted, rawPuts_delivered, rawPuts_discarded, ← promote_eq]
  have h3 := (List.filter_append_perm (fun d => d.expiry ≤ now) q.deferrals).map (fun d => (d.key, d.item))
  have h4 := h.once
  rw [List.perm_iff_count] at h2 h3 h4 ⊢
  intro a
  have e2 := h2 a; have e3 := h3 a; have e4 := h4 a
  simp only [List.count_append, List.map_append, queuedOf] at e2 e3 e4 ⊢
  omega


/-! ### `putNow`, `putDeferred`, `join*` -/

theorem QInv.putNow {keys : List Nat} (hk : keys.Nodup) {q : Q} (h : QInv keys q) (it : QItem)
    {key : Nat} (hkey : key ∈ keys) : QInv keys (q.putNow it key) := by
  have hc := h.core.rawPut hk it hkey
  have hc' : QCore keys (q.putNow it key) :=
    ⟨hc.outside, hc.unknown, hc.byCount, hc.byLen, hc.tq, hc.ti, hc.lockOne, hc.order, hc.defKeys, hc.joinNlw⟩
  refine hc'.toInv ?_
  have h2 := queuedOf_rawPut hk q it hkey
  have h4 := h.once
  show ((q.rawPut it key).accepted ++ [(key, it)]).Perm
    ((q.rawPut it key).delivered ++ queuedOf keys (q.rawPut it key) ++
      (q.rawPut it key).deferrals.map (fun d => (d.key, d.item)) ++ (q.rawPut it key).discarded)
  rw [rawPut_accepted, rawPut_delivered, rawPut_deferrals, rawPut_discarded]
  rw [List.perm_iff_count] at h2 h4 ⊢
  intro a
  have e2 := h2 a; have e4 := h4 a
  simp only [List.count_append] at e2 e4 ⊢
  omega

theorem insertDeferred_perm (d : Deferred) (l : List Deferred) : (insertDeferred d l).Perm (d :: l) := by
  induction l with
  | nil => exact List.Perm.refl _
  | cons x xs ih =>
    simp only [insertDeferred]
    split
    · exact List.Perm.refl _
    · exact (List.Perm.cons x ih).trans (List.Perm.swap d x xs)

theorem mem_insertDeferred {d x : Deferred} {l : List Deferred} :
    x ∈ insertDeferred d l ↔ x = d ∨ x ∈ l := by
  rw [(insertDeferred_perm d l).mem_iff, List.mem_cons]

theorem QInv.putDeferred {keys : List Nat} {q : Q} (h : QInv keys q) (it : QItem)
    {key : Nat} (wait now : Nat) (hkey : key ∈ keys) : QInv keys (q.putDeferred it key wait now).1 := by
  simp only [Q.putDeferred]
  split
  · exact h
  · have hc : QCore keys { q with
        deferrals := insertDeferred ⟨now + wait, it, key⟩ q.deferrals,
        accepted := q.accepted ++ [(key, it)] } :=
      ⟨h.outside, h.unknown, h.byCount, h.byLen, h.tq, h.ti, h.lockOne, h.order,
        fun d hd => by
          rcases mem_insertDeferred.1 hd with rfl | hd
          · exact hkey
          · exact h.defKeys d hd, h.joinNlw⟩
    refine hc.toInv ?_
    have h3 := (insertDeferred_perm ⟨now + wait, it, key⟩ q.deferrals).map (fun d => (d.key, d.item))
    have h4 := h.once
    show (q.accepted ++ [(key, it)]).Perm (q.delivered ++ queuedOf keys q ++
      (insertDeferred ⟨now + wait, it, key⟩ q.deferrals).map (fun d => (d.key, d.item)) ++ q.discarded)
    rw [List.perm_iff_count] at h3 h4 ⊢
    intro a
    have e3 := h3 a; have e4 := h4 a
    simp only [List.count_append, List.map_cons, List.count_cons, List.count_nil] at e3 e4 ⊢
    omega

theorem QInv.joinBegin {keys : List Nat} {q : Q} (h : QInv keys q) : QInv keys q.joinBegin := by
  have hc : QCore keys q.joinBegin :=
    ⟨h.outside, h.unknown, h.byCount, h.byLen, h.tq, h.ti, h.lockOne, h.order,
      fun d hd => by simp [Q.joinBegin] at hd, h.joinNlw⟩
  refine hc.toInv ?_
  have h4 := h.once
  show q.accepted.Perm (q.delivered ++ queuedOf keys q ++ ([] : List Deferred).map (fun d => (d.key, d.item)) ++
    (q.discarded ++ q.deferrals.map (fun d => (d.key, d.item))))
  rw [List.perm_iff_count] at h4 ⊢
  intro a
  have e4 := h4 a
  simp only [List.count_append, List.map_nil, List.count_nil] at e4 ⊢
  omega

theorem QInv.joinEnd {keys : List Nat} {q : Q} (h : QInv keys q) : QInv keys q.joinEnd :=
  ⟨h.outside, h.unknown, h.byCount, h.byLen, h.tq, h.ti, h.lockOne, h.order, h.once, h.defKeys, h.joinNlw⟩

theorem QInv.joinCheck {keys : List Nat} {q : Q} (h : QInv keys q) (t : Nat) : QInv keys (q.joinCheck t).1 := by
  simp only [Q.joinCheck]
  split
  · rename_i hpos
    refine ⟨h.outside, h.unknown, h.byCount, h.byLen, h.tq, h.ti, h.lockOne, h.order, h.once, h.defKeys, ?_⟩
    intro t' ht'
    by_cases e : t' = t
    · show 0 < q.totalQueued + q.totalInprog
      omega
    · simp only [upd, e, if_false] at ht'
      exact h.joinNlw t' ht'
  · refine ⟨h.outside, h.unknown, h.byCount, h.byLen, h.tq, h.ti, h.lockOne, h.order, h.once, h.defKeys, ?_⟩
    intro t' ht'
    by_cases e : t' = t
    · simp [upd, e] at ht'
    · simp only [upd, e, if_false] at ht'
      exact h.joinNlw t' ht'


/-! ### `taskDone` -/

theorem sum_map_upd' {keys : List Nat} (hk : keys.Nodup) (f : Nat → Nat) {k : Nat}
    (v : Nat) (h : k ∈ keys) :
    (keys.map (upd f k v)).sum + f k = (keys.map f).sum + v := by
  simpa using sum_map_upd hk id f v h

theorem QInv.mem_of_known {keys : List Nat} {q : Q} (h : QInv keys q) {k : Nat} (hkn : q.known k = true) :
    k ∈ keys := by
  apply Classical.byContradiction
  intro hn
  rw [h.outside k hn] at hkn
  cases hkn

/-- the state after the bookkeeping of `task_done`, with an arbitrary new `jwait` -/
def Q.done1 (q : Q) (key : Nat) (jw : Nat → Option Bool) : Q :=
  { q with keysBy := upd2 (upd2 q.keysBy (q.inprog key) key false) (q.inprog key - 1) key true,
           locked := upd q.locked key false,
           inprog := upd q.inprog key (q.inprog key - 1),
           totalInprog := q.totalInprog - 1,
           jwait := jw }

theorem QInv.done1 {keys : List Nat} (hk : keys.Nodup) {q : Q} (h : QInv keys q) {key : Nat}
    (hkn : q.known key = true) (hc : q.inprog key ≠ 0) (jw : Nat → Option Bool)
    (hjw : ∀ t, jw t = some false → 0 < q.totalQueued + (q.totalInprog - 1)) :
    QInv keys (q.done1 key jw) := by
  have hkey : key ∈ keys := h.mem_of_known hkn
  refine ⟨h.outside, ?_, ?_, ?_, h.tq, ?_, ?_, h.order, h.once, h.defKeys, hjw⟩
  · intro k hk0
    have hk' : q.known k = false := hk0
    have hne : k ≠ key := by intro e; subst e; rw [hkn] at hk'; cases hk'
    obtain ⟨h1, h2, h3, h4⟩ := h.unknown k hk'
    refine ⟨h1, ?_, ?_, ?_⟩
    · simp [Q.done1, upd, hne, h2]
    · simp [Q.done1, upd, hne, h3]
    · intro c; simp [Q.done1, upd2, hne, h4 c]
  · intro k hk' c
    by_cases hne : k = key
    · subst hne
      have := h.byCount k hkn c
      simp only [Q.done1, upd2, upd, and_true, if_true]
      by_cases e1 : c = q.inprog k - 1
      · simp [e1]
      · by_cases e2 : c = q.inprog k
        · simp [e2]; omega
        · simp only [e1, e2, if_false, this]; omega
    · have := h.byCount k hk' c
      simpa [Q.done1, upd2, upd, hne] using this
  · intro k
    have := h.byLen k
    by_cases hne : k = key
    · subst hne; simp only [Q.done1, upd, if_true]; omega
    · simpa [Q.done1, upd, hne] using this
  · have := sum_map_upd' hk q.inprog (q.inprog key - 1) hkey
    have := h.ti
    show q.totalInprog - 1 = (keys.map (upd q.inprog key (q.inprog key - 1))).sum
    omega
  · intro k hl
    by_cases hne : k = key
    · subst hne; simp [Q.done1, upd] at hl
    · simp only [Q.done1, upd, hne, if_false] at hl ⊢
      exact h.lockOne k hl

theorem QInv.taskDone {keys : List Nat} (hk : keys.Nodup) {q : Q} (h : QInv keys q) (key : Nat) :
    QInv keys ((q.taskDone key).getD q) := by
  simp only [Q.taskDone]
  split
  · exact h
  · rename_i hg
    simp only [Bool.or_eq_true, Bool.not_eq_true', decide_eq_true_eq, not_or] at hg
    have hkn : q.known key = true := by simpa using hg.1
    split
    · simp only [Option.getD_some]
      refine h.done1 hk hkn hg.2 _ ?_
      intro t ht
      simp only [Option.map_eq_some_iff] at ht
      obtain ⟨_, _, hf⟩ := ht
      cases hf
    · rename_i hz
      simp only [Option.getD_some]
      refine h.done1 hk hkn hg.2 _ ?_
      intro t ht
      have := h.joinNlw t ht
      have hz' : ¬(q.totalQueued = 0 ∧ q.totalInprog - 1 = 0) := hz
      omega


/-! ### `getAttempt`: the pop -/

/-- the state after `_get` pops the head `x` of FIFO `k` (whose tail is `t`) -/
def Q.pop (q : Q) (k : Nat) (x : QItem) (t : List QItem) : Q :=
  { q with fifo := upd q.fifo k t, totalQueued := q.totalQueued - 1, totalInprog := q.totalInprog + 1,
           locked := if x.excl then upd q.locked k true else q.locked,
           inprog := upd q.inprog k (q.inprog k + 1),
           keysBy := upd2 (upd2 q.keysBy (q.inprog k) k false) (q.inprog k + 1) k true,
           keysByLen := if q.keysByLen = q.inprog k + 1 then q.keysByLen + 1 else q.keysByLen,
           delivered := q.delivered ++ [(k, x)] }

theorem eligible_iff (q : Q) (k : Nat) :
    q.eligible k = true ↔ q.known k = true ∧ q.locked k = false ∧
      ∃ x t, q.fifo k = x :: t ∧ ¬ (q.inprog k > 0 ∧ x.excl = true) := by
  simp only [Q.eligible]
  cases hf : q.fifo k with
  | nil => simp
  | cons x t =>
    simp only [Bool.and_eq_true, Bool.not_eq_true', Bool.and_eq_false_iff,
      decide_eq_false_iff_not, List.cons.injEq, and_assoc]
    constructor
    · rintro ⟨a, b, c⟩
      refine ⟨a, b, x, t, rfl, rfl, ?_⟩
      rintro ⟨c1, c2⟩
      rcases c with c | c
      · exact c c1
      · rw [c2] at c; cases c
    · rintro ⟨a, b, x', t', rfl, rfl, c⟩
      refine ⟨a, b, ?_⟩
      cases hx : x.excl
      · exact Or.inr rfl
      · left; intro c1; exact c ⟨c1, hx⟩

/-- complete case analysis of one `_get` pass -/
theorem getAttempt_spec (q0 : Q) (now : Nat) (keys : List Nat) (choice : Option Nat) :
    ((q0.getAttempt now keys choice).1 = q0.promote now ∧
      (∀ k it, (q0.getAttempt now keys choice).2 ≠ .item k it) ∧
      ((q0.getAttempt now keys choice).2 = .none →
        (q0.promote now).totalQueued < 1 ∨ keys.any (q0.promote now).eligible = false)) ∨
    (∃ k x t, choice = some k ∧ 1 ≤ (q0.promote now).totalQueued ∧ (q0.promote now).eligible k = true ∧
      keys.all (fun k' => !(q0.promote now).eligible k' ||
        decide ((q0.promote now).inprog k ≤ (q0.promote now).inprog k')) = true ∧
      (q0.promote now).fifo k = x :: t ∧
      q0.getAttempt now keys choice = ((q0.promote now).pop k x t, .item k x)) := by
  simp only [Q.getAttempt]
  split
  · rename_i h
    left
    refine ⟨rfl, ?_, fun _ => Or.inl h⟩
    intro k it; cases choice <;> simp
  · rename_i h
    cases choice with
    | none =>
      left
      simp only
      split
      · exact ⟨rfl, by intro k it; simp, by intro h; cases h⟩
      · rename_i h2
        exact ⟨rfl, by intro k it; simp, fun _ => Or.inr (by simpa using h2)⟩
    | some k =>
      simp only
      split
      · rename_i h2
        simp only [Bool.and_eq_true] at h2
        cases hf : (q0.promote now).fifo k with
        | nil => left; exact ⟨rfl, by intro k it; simp, by intro h; cases h⟩
        | cons x t =>
          right
          exact ⟨k, x, t, rfl, by omega, h2.1, h2.2, hf, rfl⟩
      · left; exact ⟨rfl, by intro k it; simp, by intro h; cases h⟩


theorem QInv.pop {keys : List Nat} (hk : keys.Nodup) {q : Q} (h : QInv keys q) {k : Nat}
    {x : QItem} {t : List QItem} (hel : q.eligible k = true) (hf : q.fifo k = x :: t) :
    QInv keys (q.pop k x t) := by
  obtain ⟨hkn, hlk, x', t', hf', hex⟩ := (eligible_iff q k).1 hel
  rw [hf] at hf'
  obtain ⟨rfl, rfl⟩ := List.cons.inj hf'
  have hkey : k ∈ keys := h.mem_of_known hkn
  have htq : 1 ≤ q.totalQueued := by
    have := le_sum_of_mem (fun i => (q.fifo i).length) hkey
    have := h.tq
    simp only [hf, List.length_cons] at *
    omega
  refine ⟨h.outside, ?_, ?_, ?_, ?_, ?_, ?_, ?_, ?_, h.defKeys, ?_⟩
  · intro k' hk0
    have hk' : q.known k' = false := hk0
    have hne : k' ≠ k := by intro e; subst e; rw [hkn] at hk'; cases hk'
    obtain ⟨h1, h2, h3, h4⟩ := h.unknown k' hk'
    refine ⟨?_, ?_, ?_, ?_⟩
    · simp [Q.pop, upd, hne, h1]
    · simp [Q.pop, upd, hne, h2]
    · simp only [Q.pop]; split <;> simp [upd, hne, h3]
    · intro c; simp [Q.pop, upd2, hne, h4 c]
  · intro k' hk' c
    by_cases hne : k' = k
    · subst hne
      have := h.byCount k' hkn c
      simp only [Q.pop, upd2, upd, and_true, if_true]
      by_cases e1 : c = q.inprog k' + 1
      · simp [e1]
      · by_cases e2 : c = q.inprog k'
        · simp [e2]
        · simp only [e1, e2, if_false, this]; omega
    · have := h.byCount k' hk' c
      simpa [Q.pop, upd2, upd, hne] using this
  · intro k'
    have h1 := h.byLen k'
    have h2 := h.byLen k
    by_cases hne : k' = k
    · subst hne; simp only [Q.pop, upd, if_true]; split <;> omega
    · simp only [Q.pop, upd, hne, if_false]; split <;> omega
  · have := sum_map_upd hk List.length q.fifo t hkey
    have := h.tq
    show q.totalQueued - 1 = (keys.map (fun i => (upd q.fifo k t i).length)).sum
    simp only [hf, List.length_cons] at *
    omega
  · have := sum_map_upd' hk q.inprog (q.inprog k + 1) hkey
    have := h.ti
    show q.totalInprog + 1 = (keys.map (upd q.inprog k (q.inprog k + 1))).sum
    omega
  · intro k' hl
    by_cases hne : k' = k
    · subst hne
      simp only [Q.pop, upd, if_true] at hl ⊢
      cases hx : x.excl
      · simp [hx, hlk] at hl
      · have : ¬ q.inprog k' > 0 := fun c => hex ⟨c, hx⟩
        omega
    · have : q.locked k' = true := by
        simp only [Q.pop] at hl
        split at hl
        · simpa [upd, hne] using hl
        · exact hl
      simp only [Q.pop, upd, hne, if_false]
      exact h.lockOne k' this
  · intro k'
    have := h.order k'
    by_cases hne : k' = k
    · subst hne
      simp [Q.pop, upd, List.filter_append, this, hf]
    · have hne' : k ≠ k' := fun e => hne e.symm
      simp [Q.pop, upd, List.filter_append, this, hne, hne']
  · have h2 := flat_pop_perm hk q.fifo hkey hf
    have h4 := h.once
    show q.accepted.Perm ((q.delivered ++ [(k, x)]) ++ flat keys (upd q.fifo k t) ++
      q.deferrals.map (fun d => (d.key, d.item)) ++ q.discarded)
    rw [queuedOf_eq] at h4
    rw [List.perm_iff_count] at h2 h4 ⊢
    intro a
    have e2 := h2 a; have e4 := h4 a
    simp only [List.count_append, List.count_cons, List.count_nil] at e2 e4 ⊢
    omega
  · intro t' ht'
    have := h.joinNlw t' ht'
    show 0 < q.totalQueued - 1 + (q.totalInprog + 1)
    omega

theorem QInv.getAttempt {keys : List Nat} (hk : keys.Nodup) {q : Q} (h : QInv keys q) (now : Nat)
    (choice : Option Nat) : QInv keys (q.getAttempt now keys choice).1 := by
  have hp := h.promote hk now
  rcases getAttempt_spec q now keys choice with ⟨h1, _⟩ | ⟨k, x, t, _, _, hel, _, hf, he⟩
  · rw [h1]; exact hp
  · rw [he]; exact hp.pop hk hel hf

theorem step_get (keys : List Nat) (q : Q) (now : Nat) (choice : Option Nat) :
    Q.step keys q (.get now choice) = (q.getAttempt now keys choice).1 := by
  rcases getAttempt_spec q now keys choice with ⟨h1, h2, _⟩ | ⟨k, x, t, _, _, _, _, _, he⟩
  · simp only [Q.step]
    split
    · exact h1.symm
    · rename_i heq; rw [heq]
  · simp only [Q.step, he]

theorem QInv.step {keys : List Nat} (hk : keys.Nodup) {q : Q} (h : QInv keys q) (op : QOp)
    (hop : OpIn keys op) : QInv keys (Q.step keys q op) := by
  cases op with
  | putNow it key => exact h.putNow hk it hop
  | putDeferred it key wait now => exact h.putDeferred it wait now hop
  | get now choice => rw [step_get]; exact h.getAttempt hk now choice
  | taskDone key => exact h.taskDone hk key
  | joinBegin => exact h.joinBegin
  | joinCheck t => exact h.joinCheck t
  | joinEnd => exact h.joinEnd

theorem QInv.init (keys : List Nat) : QInv keys Q.init := by
  refine ⟨fun _ _ => rfl, fun _ _ => ⟨rfl, rfl, rfl, fun _ => rfl⟩, ?_, ?_, ?_, ?_, ?_, ?_, ?_, ?_, ?_⟩
  · intro k hk'; cases hk'
  · intro k; exact Nat.zero_lt_one
  · show 0 = (keys.map (fun _ => ([] : List QItem).length)).sum
    induction keys with
    | nil => rfl
    | cons a l ih => simpa using ih
  · show 0 = (keys.map (fun _ => 0)).sum
    induction keys with
    | nil => rfl
    | cons a l ih => simpa using ih
  · intro k hk'; cases hk'
  · intro k; rfl
  · show ([] : List (Nat × QItem)).Perm ([] ++ queuedOf keys Q.init ++ [] ++ [])
    have : queuedOf keys Q.init = [] := by
      simp [queuedOf, Q.init]
    rw [this]; exact List.Perm.refl _
  · intro d hd; cases hd
  · intro t ht; cases ht

theorem QInv.run {keys : List Nat} (hk : keys.Nodup) (ops : List QOp) {q : Q} (h : QInv keys q)
    (hin : OpsIn keys ops) : QInv keys (Q.run keys q ops) := by
  induction ops generalizing q with
  | nil => exact h
  | cons op ops ih =>
    simp only [Q.run, List.foldl_cons]
    exact ih (h.step hk op (hin op List.mem_cons_self)) (fun o ho => hin o (List.mem_cons_of_mem _ ho))

theorem QInv.reachable {keys : List Nat} (hk : keys.Nodup) (ops : List QOp) (hin : OpsIn keys ops) :
    QInv keys (Q.run keys Q.init ops) :=
  QInv.run hk ops (QInv.init keys) hin


/-! ### consequences of the invariant -/

theorem QInv.fifoSize_eq {keys : List Nat} {q : Q} (h : QInv keys q) (k : Nat) :
    q.fifoSize k = (q.fifo k).length + q.inprog k := by
  simp only [Q.fifoSize]
  split
  · rfl
  · rename_i hkn
    obtain ⟨h1, h2, _⟩ := h.unknown k (by simpa using hkn)
    simp [h1, h2]

theorem QInv.totals_zero_iff {keys : List Nat} {q : Q} (h : QInv keys q) :
    (q.totalQueued = 0 ∧ q.totalInprog = 0) ↔ ∀ k, q.fifo k = [] ∧ q.inprog k = 0 := by
  rw [h.tq, h.ti, sum_eq_zero_iff, sum_eq_zero_iff]
  constructor
  · rintro ⟨h1, h2⟩ k
    by_cases hk : k ∈ keys
    · exact ⟨List.length_eq_zero_iff.1 (h1 k hk), h2 k hk⟩
    · obtain ⟨a, b, _⟩ := h.unknown k (h.outside k hk)
      exact ⟨a, b⟩
  · intro hall
    exact ⟨fun k _ => by simp [(hall k).1], fun k _ => (hall k).2⟩

theorem joinCheck_snd (q : Q) (t : Nat) :
    (q.joinCheck t).2 = true ↔ (q.totalQueued = 0 ∧ q.totalInprog = 0) := by
  simp only [Q.joinCheck]
  split
  · rename_i hp; simp; omega
  · rename_i hp; simp; omega

theorem QInv.delivered_nodup {keys : List Nat} {q : Q} (h : QInv keys q)
    (hn : (q.accepted.map (fun p => p.2.id)).Nodup) : (q.delivered.map (fun p => p.2.id)).Nodup := by
  have hp := h.once.map (fun p => p.2.id)
  have := hp.nodup_iff.1 hn
  simp only [List.map_append, List.append_assoc] at this
  exact (List.nodup_append.1 this).1


theorem QInv.no_lost_wakeup {keys : List Nat} {q : Q} (h : QInv keys q) (t : Nat) :
    q.jwait t = some false → ∃ k ∈ keys, q.fifo k ≠ [] ∨ q.inprog k > 0 := by
  intro hw
  have hpos := h.joinNlw t hw
  apply Classical.byContradiction
  intro hne
  have hall : ∀ k ∈ keys, q.fifo k = [] ∧ q.inprog k = 0 := by
    intro k hkk
    refine ⟨?_, ?_⟩
    · apply Classical.byContradiction
      intro hf
      exact hne ⟨k, hkk, Or.inl hf⟩
    · apply Classical.byContradiction
      intro hi
      exact hne ⟨k, hkk, Or.inr (Nat.pos_of_ne_zero hi)⟩
  have h1 : q.totalQueued = 0 := by
    rw [h.tq, sum_eq_zero_iff]
    intro k hkk
    simp [(hall k hkk).1]
  have h2 : q.totalInprog = 0 := by
    rw [h.ti, sum_eq_zero_iff]
    intro k hkk
    exact (hall k hkk).2
  omega


/-! ### facts used by C12 -/

theorem eligible_false_of_locked (q : Q) (k : Nat) (h : q.locked k = true) : q.eligible k = false := by
  simp [Q.eligible, h]

theorem pop_locked_of_locked (q : Q) (k' : Nat) (x : QItem) (t : List QItem) (k : Nat)
    (h : q.locked k = true) : (q.pop k' x t).locked k = true := by
  simp only [Q.pop]
  split
  · simp only [upd]; split <;> simp [h]
  · exact h

theorem step_locked_of_locked (keys : List Nat) (q : Q) (op : QOp) (k : Nat)
    (h : q.locked k = true) (hop : ∀ k', op = .taskDone k' → k' ≠ k) :
    (Q.step keys q op).locked k = true := by
  cases op with
  | putNow it key => simp only [Q.step, Q.putNow]; rw [rawPut_locked]; exact h
  | putDeferred it key wait now =>
    simp only [Q.step, Q.putDeferred]; split <;> exact h
  | get now choice =>
    rw [step_get]
    have hp : (q.promote now).locked k = true := by rw [promote_locked]; exact h
    rcases getAttempt_spec q now keys choice with ⟨h1, _⟩ | ⟨k', x, t, _, _, _, _, _, he⟩
    · rw [h1]; exact hp
    · rw [he]; exact pop_locked_of_locked _ _ _ _ _ hp
  | taskDone key =>
    have hne : k ≠ key := fun e => hop key rfl e.symm
    simp only [Q.step, Q.taskDone]
    split
    · exact h
    · split <;> simp [upd, hne, h]
  | joinBegin => exact h
  | joinCheck t => simp only [Q.step, Q.joinCheck]; split <;> exact h
  | joinEnd => exact h

theorem getAttempt_item (q : Q) (now : Nat) (keys : List Nat) (choice : Option Nat) (k : Nat) (it : QItem)
    (h : (q.getAttempt now keys choice).2 = .item k it) :
    ∃ t, (q.promote now).eligible k = true ∧
      keys.all (fun k' => !(q.promote now).eligible k' ||
        decide ((q.promote now).inprog k ≤ (q.promote now).inprog k')) = true ∧
      (q.promote now).fifo k = it :: t ∧
      q.getAttempt now keys choice = ((q.promote now).pop k it t, .item k it) := by
  rcases getAttempt_spec q now keys choice with ⟨_, h2, _⟩ | ⟨k', x, t, _, _, hel, hall, hf, he⟩
  · exact absurd h (h2 k it)
  · rw [he] at h
    simp only [GetRes.item.injEq] at h
    obtain ⟨rfl, rfl⟩ := h
    exact ⟨t, hel, hall, hf, he⟩

theorem getAttempt_deferrals (q : Q) (now : Nat) (keys : List Nat) (choice : Option Nat) :
    (q.getAttempt now keys choice).1.deferrals = q.deferrals.filter (fun d => !(d.expiry ≤ now)) := by
  rw [← promote_deferrals]
  rcases getAttempt_spec q now keys choice with ⟨h1, _⟩ | ⟨k', x, t, _, _, _, _, _, he⟩
  · rw [h1]
  · rw [he]; rfl

theorem promote_enq_mem (q : Q) (now : Nat) (d : Deferred) (hd : d ∈ q.deferrals) (hdue : d.expiry ≤ now) :
    d.item ∈ (q.promote now).enq d.key := by
  rw [promote_eq]
  exact rawPuts_enq_mem _ _ d (List.mem_filter.2 ⟨hd, by simpa using hdue⟩)

end Alpen
