import Alpen.Model.Basic
/-
  Model of `alpenhorn.io.ioutil.post_add` (autosync / autoclean rules) and of
  `StorageGroup.state_on_node`.  Core Lean only.
-/
namespace Alpen

structure PNode where
  id : Nat
  group : Nat
  deriving DecidableEq, Repr

structure PEdge where
  id : Nat
  nodeFrom : Nat
  groupTo : Nat
  autosync : Bool
  autoclean : Bool
  deriving DecidableEq, Repr

structure PCopy where
  id : Nat
  file : Nat
  node : Nat
  has : Has
  wants : Wants
  deriving DecidableEq, Repr

/-- a newly created `ArchiveFileCopyRequest` -/
structure PReq where
  file : Nat
  nodeFrom : Nat
  groupTo : Nat
  deriving DecidableEq, Repr

def groupOf (nodes : List PNode) (n : Nat) : Option Nat :=
  (nodes.find? (fun x => x.id == n)).map (·.group)

/-- copies of `file` on nodes of `group` -/
def copiesInGroup (nodes : List PNode) (copies : List PCopy) (group file : Nat) : List PCopy :=
  copies.filter (fun c => c.file == file && groupOf nodes c.node == some group)

/-- `StorageGroup.state_on_node(file)[0]`: 'Y' if any copy is 'Y', else 'M' if any is 'M',
    else 'X' if any is 'X', else 'N'. -/
def stateOnNode (nodes : List PNode) (copies : List PCopy) (group file : Nat) : Has :=
  let cs := copiesInGroup nodes copies group file
  if cs.any (·.has == .Y) then .Y
  else if cs.any (·.has == .M) then .M
  else if cs.any (·.has == .X) then .X
  else .N

/-- `StorageTransferAction.self_loop` -/
def selfLoop (nodes : List PNode) (e : PEdge) : Bool :=
  groupOf nodes e.nodeFrom == some e.groupTo

/-- autosync rules that fire when `file` newly becomes present on `node` -/
def syncEdges (nodes : List PNode) (edges : List PEdge) (copies : List PCopy) (node file : Nat) : List PEdge :=
  edges.filter (fun e => e.nodeFrom == node && some e.groupTo != groupOf nodes node && e.autosync
                         && stateOnNode nodes copies e.groupTo file != .Y)

/-- autoclean rules into the group of `node`, **ignoring self-loops** (repaired behaviour) -/
def cleanEdges (nodes : List PNode) (edges : List PEdge) (node : Nat) : List PEdge :=
  edges.filter (fun e => some e.groupTo == groupOf nodes node && e.nodeFrom != node && e.autoclean
                         && !selfLoop nodes e)

/-- pinned (pre-repair) behaviour: only `node_from != node` is excluded -/
def cleanEdgesLegacy (nodes : List PNode) (edges : List PEdge) (node : Nat) : List PEdge :=
  edges.filter (fun e => some e.groupTo == groupOf nodes node && e.nodeFrom != node && e.autoclean)

def releaseIf (srcs : List Nat) (file : Nat) (c : PCopy) : PCopy :=
  if c.file == file && srcs.contains c.node && c.has == .Y && c.wants == .Y then { c with wants := .N } else c

/-- `post_add(node, file)`: new requests (in rule order) and the updated copy table -/
def postAdd (nodes : List PNode) (edges : List PEdge) (copies : List PCopy) (node file : Nat) :
    List PReq × List PCopy :=
  let reqs := (syncEdges nodes edges copies node file).map (fun e => ⟨file, node, e.groupTo⟩)
  let srcs := (cleanEdges nodes edges node).map (·.nodeFrom)
  (reqs, copies.map (releaseIf srcs file))

def postAddLegacy (nodes : List PNode) (edges : List PEdge) (copies : List PCopy) (node file : Nat) :
    List PReq × List PCopy :=
  let reqs := (syncEdges nodes edges copies node file).map (fun e => ⟨file, node, e.groupTo⟩)
  let srcs := (cleanEdgesLegacy nodes edges node).map (·.nodeFrom)
  (reqs, copies.map (releaseIf srcs file))

end Alpen
