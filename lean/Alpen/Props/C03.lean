import Alpen.Model.Check
import Alpen.Lemmas.Check
/-!
# C03 — verification verdicts are exact

"When the daemon verifies a suspect copy, the recorded outcome is healthy exactly when the
on-disk file exists, its MD5 equals the registered digest and, where a size is registered,
its length equals it; corrupt when it exists but differs; and missing when it is absent.
Verification never modifies the file, and the rule holds for every size and digest that the
CLI or an import accepted and stored for the file."
-/
namespace Alpen

/-- **C03.1** the verdict, for every observation and every registered size (`none`, `some 0`,
    `some n`) and digest. `none` (= no verdict, copy unchanged) only when `stat` failed. -/
theorem C03_verdict_exact (o : Observed) (regSize : Option Nat) (regDigest : Option Str) :
    (checkVerdict o regSize regDigest = some .Y ↔
        o.exists_ = true ∧ o.statOk = true ∧ o.digest = regDigest ∧ (regSize = none ∨ regSize = some o.len)) ∧
    (checkVerdict o regSize regDigest = some .X ↔
        o.exists_ = true ∧ o.statOk = true ∧ ¬ (o.digest = regDigest ∧ (regSize = none ∨ regSize = some o.len))) ∧
    (checkVerdict o regSize regDigest = some .N ↔ o.exists_ = false) ∧
    (checkVerdict o regSize regDigest = none ↔ o.exists_ = true ∧ o.statOk = false) ∧
    checkVerdict o regSize regDigest ≠ some .M := by
  unfold checkVerdict
  cases he : o.exists_ <;> cases hs : o.statOk <;> simp
  cases regSize with
  | none => by_cases hd : o.digest = regDigest <;> simp [hd]
  | some s =>
    by_cases hl : o.len = s <;> by_cases hd : o.digest = regDigest <;> simp [hl, hd] <;> omega

/-- the pinned code does not enforce a registered size of 0 (finding F5b): a non-empty file
    whose digest matches is judged healthy although its length differs from the registered 0 -/
theorem C03_legacy_zero_size_not_enforced :
    ∃ o d, o.exists_ = true ∧ o.statOk = true ∧ o.len ≠ 0 ∧
      checkVerdictLegacy o (some 0) d = some .Y ∧ checkVerdict o (some 0) d = some .X := by
  exact ⟨⟨true, true, 1, none⟩, none, by decide⟩

/-- away from registered size 0 the pinned and the repaired verdict coincide -/
theorem C03_legacy_agrees (o : Observed) (regSize : Option Nat) (d : Option Str) (h : regSize ≠ some 0) :
    checkVerdictLegacy o regSize d = checkVerdict o regSize d := by
  unfold checkVerdictLegacy checkVerdict
  cases he : o.exists_ <;> cases hs : o.statOk <;> simp
  cases regSize with
  | none => simp [truthy]
  | some s =>
    have : s ≠ 0 := fun e => h (by rw [e])
    simp [truthy, this]

/-- one chunk call feeds, in order, exactly the bytes it consumes -/
theorem C03_md5Chunk_feeds (bs bpc : Nat) (hbs : 0 < bs) (fuel count : Nat) (rest : Bytes) :
    let r := md5Chunk bs bpc fuel count rest
    r.1.flatten ++ r.2.1 = rest := by
  have _ := hbs   -- not needed: with `bs = 0` every block is empty and eof is reported at once
  exact md5Chunk_feeds bs bpc fuel count rest

/-- **C03.2** for every content and every positive block size and blocks-per-chunk, the
    block/chunk loop of `_md5sum_file` feeds the hash exactly the content, once, in order
    (`fuel` = number of chunk rounds allowed; `content.length + 1` always suffices) -/
theorem C03_md5_blocks (bs bpc : Nat) (hbs : 0 < bs) (hbpc : 0 < bpc) (content : Bytes) :
    (md5Blocks bs bpc (content.length + 1) content).flatten = content := by
  exact md5Blocks_flatten bs bpc hbs hbpc (content.length + 1) content (by omega)

/- Note: for the empty file the loop feeds no block at all, so the state stays `H.init`; the
   abstract `HashAlg` (law `update (update s a) b = update s (a ++ b)` only) does not make
   `update · []` the identity, hence the case split below.  hashlib satisfies
   `update(b"") = identity`; `C03_md5_chunked_unit` gives the uniform statement for such hashes. -/

/-- hence the digest computed block by block is the digest of the content
    (corrected: for the empty file no block is fed, the state stays `H.init`) -/
theorem C03_md5_chunked {σ} (H : HashAlg σ) (bs bpc : Nat) (hbs : 0 < bs) (hbpc : 0 < bpc) (content : Bytes) :
    H.feed (md5Blocks bs bpc (content.length + 1) content) =
      if content = [] then H.init else H.update H.init content := by
  by_cases hc : content = []
  · subst hc
    rw [if_pos rfl, md5Blocks_nil bs bpc hbpc]
    rfl
  · have hf := md5Blocks_flatten bs bpc hbs hbpc (content.length + 1) content (by omega)
    rw [if_neg hc, feed_of_ne_nil H _ (by rw [hf]; exact hc), hf]

/-- the original conclusion, for hashes whose `update` by the empty string is the identity -/
theorem C03_md5_chunked_unit {σ} (H : HashAlg σ) (hunit : ∀ s, H.update s [] = s)
    (bs bpc : Nat) (hbs : 0 < bs) (hbpc : 0 < bpc) (content : Bytes) :
    H.feed (md5Blocks bs bpc (content.length + 1) content) = H.update H.init content := by
  rw [C03_md5_chunked H bs bpc hbs hbpc content]
  split
  · rename_i hc; rw [hc, hunit]
  · rfl

/-- **C03.3** every digest the (repaired) validator accepts is stored as 32 lower-case hex
    digits denoting the same 128-bit value as the string the operator typed -/
theorem C03_validator_normal (s d : Str) (h : validateMd5 s = some d) :
    d.length = 32 ∧ d.all isLowerHexDigit = true ∧ hexValue d = hexValue s ∧ validateMd5 d = some d := by
  obtain ⟨hl, hall, rfl⟩ := validateMd5_some s d h
  have hlow := all_lower_map s hall
  refine ⟨by rw [List.length_map, hl], hlow, ?_, ?_⟩
  · rw [hexValue_eq, hexValue_eq, hexFold_map_lower s 0 hall]
  · unfold validateMd5
    rw [if_pos ⟨by rw [List.length_map, hl], all_hex_of_lower _ hlow⟩, map_lower_id _ hlow]

/-- two accepted spellings are stored identically iff they denote the same value -/
theorem C03_validator_injective (s₁ s₂ d₁ d₂ : Str) (h₁ : validateMd5 s₁ = some d₁) (h₂ : validateMd5 s₂ = some d₂) :
    d₁ = d₂ ↔ hexValue s₁ = hexValue s₂ := by
  obtain ⟨hl₁, hall₁, rfl⟩ := validateMd5_some s₁ d₁ h₁
  obtain ⟨hl₂, hall₂, rfl⟩ := validateMd5_some s₂ d₂ h₂
  have e₁ : hexValue (s₁.map lowerHex) = hexValue s₁ := by
    rw [hexValue_eq, hexValue_eq, hexFold_map_lower s₁ 0 hall₁]
  have e₂ : hexValue (s₂.map lowerHex) = hexValue s₂ := by
    rw [hexValue_eq, hexValue_eq, hexFold_map_lower s₂ 0 hall₂]
  constructor
  · intro h
    rw [← e₁, ← e₂, h]
  · intro h
    apply hexValue_inj _ _ (by rw [List.length_map, List.length_map, hl₁, hl₂])
      (all_lower_map s₁ hall₁) (all_lower_map s₂ hall₂)
    rw [e₁, e₂, h]

-- non-vacuity
example : validateMd5 "D41D8CD98F00B204E9800998ECF8427E".toList = some "d41d8cd98f00b204e9800998ecf8427e".toList := by decide
example : validateMd5 "+41d8cd98f00b204e9800998ecf8427e".toList = none := by decide
example : md5Blocks 2 2 8 [1, 2, 3, 4, 5, 6, 7, 8] = [[1, 2], [3, 4], [5, 6], [7, 8]] := by decide
example : checkVerdict ⟨true, true, 0, some ['a']⟩ (some 0) (some ['a']) = some .Y := by decide

end Alpen
