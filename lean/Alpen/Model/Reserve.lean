import Alpen.Model.Basic
/-
  Model of the space reservation bookkeeping of DefaultNodeIO (`reserve_bytes`,
  `release_bytes`, `fits`, `pull` admission) and of the pull task's life-cycle as far as
  reservations are concerned.  One node; sizes in bytes.  Core Lean only.
-/
namespace Alpen

/-- `reserve_bytes(size, check_only)`: (success, new reserved) -/
def reserveBytes (factor : Nat) (bavail : Option Int) (reserved : Int) (size : Nat) (checkOnly : Bool) :
    Bool × Int :=
  let sz : Int := size * factor
  match bavail with
  | some b => if b - reserved < sz then (false, reserved)
              else (true, if checkOnly then reserved else reserved + sz)
  | none => (true, if checkOnly then reserved else reserved + sz)

/-- `release_bytes(size)`: `none` = ValueError (too many bytes released) -/
def releaseBytes (factor : Nat) (reserved : Int) (size : Nat) : Option Int :=
  let sz : Int := size * factor
  if reserved < sz then none else some (reserved - sz)

/-- admission test of `DefaultNodeIO.pull` -/
def pullAdmit (factor : Nat) (underMin overMax : Bool) (bavail : Option Int) (reserved : Int) (size : Nat) :
    Bool × Int :=
  if underMin then (false, reserved)
  else if overMax then (false, reserved)
  else reserveBytes factor bavail reserved size false

/-- how a pull task ends, as far as the reservation is concerned -/
inductive PullEnd where
  | alreadyPresent | noRoute | transportFailed | digestMismatch | success
  | dbErrorEarly            -- OperationalError before/at the first statement of the task
  | dbErrorLate             -- OperationalError after the clean-up was registered
  deriving DecidableEq, Repr

/-- events of a history on one node -/
inductive REvent where
  | dispatch (task : Nat) (size : Nat) (underMin overMax : Bool) (bavail : Option Int)
  | finish (task : Nat) (how : PullEnd)
  deriving Repr

structure RState where
  reserved : Int
  live : List (Nat × Nat)       -- (task id, size) of pull tasks queued or running
  error : Bool                  -- a release raised ValueError
  deriving Repr

def RState.init : RState := ⟨0, [], false⟩

/-- repaired behaviour: the release is registered as the first action of the task, so every
    way of ending the task releases exactly once -/
def rstep (factor : Nat) (s : RState) : REvent → RState
  | .dispatch t size um om bavail =>
    let (ok, r) := pullAdmit factor um om bavail s.reserved size
    if ok then { s with reserved := r, live := (t, size) :: s.live } else s
  | .finish t _ =>
    match s.live.find? (fun p => p.1 == t) with
    | none => s
    | some (_, size) =>
      match releaseBytes factor s.reserved size with
      | none => { s with error := true, live := s.live.filter (fun p => p.1 != t) }
      | some r => { s with reserved := r, live := s.live.filter (fun p => p.1 != t) }

/-- pinned behaviour: "already present" and an early DB error leave the reservation behind -/
def rstepLegacy (factor : Nat) (s : RState) : REvent → RState
  | .dispatch t size um om bavail => rstep factor s (.dispatch t size um om bavail)
  | .finish t how =>
    match how with
    | .alreadyPresent | .dbErrorEarly => { s with live := s.live.filter (fun p => p.1 != t) }
    | _ => rstep factor s (.finish t how)

def liveTotal (factor : Nat) (live : List (Nat × Nat)) : Int :=
  (live.map (fun p => ((p.2 * factor : Nat) : Int))).sum

end Alpen
