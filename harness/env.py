"""Running real alpenhorn inside the harness: config, DB (through the database extension),
scratch node roots, canonical dumps."""
from __future__ import annotations

import datetime
import os
import shutil
import sys
import tempfile

import common

common.ensure_repo_on_path()

import peewee as pw  # noqa: E402
import verif_dbext  # noqa: E402
import verif_idext  # noqa: E402

import logging  # noqa: E402


def quiet_logging():
    logging.disable(logging.CRITICAL)


class Env:
    """One scratch world: a database and a directory for node roots (outside /repo and /verif)."""

    def __init__(self, hostname="h1", dbfile=False, extra=None, idext=True):
        from alpenhorn.common import config, extensions
        from alpenhorn import db
        self.config = config
        self.extensions = extensions
        self.db = db
        self.tmp = tempfile.mkdtemp(prefix="alpen-verif-")
        self.hostname = hostname
        verif_dbext.CTL.update(path=os.path.join(self.tmp, "index.db") if dbfile else ":memory:",
                               fault_at=set(), fault_hook=None, stmt_hook=None, log=None, count=0)
        self.reset_globals()
        cfg = config._default_config.copy()
        cfg = config.merge_dict_tree(cfg, {"base": {"hostname": hostname},
                                           "extensions": ["verif_dbext"] + (["verif_idext"] if idext else []),
                                           "daemon": {"update_interval": 10 ** 9}})
        if extra:
            cfg = config.merge_dict_tree(cfg, extra)
        config.config = cfg
        extensions.load_extensions()
        db.connect()
        db.database_proxy.create_tables(db.gamut)
        db.DataIndexVersion.create(component="alpenhorn", version=db.current_version)
        quiet_logging()

    def reset_globals(self):
        try:
            self.db.close()
        except Exception:
            pass
        # a run that died inside nested transactions (an injected fault at a SAVEPOINT statement) can leave peewee believing a
        # transaction is open, in which case close() refuses and the connection would keep its lock on the database file
        try:
            obj = self.db.database_proxy.obj
            st = getattr(obj, "_state", None)
            conn = getattr(st, "conn", None)
            if conn is not None:
                try:
                    conn.rollback()
                except Exception:
                    pass
                try:
                    conn.close()
                except Exception:
                    pass
                st.reset()
        except Exception:
            pass
        self.extensions._db_ext = None
        self.extensions._id_ext = None
        self.extensions._io_ext = {}
        self.config.config = None

    def set_host(self, h):
        self.config.config["base"]["hostname"] = h
        self.hostname = h

    def root(self, name):
        p = os.path.join(self.tmp, "roots", name)
        os.makedirs(p, exist_ok=True)
        return p

    def close(self):
        self.reset_globals()
        verif_dbext.CTL.update(fault_at=set(), fault_hook=None, stmt_hook=None, log=None)
        shutil.rmtree(self.tmp, ignore_errors=True)

    def __enter__(self):
        return self

    def __exit__(self, *a):
        self.close()


def dump_index(db=None, with_time=False):
    """Canonical dump of the whole index: dict table -> sorted list of tuples."""
    from alpenhorn.db import (ArchiveAcq, ArchiveFile, ArchiveFileCopy, ArchiveFileCopyRequest,
                              ArchiveFileImportRequest, StorageGroup, StorageNode, StorageTransferAction)
    out = {}
    out["group"] = sorted((g.id, g.name, g.io_class) for g in StorageGroup.select())
    out["node"] = sorted((n.id, n.name, n.group_id, n.host, bool(n.active), n.storage_type, n.root, n.io_class)
                         for n in StorageNode.select())
    out["acq"] = sorted((a.id, a.name) for a in ArchiveAcq.select())
    out["file"] = sorted((f.id, f.acq_id, f.name, f.size_b, f.md5sum) for f in ArchiveFile.select())
    out["copy"] = sorted((c.id, c.file_id, c.node_id, c.has_file, c.wants_file, bool(c.ready), c.size_b)
                         for c in ArchiveFileCopy.select())
    out["req"] = sorted((r.id, r.file_id, r.node_from_id, r.group_to_id, bool(r.completed), bool(r.cancelled))
                        for r in ArchiveFileCopyRequest.select())
    out["ireq"] = sorted((r.id, r.node_id, r.path, bool(r.recurse), bool(r.register), bool(r.completed))
                         for r in ArchiveFileImportRequest.select())
    out["edge"] = sorted((e.id, e.node_from_id, e.group_to_id, bool(e.autosync), bool(e.autoclean))
                         for e in StorageTransferAction.select())
    return out


class CliEnv(Env):
    """Env whose index lives in a file so that the real click CLI (alpenhorn.cli.entry) can be run on it
    in-process via CliRunner, exactly as a user would (config file + database extension)."""

    def __init__(self, hostname="h1", extra=None):
        super().__init__(hostname=hostname, dbfile=True, extra=extra)
        import yaml
        self.conf = os.path.join(self.tmp, "alpenhorn.conf")
        cfg = {"base": {"hostname": hostname}, "extensions": ["verif_dbext", "verif_idext"]}
        if extra:
            cfg = self.config.merge_dict_tree(cfg, extra)
        with open(self.conf, "w") as f:
            yaml.safe_dump(cfg, f)
        self._saved_cfg = self.config.config

    def reconnect(self):
        """(re)establish the harness's own connection/config after a CLI run"""
        self.reset_globals()
        self.config.config = self._saved_cfg
        self.extensions.load_extensions()
        self.db.connect()

    def cli(self, args, input=None, faults=None):
        """Run `alpenhorn <args>`; returns (exit_code, output, exception)."""
        from click.testing import CliRunner
        from alpenhorn.cli import entry
        import fileinput
        fileinput.close()          # module-global state of the previous in-process invocation
        self.reset_globals()
        verif_dbext.reset_counters()
        verif_dbext.CTL["fault_at"] = set(faults or ())
        try:
            res = CliRunner().invoke(entry, ["--test-isolation", "-c", self.conf] + list(args), input=input,
                                     catch_exceptions=True)
        finally:
            verif_dbext.CTL["fault_at"] = set()
            nstmt = verif_dbext.CTL["count"]
            if faults:
                # a command killed by an injected error leaves its frames alive in the traceback the runner keeps (a SELECT half
                # iterated there holds a read lock on the database file): drop the traceback and collect
                import gc
                try:
                    if res.exception is not None:
                        res.exception.__traceback__ = None
                    res.exc_info = None
                except Exception:
                    pass
                gc.collect()
            self.reconnect()
        self.last_stmt_count = nstmt
        exc = res.exception if res.exception is not None and not isinstance(res.exception, SystemExit) else None
        return res.exit_code, res.output, exc
