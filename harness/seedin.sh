#!/bin/bash
# usage: seedin.sh <prop> <round> [props to run...]  -- confirm a sub-agent's seeded change in its worktree, store it, drop the worktree, test it
p=$1; r=$2; shift 2
wt=/tmp/mut${r}_$p; out=/tmp/mutout${r}_$p
[ "$r" = 1 ] && { wt=/tmp/mut_$p; out=/tmp/mutout_$p; }
cd $wt || exit 2
git diff > /tmp/seedin_$p.diff
cmp -s /tmp/seedin_$p.diff $out/patch.diff || echo "NOTE: worktree diff differs from patch.diff (using worktree diff)"
[ -s /tmp/seedin_$p.diff ] || { echo "empty diff; applying patch.diff"; git apply $out/patch.diff; git diff > /tmp/seedin_$p.diff; }
timeout 900 /venv/bin/python $out/demo.py > /tmp/seedin_$p.with 2>&1; a=$?
git checkout -q -- .
timeout 900 /venv/bin/python $out/demo.py > /tmp/seedin_$p.without 2>&1; b=$?
echo "demo with change: rc=$a ($(tail -1 /tmp/seedin_$p.with | cut -c1-150)); without: rc=$b ($(tail -1 /tmp/seedin_$p.without | cut -c1-100))"
d=/verif/seeded/$p-$r; mkdir -p $d
cp /tmp/seedin_$p.diff $d/patch.diff; cp $out/demo.py $out/meta.json $d/
cd /verif; git -C /repo worktree remove --force $wt; rm -rf $out /tmp/seedin_$p.*
[ $a != 0 ] && [ $b = 0 ] || { echo "DEMO NOT CONFIRMED"; }
[ -n "$NOTEST" ] || /verif/harness/seedtest.sh $d ${@:-$p}
