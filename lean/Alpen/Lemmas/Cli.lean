import Alpen.Model.Cli
/-! Helper lemmas for the CLI selection models (C18). Core Lean only. -/
namespace Alpen

/-- without a budget the loop updates every candidate -/
theorem cleanLoop_none (goal : CleanGoal) (t : Nat) (l : List KCopy) :
    cleanLoop goal none t l = l.map (·.id) := by
  induction l generalizing t with
  | nil => simp [cleanLoop]
  | cons c cs ih => simp [cleanLoop, ih]

/-- with a budget the loop updates the not-yet-at-goal rows of the budget prefix -/
theorem cleanLoop_some (goal : CleanGoal) (s t : Nat) (l : List KCopy) :
    cleanLoop goal (some s) t l =
      ((budgetPrefix s t l).filter (fun c => !alreadyAtGoal goal c)).map (·.id) := by
  induction l generalizing t with
  | nil => simp [cleanLoop, budgetPrefix]
  | cons c cs ih =>
    simp only [cleanLoop, budgetPrefix]
    by_cases hg : alreadyAtGoal goal c = true <;> by_cases hs : t + c.fsize.getD 0 ≥ s <;>
      simp [hg, hs, ih]

/-- the budget prefix commutes with a size-preserving row update -/
theorem budgetPrefix_map (s t : Nat) (upd : KCopy → KCopy) (hf : ∀ c, (upd c).fsize = c.fsize)
    (l : List KCopy) : budgetPrefix s t (l.map upd) = (budgetPrefix s t l).map upd := by
  induction l generalizing t with
  | nil => simp [budgetPrefix]
  | cons c cs ih =>
    simp only [List.map_cons, budgetPrefix, hf]
    by_cases hs : t + c.fsize.getD 0 ≥ s <;> simp [hs, ih]

/-- select rows by `P`, update the rows whose key was selected with an update that falsifies `P`:
    nothing is selected afterwards -/
theorem filter_update_selected_nil {α} (P : α → Bool) (key : α → Nat) (upd : α → α) (l : List α)
    (h : ∀ c, P (upd c) = false) :
    (l.map (fun c => if ((l.filter P).map key).contains (key c) then upd c else c)).filter P = [] := by
  rw [List.filter_eq_nil_iff]
  intro c' hc'
  rcases List.mem_map.1 hc' with ⟨c, hc, rfl⟩
  by_cases hin : ((l.filter P).map key).contains (key c) = true
  · rw [if_pos hin]; simp [h]
  · rw [if_neg hin]
    intro hP
    apply hin
    rw [List.contains_iff_mem]
    exact List.mem_map.2 ⟨c, List.mem_filter.2 ⟨hc, hP⟩, rfl⟩

end Alpen
