import Alpen.Model.Busy
import Alpen.Generated
import Alpen.Model.WorldOps
import Alpen.Lemmas.World
import Alpen.Lemmas.Seen
/-!
# C01 — deletion safety

"The daemon removes a managed file from a node only if that copy is marked unwanted (released,
or marked removable on a non-archive node that is below its minimum free space), is not the
source of a pending transfer request, and at that moment the index records at least two healthy
copies of the file on archive nodes other than the node being cleaned. No other daemon action
deletes or overwrites a copy that the index records as healthy."

Granularity: task steps (one delete-task step per copy); histories are arbitrary
interleavings of operator commands, external faults and task steps of any daemon.
`C01_split_race` keeps the finer-grained statement visible: with the count-read and the
unlink as separate steps the property is false (F-TOCTOU), so the theorems are `partial`
with respect to statement-granular interleavings across daemons.
-/
namespace Alpen
open World

/-- the model's constants are the ones in the source (re-read on every run) -/
theorem C01_constants :
    (∀ a, World.copiesRequired a = Gen.copiesRequired a) ∧ Gen.deleteGuardIsLt = true ∧
    Gen.archiveCountFiltersType = true ∧ Gen.archiveCountFiltersHealthy = true := by
  exact ⟨fun _ => rfl, rfl, rfl, rfl⟩

/-- **C01.1** whenever a delete step unlinks, the index *of that step* records at least two
    healthy copies on archive nodes other than the node being cleaned. -/
theorem C01_deleteOne_safe (w : World) (c : WCopy) (uf : Bool) (hu : w.UniqueCopies)
    (h : Eff.unlink c.node c.file ∈ (w.deleteOne c uf).2) :
    2 ≤ w.archiveCountElsewhere c.file c.node := by
  have hle := archiveCount_le w hu c.file c.node
  unfold deleteOne at h
  split at h
  · simp at h
  · split at h
    · simp at h
    · rename_i hg _
      unfold copiesRequired at hg
      cases ha : w.isArchive c.node <;> simp [ha] at hg hle <;> omega

/-- a delete step touches nothing but the copy being deleted: its bytes and its own row -/
theorem C01_deleteOne_frame (w : World) (c : WCopy) (uf : Bool) :
    let w' := (w.deleteOne c uf).1
    (∀ n f, (n, f) ≠ (c.node, c.file) → w'.diskAt n f = w.diskAt n f) ∧
    (∀ x ∈ w'.copies, x.id ≠ c.id → x ∈ w.copies) ∧ w'.reqs = w.reqs := by
  intro w'
  show (∀ n f, (n, f) ≠ (c.node, c.file) → (w.deleteOne c uf).1.diskAt n f = w.diskAt n f) ∧
    (∀ x ∈ (w.deleteOne c uf).1.copies, x.id ≠ c.id → x ∈ w.copies) ∧ (w.deleteOne c uf).1.reqs = w.reqs
  unfold deleteOne
  split
  · exact ⟨fun _ _ _ => rfl, fun _ hx _ => hx, rfl⟩
  · split
    · exact ⟨fun _ _ _ => rfl, fun _ hx _ => hx, rfl⟩
    · refine ⟨?_, ?_, rfl⟩
      · intro n f hne
        rw [diskAt_congr (mapCopy_disk ..), diskAt_setDisk, if_neg hne]
      · intro x hx hne
        obtain ⟨y, hy, rfl⟩ := mem_mapCopy.mp hx
        by_cases hyc : y.id = c.id
        · simp [hyc] at hne
        · simp only [beq_iff_eq, hyc, if_false]
          exact hy

/-- **C01.2** every copy that `update_delete` hands to the delete task is present in some form,
    marked unwanted — released, or merely removable on a non-archive node under its minimum —
    and is not the source of a pending request. -/
theorem C01_selectDelete_sound (w : World) (n : Nat) (nd : WNode) (hn : w.node? n = some nd) :
    ∀ id ∈ w.updateDelete n, ∃ c ∈ w.copies, c.id = id ∧ c.node = n ∧ c.has ≠ .N ∧
      (c.wants = .N ∨ (c.wants = .M ∧ nd.stype ≠ .A ∧ underMin nd.availKiB nd.minKiB = true)) ∧
      w.pendingSource c.file n = false := by
  intro id hid
  unfold updateDelete at hid
  rw [hn] at hid
  obtain ⟨d, hd, rfl⟩ := List.mem_map.mp hid
  unfold selectDelete at hd
  have hpend := selectLoop_pending _ _ _ d hd
  have hsub := (selectLoop_sublist _ _ _).subset hd
  obtain ⟨hdm, hcand⟩ := List.mem_filter.mp hsub
  unfold dcopiesOf at hdm
  obtain ⟨c, hc, rfl⟩ := List.mem_map.mp hdm
  obtain ⟨hcm, hcn⟩ := List.mem_filter.mp hc
  have hspec := candidate_spec _ _ hcand
  refine ⟨c, hcm, rfl, by simpa using hcn, hspec.1, ?_, hpend⟩
  cases hp : pressure nd.availKiB nd.minKiB (nd.stype == .A)
  · exact Or.inl (hspec.2.2 hp)
  · have h1 := hspec.2.1
    simp only [pressure, Bool.and_eq_true, Bool.not_eq_true', beq_eq_false_iff_ne] at hp
    cases hw : c.wants
    · exact absurd hw h1
    · exact Or.inr ⟨rfl, hp.2, hp.1⟩
    · exact Or.inl rfl

/-- an effect of a step is acceptable when … -/
def EffOk (w : World) (op : WOp) : Eff → Prop
  | .unlink n f =>
      (∃ c uf, op = .deleteOne c uf ∧ c.node = n ∧ c.file = f ∧ 2 ≤ w.archiveCountElsewhere f n) ∨
      w.filecopyState f n ≠ .Y
  | .write n f _ => w.filecopyState f n ≠ .Y
  | _ => True

/-- **C01.3** no daemon step other than a justified delete changes the bytes of a copy that the
    index records as healthy (operator commands change no bytes at all; `fault` is the
    environment) -/
theorem C01_healthy_bytes_untouched (w : World) (op : WOp) (hu : w.UniqueCopies)
    (hnf : ∀ n f c, op ≠ .fault n f c) (hnd : ∀ c uf, op ≠ .deleteOne c uf)
    (x : WCopy) (hx : x ∈ w.copies) (hY : x.has = .Y) :
    (w.wstep op).1.diskAt x.node x.file = w.diskAt x.node x.file := by
  rcases wstep_diskAt w op hnf hnd x.node x.file with h | ⟨r, d, t, _, hne, hk⟩
  · exact h
  · exfalso
    have hst := filecopyState_of_mem w hu x hx
    have h1 : x.node = d := congrArg Prod.fst hk
    have h2 : x.file = r.file := congrArg Prod.snd hk
    rw [h1, h2] at hst
    exact hne (hst.trans hY)

/-- COUNTEREXAMPLE to the statement of `C01_unique_preserved` as originally given (without the
    `OpWF` side condition): a check task whose captured row carries a (file, node) different
    from the stored row with the same id is saved back whole (`{snap with has := h}`) and
    duplicates the (file, node) key of another row. -/
theorem C01_unique_preserved_original_false :
    ∃ (w : World) (op : WOp), w.UniqueCopies ∧ (∀ c ∈ w.copies, c.id < w.nextId) ∧
      ¬ (w.wstep op).1.UniqueCopies := by
  refine ⟨⟨[], [], [⟨1, 1, 1, .Y, .Y, true⟩, ⟨2, 1, 2, .Y, .Y, true⟩], [], [], [], [], 3⟩,
    .check ⟨2, 1, 1, .Y, .Y, true⟩ true, ?_, ?_, ?_⟩
  · unfold UniqueCopies; decide
  · decide
  · unfold UniqueCopies; decide

/-- the unique (file, node) index is preserved by every step.
    CHANGED w.r.t. the original statement: hypothesis `hop : OpWF w op` added (see
    `Alpen/Lemmas/World.lean`): for a check step, the captured row agrees on file and node with
    every stored row of the same id — true of real index states, where a copy row never changes
    its file or node.  Without it the statement is false: `C01_unique_preserved_original_false`. -/
theorem C01_unique_preserved (w : World) (op : WOp) (hu : w.UniqueCopies)
    (hid : ∀ c ∈ w.copies, c.id < w.nextId) (hop : OpWF w op) :
    (w.wstep op).1.UniqueCopies ∧ (∀ c ∈ (w.wstep op).1.copies, c.id < (w.wstep op).1.nextId) :=
  WF_wstep op hop ⟨hu, hid⟩

/-- one step: every effect of a step from a state with the unique index is acceptable -/
theorem C01_step_safe (w : World) (op : WOp) (hu : w.UniqueCopies) :
    ∀ e ∈ (w.wstep op).2, EffOk w op e := by
  intro e he
  cases hs : e.storage
  · cases e <;> first | exact trivial | (simp [Eff.storage] at hs)
  · rcases wstep_storage w op e he hs with ⟨c, uf, rfl, rfl⟩ | ⟨r, d, t, rfl, hne, rfl | ⟨b, rfl⟩⟩
    · exact Or.inl ⟨c, uf, rfl, rfl, rfl, C01_deleteOne_safe w c uf hu he⟩
    · exact Or.inr hne
    · exact hne

/-- COUNTEREXAMPLE to the statement of `C01_history_safe` as originally given (without the
    side condition on check steps): a check task with a stale/foreign snapshot turns the row of
    (file 2, node 1) into a second healthy row for (file 1, node 1); the delete step that follows
    counts three healthy archive copies although only one lives on another node, and unlinks. -/
theorem C01_history_safe_original_false :
    ∃ (w0 : World) (ops : List WOp), w0.UniqueCopies ∧ (∀ c ∈ w0.copies, c.id < w0.nextId) ∧
      ¬ (∀ t ∈ World.trace w0 ops, ∀ e ∈ t.2.2, EffOk t.1 t.2.1 e) := by
  refine ⟨⟨[⟨1, 1, 0, true, .A, none, 0, none, false⟩, ⟨2, 2, 0, true, .A, none, 0, none, false⟩],
      [⟨1, some 5, some 9⟩],
      [⟨1, 1, 1, .Y, .Y, true⟩, ⟨2, 2, 1, .Y, .Y, true⟩, ⟨3, 1, 2, .Y, .Y, true⟩], [], [],
      [((1, 1), ⟨5, 9⟩)], [], 4⟩,
    [.check ⟨2, 1, 1, .Y, .Y, true⟩ true, .deleteOne ⟨1, 1, 1, .Y, .Y, true⟩ false], ?_, ?_, ?_⟩
  · unfold UniqueCopies; decide
  · decide
  · intro h
    have h2 := h _ (List.mem_cons_of_mem _ (List.mem_cons_self ..)) (Eff.unlink 1 1) (by decide)
    rcases h2 with ⟨c, uf, _, _, _, hcount⟩ | hne
    · revert hcount; decide
    · revert hne; decide

/-- **C01.4 (history)** in every history from a well-formed world, every storage effect of every
    step is acceptable: an unlink is a delete step backed by ≥ 2 other healthy archive copies in
    the index at that step, or (failed-transfer clean-up) hits a path whose copy is not
    recorded healthy; a write only ever targets a path whose copy is not recorded healthy.
    CHANGED w.r.t. the original statement: hypothesis `hwf` added — every check step of the
    history captured a row that agrees on (file, node) with the stored row of the same id
    (`OpWF`, see `C01_unique_preserved`).  Without it the statement is false:
    `C01_history_safe_original_false`. -/
theorem C01_history_safe (w0 : World) (hu : w0.UniqueCopies) (hid : ∀ c ∈ w0.copies, c.id < w0.nextId)
    (ops : List WOp) (hwf : ∀ t ∈ World.trace w0 ops, OpWF t.1 t.2.1) :
    ∀ t ∈ World.trace w0 ops, ∀ e ∈ t.2.2, EffOk t.1 t.2.1 e := by
  induction ops generalizing w0 with
  | nil => intro t ht; cases ht
  | cons op ops ih =>
    intro t ht
    have hop : OpWF w0 op := hwf (w0, op, (w0.wstep op).2) (List.mem_cons_self ..)
    rcases List.mem_cons.mp ht with rfl | ht'
    · exact C01_step_safe w0 op hu
    · have hw1 := C01_unique_preserved w0 op hu hid hop
      exact ih (w0.wstep op).1 hw1.1 hw1.2 (fun t' ht' => hwf t' (List.mem_cons_of_mem _ ht')) t ht'

/-! ### the finer granularity, kept visible -/

/-- delete with the count read in one step and the unlink in a later one -/
def deleteSplitRead (w : World) (c : WCopy) : Bool :=
  decide (World.copiesRequired (w.isArchive c.node) ≤ w.archiveCount c.file)

/-- **C01.6 (no overlapping pulls)** "no other daemon action overwrites a healthy copy": the pulls one pass dispatches
    into a group are for pairwise different files (`seen_files`), so two transfer tasks of one pass never write — or,
    failing, clean up — the same destination path while the other has just registered it healthy -/
theorem C01_no_overlapping_dispatch (w : World) (hv : HostView) :
    (firstPerFile [] (w.pendingInto hv)).Pairwise (fun a b => (a.file, a.groupTo) ≠ (b.file, b.groupTo)) ∧
    (∀ r ∈ firstPerFile [] (w.pendingInto hv), r ∈ w.reqs ∧ r.completed = false ∧ r.cancelled = false) := by
  refine ⟨firstPerFile_pairwise _ _, ?_⟩
  intro r hr
  have hm := (firstPerFile_mem _ _ r hr).1
  unfold World.pendingInto at hm
  obtain ⟨h1, h2⟩ := List.mem_filter.mp hm
  simp only [Bool.and_eq_true, Bool.not_eq_true'] at h2
  exact ⟨h1, h2.1.1, h2.1.2⟩

example : firstPerFile [] [⟨1, 7, 1, 2, false, false⟩, ⟨2, 7, 3, 2, false, false⟩, ⟨3, 8, 1, 2, false, false⟩] =
    [⟨1, 7, 1, 2, false, false⟩, ⟨3, 8, 1, 2, false, false⟩] := by decide

/-- **C01.5 (F-TOCTOU)** if the count is read first and acted upon later, two daemons deleting
    two of three archive copies can both pass the test: after both unlinks only one healthy
    archive copy remains. Hence C01.1–C01.4 are claimed at task-step granularity only. -/
theorem C01_split_race :
    ∃ (w : World) (a b : WCopy), w.UniqueCopies ∧
      deleteSplitRead w a = true ∧ deleteSplitRead w b = true ∧
      let w1 := (w.setDisk a.node a.file none).mapCopy a.id (fun x => { x with has := .N, wants := .N })
      w1.archiveCountElsewhere b.file b.node < 2 := by
  refine ⟨⟨[⟨1, 1, 0, true, .A, none, 0, none, false⟩, ⟨2, 2, 0, true, .A, none, 0, none, false⟩,
            ⟨3, 3, 0, true, .A, none, 0, none, false⟩], [],
      [⟨1, 1, 1, .Y, .Y, true⟩, ⟨2, 1, 2, .Y, .Y, true⟩, ⟨3, 1, 3, .Y, .Y, true⟩], [], [], [], [], 4⟩,
    ⟨1, 1, 1, .Y, .Y, true⟩, ⟨2, 1, 2, .Y, .Y, true⟩, ?_, ?_, ?_, ?_⟩
  · unfold UniqueCopies; decide
  · decide
  · decide
  · decide

/-! ### dispatch across passes (state kept between update iterations) -/

theorem all_zero_get (l : List Nat) (h : l.all (· == 0) = true) (i n : Nat) (hi : l[i]? = some n) : n = 0 := by
  have hm : n ∈ l := List.mem_of_getElem? hi
  have := (List.all_eq_true.mp h) n hm
  simpa using this

/-- **no second dispatch while a transfer is in flight**: whatever stage the earlier transfer of the group is at, the pass
    dispatches nothing for the group -/
theorem C01_no_second_dispatch_in_flight (q : GroupQueues) (t : InFlight) (h : t.accountedIn q) (reqs : List Nat) :
    dispatchPass q reqs = [] := by
  unfold dispatchPass
  have : q.idle = false := by
    unfold GroupQueues.idle
    cases t with
    | searching =>
      simp only [InFlight.accountedIn] at h
      have : (q.groupFifo == 0) = false := by simp; omega
      simp [this]
    | pulling i =>
      obtain ⟨n, hn, hpos⟩ := h
      cases hall : q.nodeFifos.all (· == 0) with
      | false => simp
      | true =>
        have := all_zero_get q.nodeFifos hall i n hn
        omega
  simp [this]

/-- the pinned rule dispatched again while the search of the earlier dispatch was still in the group's FIFO -/
theorem C01_legacy_dispatches_during_search :
    ∃ q reqs, InFlight.searching.accountedIn q ∧ dispatchPassLegacy q reqs ≠ [] := by
  refine ⟨⟨1, [0]⟩, [7], ?_, ?_⟩
  · simp [InFlight.accountedIn]
  · decide

example : dispatchPass ⟨0, [0, 0]⟩ [3, 5] = [3, 5] := by decide
example : dispatchPass ⟨0, [0, 2]⟩ [3, 5] = [] := by decide


end Alpen
