"""Shared machinery of ./check: Lean build + audit, driver process, evidence, violations."""
from __future__ import annotations

import fcntl
import json
import os
import random
import re
import subprocess
import sys
import time

VERIF = os.path.dirname(os.path.dirname(os.path.abspath(__file__)))
LEAN = os.path.join(VERIF, "lean")
REPO = os.environ.get("ALPEN_REPO", "/repo")
EVID = os.path.join(VERIF, "evidence")
OUT = os.path.join(VERIF, "out")
DRIVER = os.path.join(LEAN, ".lake", "build", "bin", "driver")
ALLOWED_AXIOMS = {"propext", "Classical.choice", "Quot.sound"}
FORBIDDEN = re.compile(r"\bsorry\b|\badmit\b|^\s*axiom\s|native_decide|bv_decide|implemented_by|\bunsafe\s|maxHeartbeats\s+0")

TRUSTED_BASE = [
    "Lean 4.33.0 kernel; axioms allowed: propext, Classical.choice, Quot.sound (audited by #print axioms each run)",
    "harness/extract.py (translator/constants extractor: /repo AST -> lean/Alpen/Generated.lean)",
    "the correspondence harness (Python driver of the real code, Lean line-protocol driver, canonicalisation)",
    "CPython, peewee/SQLite, POSIX file semantics, threading primitives: modelled, not verified",
]


def ensure_repo_on_path():
    if REPO not in sys.path:
        sys.path.insert(0, REPO)
    h = os.path.join(VERIF, "harness")
    if h not in sys.path:
        sys.path.insert(0, h)


class Lock:
    def __init__(self, name):
        os.makedirs(OUT, exist_ok=True)
        self.path = os.path.join(OUT, name + ".lock")

    def __enter__(self):
        self.f = open(self.path, "w")
        fcntl.flock(self.f, fcntl.LOCK_EX)
        return self

    def __exit__(self, *a):
        fcntl.flock(self.f, fcntl.LOCK_UN)
        self.f.close()


def run(cmd, cwd=None, timeout=1800, env=None):
    p = subprocess.run(cmd, cwd=cwd, stdout=subprocess.PIPE, stderr=subprocess.STDOUT, text=True,
                       timeout=timeout, env=env)
    return p.returncode, p.stdout


def regenerate():
    rc, out = run(["/venv/bin/python", os.path.join(VERIF, "harness", "extract.py")])
    notes = [l for l in out.splitlines() if l.startswith("extract-note:")]
    return rc, notes


def lean_build(targets):
    """Build the given lake targets under a global lock. Returns (ok, log)."""
    with Lock("lake"):
        rc, out = run(["lake", "build", *targets], cwd=LEAN, timeout=3000)
    return rc == 0, out


def strip_comments(text: str) -> str:
    # remove /- ... -/ (nested not handled beyond one level) and -- comments
    out = []
    depth = 0
    i = 0
    n = len(text)
    while i < n:
        if text.startswith("/-", i):
            depth += 1
            i += 2
            continue
        if text.startswith("-/", i) and depth > 0:
            depth -= 1
            i += 2
            continue
        if depth == 0:
            if text.startswith("--", i):
                j = text.find("\n", i)
                i = n if j < 0 else j
                continue
            out.append(text[i])
        elif text[i] == "\n":
            out.append("\n")
        i += 1
    return "".join(out)


def grep_forbidden():
    """Scan every Lean source of the project for forbidden tokens outside comments."""
    hits = []
    for base, _dirs, files in os.walk(LEAN):
        if ".lake" in base:
            continue
        for fn in files:
            if fn.endswith(".lean"):
                p = os.path.join(base, fn)
                txt = strip_comments(open(p).read())
                for ln, line in enumerate(txt.splitlines(), 1):
                    if FORBIDDEN.search(line):
                        hits.append(f"{os.path.relpath(p, LEAN)}:{ln}: {line.strip()[:120]}")
    return hits


def discover_theorems(module_rel):
    """Public theorem names declared in a Props file (namespace Alpen assumed)."""
    p = os.path.join(LEAN, module_rel)
    txt = strip_comments(open(p).read())
    names = []
    for m in re.finditer(r"^(private\s+)?theorem\s+([A-Za-z_][A-Za-z0-9_'.]*)", txt, re.M):
        if not m.group(1):
            names.append(m.group(2))
    return names


def audit_axioms(module, names, ns="Alpen"):
    """#print axioms for each theorem; returns dict name -> list of axioms or None if missing."""
    os.makedirs(OUT, exist_ok=True)
    fn = os.path.join(OUT, f"audit_{module.replace('.', '_')}_{os.getpid()}.lean")
    with open(fn, "w") as f:
        f.write(f"import {module}\n")
        for n in names:
            f.write(f"#print axioms {ns}.{n}\n")
    try:
        rc, out = run(["lake", "env", "lean", fn], cwd=LEAN, timeout=900)
    finally:
        try:
            os.remove(fn)
        except OSError:
            pass
    res = {n: None for n in names}
    # outputs: 'Alpen.X' depends on axioms: [a, b]   |  'Alpen.X' does not depend on any axioms
    flat = out.replace("\n", " ")
    for n in names:
        q = f"'{ns}.{n}'"
        m = re.search(re.escape(q) + r" depends on axioms: \[([^\]]*)\]", flat)
        if m:
            res[n] = [a.strip() for a in m.group(1).split(",") if a.strip()]
        elif re.search(re.escape(q) + r" does not depend on any axioms", flat):
            res[n] = []
    return res, out


class Driver:
    """Batch interface to the compiled Lean driver (falls back to `lean --run`)."""

    def __init__(self):
        self.cmd = [DRIVER] if os.path.exists(DRIVER) else ["lake", "env", "lean", "--run", "Driver.lean"]

    def batch(self, lines):
        inp = "\n".join(lines) + "\n"
        p = subprocess.run(self.cmd, cwd=LEAN, input=inp, stdout=subprocess.PIPE, stderr=subprocess.PIPE, text=True,
                           timeout=1800)
        if p.returncode != 0:
            raise RuntimeError(f"driver failed rc={p.returncode}: {p.stderr[:500]}")
        out = p.stdout.split("\n")
        if out and out[-1] == "":
            out.pop()
        if len(out) != len(lines):
            raise RuntimeError(f"driver answered {len(out)} lines for {len(lines)} ops")
        return out


def enc(s: str) -> str:
    return "-" if s == "" else ",".join(str(ord(c)) for c in s)


def dec(t: str) -> str:
    return "" if t == "-" else "".join(chr(int(x)) for x in t.split(","))


def load_known():
    known, fixed = [], []
    p = os.path.join(VERIF, "known_findings.txt")
    if os.path.exists(p):
        for line in open(p):
            line = line.strip()
            if line.startswith("known:"):
                m = re.match(r"known:\s+property=(\S+)\s+key=(\S+)\s+(.*)", line)
                if m:
                    known.append({"property": m.group(1), "key": m.group(2), "what": m.group(3)})
            elif line.startswith("fixed:"):
                fixed.append(line)
    return known, fixed


class Ctx:
    """State of one check run of one property."""

    def __init__(self, prop, tier, seed, keep_replays=False):
        self.prop = prop
        self.tier = tier
        self.seed = seed
        self.rng = random.Random((hash(prop) & 0xffff) * 1000003 + seed)
        self.rng = random.Random(f"{prop}-{seed}")
        self.t0 = time.time()
        self.violations = []      # (key, what, replay_path, concrete)
        self.known_hits = []
        self.notes = []
        self.coverage = {}
        self.assumptions = []
        self.obligations = 0
        self.discharged = 0
        self.proof_broken = []    # theorem / module names that no longer check
        self.corr_broken = []     # correspondence streams that diverged (dicts)
        self.evaluations = 0
        self.nontrivial = set()
        self.samples = []
        self.hist = {}
        self.known, _ = load_known()
        os.makedirs(os.path.join(OUT, "replays"), exist_ok=True)
        for fn in os.listdir(os.path.join(OUT, "replays")):
            if fn.startswith(prop + "-") and not keep_replays:
                os.remove(os.path.join(OUT, "replays", fn))

    # -- bookkeeping helpers
    def count(self, key, n=1):
        self.hist[key] = self.hist.get(key, 0) + n

    def case(self, ident, nontrivial=True, sample=None):
        self.evaluations += 1
        if nontrivial:
            self.nontrivial.add(ident)
        if sample is not None and len(self.samples) < 6:
            self.samples.append(sample)

    def quick(self):
        return self.tier == "quick"

    def write_replay(self, name, obj):
        p = os.path.join(OUT, "replays", f"{self.prop}-{name}.json")
        with open(p, "w") as f:
            json.dump(obj, f, indent=1, default=str)
        return p

    def violation(self, key, what, replay, concrete=True):
        """Report a violation. `key` identifies the failing input/call site (for known-findings matching)."""
        for k in self.known:
            if k["property"] == self.prop and k["key"] == key and concrete:
                if key not in [x[0] for x in self.known_hits]:
                    self.known_hits.append((key, k["what"]))
                return
        if any(v[0] == key for v in self.violations):
            return
        cls = key.split(":")[0]
        self.suppressed = getattr(self, "suppressed", 0)
        if sum(1 for v in self.violations if v[0].split(":")[0] == cls) >= 3:
            self.suppressed += 1      # same class of failure: keep the first three witnesses only
            return
        replay = dict(replay)
        replay.setdefault("property", self.prop)
        replay.setdefault("what", what)
        replay.setdefault("seed", self.seed)
        replay.setdefault("tier", self.tier)
        replay.setdefault("key", key)
        replay.setdefault("concrete_failing_input", concrete)
        path = self.write_replay(re.sub(r"[^A-Za-z0-9_.-]", "_", key)[:80], replay)
        self.violations.append((key, what, path, concrete))

    # -- final
    def finish(self, level="proof", extra_cov=None):
        wall = time.time() - self.t0
        cov = {
            "obligations": self.obligations,
            "discharged": self.discharged,
            "checker_cmd": "cd lean && lake build Alpen.Props.%s && lake env lean <audit: #print axioms of every theorem>" % self.prop,
            "trusted_base": TRUSTED_BASE + self.assumptions,
            "evaluations": self.evaluations,
            "distinct_nontrivial": len(self.nontrivial),
            "traces_validated_against_impl": self.evaluations,
            "samples": self.samples if self.samples else ["(none)"],
            "histogram": dict(sorted(self.hist.items())),
            "proof_broken": self.proof_broken,
            "correspondence_broken": [c.get("stream", "?") for c in self.corr_broken],
            "known_findings_hit": [k for k, _ in self.known_hits],
            "notes": self.notes,
        }
        cov.update(self.coverage)
        if extra_cov:
            cov.update(extra_cov)
        ev = {
            "property_id": self.prop,
            "tier": self.tier,
            "seed": self.seed,
            "level": level,
            "coverage": cov,
            "assumptions": self.assumptions,
            "wall_s": round(wall, 2),
            "violations": len(self.violations),
        }
        os.makedirs(EVID, exist_ok=True)
        tmp = os.path.join(EVID, f".{self.prop}.json.tmp{os.getpid()}")
        with open(tmp, "w") as f:
            json.dump(ev, f, indent=1, default=str)
        os.replace(tmp, os.path.join(EVID, f"{self.prop}.json"))
        for key, what in self.known_hits:
            print(f"KNOWN-FINDING: property={self.prop} {what} [key={key}]")
        for key, what, path, concrete in self.violations:
            tail = "" if concrete else " no-failing-input-found"
            print(f"VIOLATION property={self.prop} replay={path} ({what}){tail}" if concrete else
                  f"VIOLATION property={self.prop} replay={path}{tail}")
        print(f"{self.prop} {self.tier}: obligations {self.discharged}/{self.obligations}, "
              f"{self.evaluations} correspondence cases ({len(self.nontrivial)} distinct non-trivial), "
              f"{len(self.violations)} violation(s), {len(self.known_hits)} known finding(s), {wall:.1f}s")
        return 1 if self.violations else 0


def proof_stage(ctx: Ctx, module: str, extra_targets=("driver",)):
    """Regenerate Generated.lean, build the property's Props module (+driver), audit axioms.
    Fills ctx.obligations / discharged / proof_broken.  Returns True iff everything checks."""
    rc, notes = regenerate()
    ctx.notes += notes
    # models + driver first (they do not depend on Generated, so they always build)
    ok_d, log_d = lean_build(list(extra_targets))
    if not ok_d:
        ctx.notes.append("driver build failed: " + log_d[-1500:])
        raise SystemExit(infra_fail(ctx, "driver/model build failed:\n" + log_d[-3000:]))
    ok, log = lean_build([module])
    rel = module.replace(".", "/") + ".lean"
    names = discover_theorems(rel)
    ctx.obligations = len(names)
    hits = grep_forbidden()
    if hits:
        ctx.proof_broken.append("forbidden tokens: " + "; ".join(hits[:5]))
    if not ok:
        errs = [l for l in log.splitlines() if "error" in l][:12]
        ctx.proof_broken.append(f"lake build {module} failed: " + " | ".join(errs))
        ctx.build_log = log
        ctx.discharged = 0
        return False
    res, raw = audit_axioms(module, names)
    good = 0
    for n, ax in res.items():
        if ax is None:
            ctx.proof_broken.append(f"theorem {n}: not found by #print axioms")
        elif not set(ax) <= ALLOWED_AXIOMS:
            ctx.proof_broken.append(f"theorem {n}: uses axioms {ax}")
        else:
            good += 1
    ctx.discharged = good
    ctx.coverage["theorems"] = names
    ok_lc = True
    if ctx.tier == "thorough":
        ok_lc = recheck_oleans(ctx, module)
    return good == len(names) and not hits and ok_lc


def project_imports(module):
    """transitive closure of `import Alpen.…` lines starting from `module` (project modules only)"""
    seen, todo = [], [module]
    while todo:
        m = todo.pop()
        if m in seen:
            continue
        seen.append(m)
        p = os.path.join(LEAN, m.replace(".", "/") + ".lean")
        if not os.path.exists(p):
            continue
        for mm in re.finditer(r"^import\s+(Alpen[.\w]*)", strip_comments(open(p).read()), re.M):
            todo.append(mm.group(1))
    return seen


def recheck_oleans(ctx, module):
    """thorough tier: replay the compiled declarations of the property's module and every project module it imports
    through leanchecker (independent re-check of the .olean files by the kernel)"""
    mods = project_imports(module)
    rc, out = run(["lake", "env", "leanchecker", *mods], cwd=LEAN, timeout=3000)
    ctx.coverage["leanchecker"] = {"modules": mods, "ok": rc == 0}
    if rc != 0:
        ctx.proof_broken.append("leanchecker rejected compiled modules: " + out[-600:])
    return rc == 0


def replay_by_rerun(ctx, path, mod):
    """generic replay: the checks are deterministic functions of (tree, seed, tier), so the recorded case is reproduced by
    running the same stages again with the recorded seed and looking for the same violation key"""
    r = json.load(open(path))
    print(json.dumps({k: v for k, v in r.items() if k not in ("history", "ops", "sched_log")}, indent=1, default=str)[:3000])
    if "seed" not in r or "key" not in r:
        return 1
    ctx2 = Ctx(ctx.prop, r.get("tier", "quick"), int(r["seed"]), keep_replays=True)
    mod.run(ctx2)
    same = [v for v in ctx2.violations if v[0] == r["key"]] + [k for k in ctx2.known_hits if k[0] == r["key"]]
    others = [v for v in ctx2.violations if v[0] != r["key"]]
    if same:
        print(f"REPRODUCED on the current tree (seed {r['seed']}, tier {r.get('tier', 'quick')}): {r['key']}")
    else:
        print(f"not reproduced on the current tree (seed {r['seed']}); other violations in that run: {[v[0] for v in others][:5]}")
    return 1 if same else 0


def infra_fail(ctx, msg):
    print("INFRASTRUCTURE FAILURE:", msg)
    return 2
