import Alpen.Model.Task
import Alpen.Model.Retry
import Alpen.Lemmas.Task
/-!
# C10 — database faults are contained (worker / task part)

"A transient database failure at any statement of a worker task makes at most that task fail:
its clean-up actions run exactly once, its queue slot and space reservation are released, the
worker is replaced, event-triggered imports are re-queued, and the daemon neither aborts nor
leaves a half-applied multi-statement update."

A DB failure inside the task body is a segment ending in `.dbError`; a DB failure inside a
clean-up action is `beh id = .dbError`.  The fault plan (`beh`, segment endings) is arbitrary.
-/
namespace Alpen

/-- **C10.1** whatever DB faults strike the body and the clean-ups of a task (no non-DB
    exception), the worker: starts every pending clean-up exactly once, calls `task_done`
    exactly once (queue slot released), never sets the global abort, and — exactly when the
    task ended in a DB error — re-queues a copy iff the task asked for it and exits with code 1
    (to be respawned). -/
theorem C10_worker_contains_fault (beh : Nat → CleanBeh) (t : TaskSt) (s : Seg) (ss : List Seg)
    (hsegs : t.segs = s :: ss)
    (hbeh : ∀ i, beh i ≠ .otherError) (hend : s.ending ≠ .otherError)
    (hnodup : (register t.cleanup s.regs).Nodup) :
    let evs := (workerHandle beh t).2
    evs.count (.taskDone t.key) = 1 ∧ TEv.abort ∉ evs ∧
    (∀ v, s.ending = .yield v → ∀ i, TEv.cleanupStarted i ∉ evs) ∧
    ((∀ v, s.ending ≠ .yield v) →
        (∀ i ∈ register t.cleanup s.regs, evs.count (.cleanupStarted i) = 1) ∧
        (∀ i, i ∉ register t.cleanup s.regs → TEv.cleanupStarted i ∉ evs) ∧
        (workerHandle beh t).1.cleanup = []) ∧
    (TEv.workerExit 1 ∈ evs ↔
        (s.ending = .dbError ∨ (s.ending = .done ∧ ∃ i ∈ register t.cleanup s.regs, beh i = .dbError))) ∧
    (TEv.requeued t.key t.excl ∈ evs ↔
        (t.requeueFlag = true ∧
          (s.ending = .dbError ∨ (s.ending = .done ∧ ∃ i ∈ register t.cleanup s.regs, beh i = .dbError)))) := by
  intro evs
  obtain ⟨hy, hn⟩ := workerHandle_spec beh hbeh t s ss hsegs hend
  by_cases hyield : ∃ v, s.ending = .yield v
  · obtain ⟨v, hv⟩ := hyield
    have hevs : evs = [.reput t.key t.excl (v.getD 0), .taskDone t.key] := hy v hv
    rw [hevs]
    refine ⟨by simp, by simp, fun _ _ i => by simp,
      fun h => absurd hv (h v), ?_, ?_⟩ <;> simp [hv]
  · have hny : ∀ v, s.ending ≠ .yield v := fun v hv => hyield ⟨v, hv⟩
    obtain ⟨hcl, hcases⟩ := hn hny
    have hcnt : ∀ i ∈ register t.cleanup s.regs,
        ((register t.cleanup s.regs).map TEv.cleanupStarted).count (.cleanupStarted i) = 1 := by
      intro i hi
      rw [count_started_map]
      exact count_of_nodup_mem hnodup hi
    have hcnt0 : ((register t.cleanup s.regs).map TEv.cleanupStarted).count (.taskDone t.key) = 0 := by
      rw [List.count_eq_zero]; simp
    rcases hcases with ⟨hno, he⟩ | ⟨hyes, he⟩
    · have hevs : evs = (register t.cleanup s.regs).map TEv.cleanupStarted ++ [.taskDone t.key] := he
      rw [hevs]
      refine ⟨by simp [List.count_append, hcnt0], by simp, fun v hv => absurd hv (hny v),
        fun _ => ⟨?_, ?_, hcl⟩, ?_, ?_⟩
      · intro i hi
        simp [List.count_append, hcnt i hi]
      · intro i hi
        simp [hi]
      · simp [hno]
      · simp [hno]
    · have hevs : evs = (register t.cleanup s.regs).map TEv.cleanupStarted ++ [.taskDone t.key] ++
              (if t.requeueFlag then [.requeued t.key t.excl] else []) ++ [.workerExit 1] := he
      rw [hevs]
      refine ⟨?_, ?_, fun v hv => absurd hv (hny v), fun _ => ⟨?_, ?_, hcl⟩, ?_, ?_⟩
      · cases t.requeueFlag <;> simp [List.count_append, hcnt0]
      · cases t.requeueFlag <;> simp
      · intro i hi
        cases t.requeueFlag <;> simp [List.count_append, hcnt i hi]
      · intro i hi
        cases t.requeueFlag <;> simp [hi]
      · simp [hyes]
      · cases hrf : t.requeueFlag <;> simp [hyes]


/-- a non-DB exception in a clean-up (or in the body) sets the global abort — the code's
    documented behaviour, stated as such -/
theorem C10_other_error_aborts (beh : Nat → CleanBeh) (t : TaskSt) (s : Seg) (ss : List Seg)
    (hsegs : t.segs = s :: ss) (h : s.ending = .otherError) :
    TEv.abort ∈ (workerHandle beh t).2 := by
  simp [workerHandle, taskCall, hsegs, h]

-- non-vacuity: body raises a DB error after registering two clean-ups, the first of which also fails
example : (workerHandle (fun i => if i = 1 then .dbError else .ok)
    ⟨3, false, true, [⟨[(1, true), (2, false)], .dbError⟩], []⟩).2
    = [.cleanupStarted 1, .cleanupStarted 2, .taskDone 3, .requeued 3 false, .workerExit 1] := by decide

end Alpen

namespace Alpen

/-- **C10.5 retry once** a statement is attempted at most twice; it is retried exactly when the
    first attempt failed, the database auto-reconnects and no transaction is open; the retry
    runs on a fresh connection (the broken one is closed first); the result reported is that
    of the last attempt. -/
theorem C10_retry_once (autoconnect inTxn isClosed : Bool) (outcomes : Nat → Bool) :
    let r := retryExecute autoconnect inTxn isClosed outcomes
    attempts r.1 ≤ 2 ∧
    (attempts r.1 = 2 ↔ (outcomes 0 = false ∧ autoconnect = true ∧ inTxn = false)) ∧
    (attempts r.1 = 2 → isClosed = false → r.1 = [.attempt false, .close, .attempt (outcomes 1)]) ∧
    (r.2 = true ↔ (outcomes 0 = true ∨ (autoconnect = true ∧ inTxn = false ∧ outcomes 1 = true))) := by
  cases h0 : outcomes 0 <;> cases autoconnect <;> cases inTxn <;> cases isClosed <;>
    cases h1 : outcomes 1 <;> simp [retryExecute, attempts, h0, h1]

/-- **C10.2** `check` replaces every dead worker and keeps the pool size; after it every slot
    holds a live worker. -/
theorem C10_pool_respawns (alive : List Bool) :
    (poolCheck false alive).length = alive.length ∧ ∀ b ∈ poolCheck false alive, b = true := by
  simp [poolCheck]

example : retryExecute true false false (fun i => i == 1) = ([.attempt false, .close, .attempt true], true) := by decide

end Alpen
