import Alpen.Model.Basic
/-
  Model of `alpenhorn.daemon.auto_import.import_file` / `_import_file` (one import of one path
  on one node) at the level of what it looks at and what it writes, and of n workers
  importing the same path concurrently at database-statement granularity.  Core Lean only.
-/
namespace Alpen

/-- what the import-detect extensions answered -/
inductive Detect where
  | none                  -- no detector accepts the path
  | ok                    -- a canonical acquisition name that is a proper ancestor of the path
  | invalidName           -- a name that is not a canonical relative path
  | notAncestor           -- a canonical name that is not a proper ancestor of the path (incl. the path itself)
  deriving DecidableEq, Repr

/-- everything one import looks at -/
structure ImpIn where
  underRoot : Bool          -- the path is relative, or absolute and under the node root
  isRoot : Bool             -- the path is the node root itself
  isMarker : Bool           -- the path is <root>/ALPENHORN_NODE
  regular : Bool            -- a regular file, not a symlink, resolving inside the node root
  dotName : Bool            -- last component starts with '.'
  locked : Bool             -- .<name>.lock exists
  detect : Detect
  register : Bool
  acqExists : Bool
  fileExists : Bool
  copy : Option (Has × Wants)       -- the (file, node) copy row, if any
  deriving DecidableEq, Repr

inductive ImpResult where
  | ignored | invalid | badName | lockedPending | noDetection | badAcq | duplicate | unregistered | success
  deriving DecidableEq, Repr

/-- what one import does to the index -/
structure ImpOut where
  result : ImpResult
  requestCompleted : Bool
  newAcq : Bool
  newFile : Bool                    -- created with size = length and md5 = digest of the bytes on disk
  copy : Option (Has × Wants)       -- the copy row afterwards
  postAdd : Bool                    -- post_add actions run
  deriving DecidableEq, Repr

def ImpOut.unchanged (i : ImpIn) (r : ImpResult) (completed : Bool) : ImpOut :=
  ⟨r, completed, false, false, i.copy, false⟩

/-- the copy row after a successful import: a row that existed with has = N becomes suspect
    (M) if it was wanted, otherwise healthy and wanted; a missing row is created healthy. -/
def importedCopy : Option (Has × Wants) → Has × Wants
  | some (_, .Y) => (.M, .Y)
  | some (_, _) => (.Y, .Y)
  | none => (.Y, .Y)

/-- `named_copy_tracked`: a copy row exists and is not recorded absent -/
def tracked : Option (Has × Wants) → Bool
  | some (h, _) => h != .N
  | none => false

def importStep (i : ImpIn) : ImpOut :=
  if i.isRoot then .unchanged i .ignored true
  else if !i.underRoot then .unchanged i .ignored true
  else if i.isMarker then .unchanged i .ignored true
  else if !i.regular then .unchanged i .invalid true
  else if i.dotName then .unchanged i .badName true
  else if i.locked then .unchanged i .lockedPending false
  else match i.detect with
    | .none => .unchanged i .noDetection true
    | .invalidName | .notAncestor => .unchanged i .badAcq true
    | .ok =>
      if tracked i.copy then .unchanged i .duplicate true
      else if !i.acqExists && !i.register then .unchanged i .unregistered true
      else if !i.fileExists && !i.register then .unchanged i .unregistered true
      else
        let c := importedCopy i.copy
        ⟨.success, true, !i.acqExists, !i.fileExists, some c, true⟩

/-- the index part of the input after the step (to state idempotence) -/
def ImpIn.after (i : ImpIn) (o : ImpOut) : ImpIn :=
  { i with acqExists := i.acqExists || o.newAcq, fileExists := i.fileExists || o.newFile, copy := o.copy }

/-! ### n workers importing the same (importable, registering) path concurrently -/

inductive IPc where
  | tracked         -- about to run named_copy_tracked
  | acq             -- about to get-or-create the acquisition
  | file            -- about to get-or-create the file
  | copy            -- about to get the copy row, then save or create it
  | done (dup : Bool)
  deriving DecidableEq, Repr

structure IState where
  acq : Bool
  file : Bool
  copy : Option (Has × Wants)
  pc : Nat → IPc
  completed : Nat → Bool          -- the worker's request was completed

def IState.init (copy0 : Option (Has × Wants)) : IState :=
  ⟨false, false, copy0, fun _ => .tracked, fun _ => false⟩

def iupd {α} (f : Nat → α) (k : Nat) (v : α) : Nat → α := fun i => if i = k then v else f i

/-- one database statement (with its IntegrityError fall-back) of worker `t` -/
def istep (s : IState) (t : Nat) : IState :=
  match s.pc t with
  | .tracked =>
    if tracked s.copy
    then { s with pc := iupd s.pc t (.done true), completed := iupd s.completed t true }
    else { s with pc := iupd s.pc t .acq }
  | .acq => { s with acq := true, pc := iupd s.pc t .file }          -- get, else create, else (IntegrityError) get
  | .file => { s with file := true, pc := iupd s.pc t .copy }
  | .copy =>
    { s with copy := some (importedCopy s.copy), pc := iupd s.pc t (.done false), completed := iupd s.completed t true }
  | .done _ => s

def irun (s : IState) (sched : List Nat) : IState := sched.foldl istep s

end Alpen
