import Alpen.Model.Str
/-! Helper lemmas on `splitSlash` / `joinSlash` / `isInfixB`. Core Lean only. -/
namespace Alpen

theorem splitSlash_ne_nil (s : Str) : splitSlash s ≠ [] := by
  induction s with
  | nil => simp [splitSlash]
  | cons c cs ih =>
    unfold splitSlash
    split
    · simp
    · split <;> simp

theorem isInfixB_iff (w s : Str) : isInfixB w s = true ↔ ∃ p r, s = p ++ w ++ r := by
  induction s with
  | nil =>
    simp only [isInfixB, List.isPrefixOf_iff_prefix]
    constructor
    · intro h
      have : w = [] := List.prefix_nil.mp h
      exact ⟨[], [], by simp [this]⟩
    · rintro ⟨p, r, h⟩
      have h' := congrArg List.length h
      simp at h'
      have : w = [] := List.eq_nil_of_length_eq_zero (by omega)
      simp [this]
  | cons c cs ih =>
    simp only [isInfixB, Bool.or_eq_true, List.isPrefixOf_iff_prefix, ih]
    constructor
    · rintro (⟨r, hr⟩ | ⟨p, r, h⟩)
      · exact ⟨[], r, by simp [hr]⟩
      · exact ⟨c :: p, r, by simp [h]⟩
    · rintro ⟨p, r, h⟩
      cases p with
      | nil => left; exact ⟨r, by simpa using h.symm⟩
      | cons a p =>
        right
        simp at h
        exact ⟨p, r, by simp [h.2]⟩

def NoSlash (w : Str) : Prop := slash ∉ w

theorem splitSlash_noSlash {w : Str} (h : NoSlash w) : splitSlash w = [w] := by
  induction w with
  | nil => rfl
  | cons c cs ih =>
    have hc : c ≠ slash := by intro e; apply h; simp [e]
    have hcs : NoSlash cs := by intro m; apply h; simp [m]
    simp [splitSlash, hc, ih hcs]

theorem splitSlash_append_slash (a b : Str) :
    splitSlash (a ++ slash :: b) = splitSlash a ++ splitSlash b := by
  induction a with
  | nil => simp [splitSlash]
  | cons c cs ih =>
    by_cases hc : c = slash
    · simp [splitSlash, hc, ih]
    · simp only [List.cons_append, splitSlash, hc, if_false, ih]
      cases h : splitSlash cs with
      | nil => exact absurd h (splitSlash_ne_nil cs)
      | cons x t => simp

theorem joinSlash_splitSlash (s : Str) : joinSlash (splitSlash s) = s := by
  induction s with
  | nil => rfl
  | cons c cs ih =>
    by_cases hc : c = slash
    · simp only [splitSlash, hc, if_true]
      cases h : splitSlash cs with
      | nil => exact absurd h (splitSlash_ne_nil cs)
      | cons x t => rw [h] at ih; simp [joinSlash, ih]
    · simp only [splitSlash, hc, if_false]
      cases h : splitSlash cs with
      | nil => exact absurd h (splitSlash_ne_nil cs)
      | cons x t =>
        rw [h] at ih
        cases t with
        | nil => simp [joinSlash] at ih ⊢; exact ih
        | cons y t' => simp [joinSlash] at ih ⊢; exact ih

theorem joinSlash_cons_ne_nil (a : Str) {l : List Str} (h : l ≠ []) :
    joinSlash (a :: l) = a ++ slash :: joinSlash l := by
  cases l with
  | nil => exact absurd rfl h
  | cons b t => rfl

theorem joinSlash_append {a b : List Str} (ha : a ≠ []) (hb : b ≠ []) :
    joinSlash (a ++ b) = joinSlash a ++ slash :: joinSlash b := by
  induction a with
  | nil => exact absurd rfl ha
  | cons x t ih =>
    cases t with
    | nil => simp [joinSlash_cons_ne_nil x hb, joinSlash]
    | cons y t' =>
      have : (y :: t') ++ b ≠ [] := by simp
      simp only [List.cons_append] at ih ⊢
      rw [joinSlash_cons_ne_nil x (by simp), joinSlash_cons_ne_nil x (by simp), ih (by simp)]
      simp

/-- The component lemma: a slash-free word `w` is a `/`-component of `s` iff
    `s = w`, or `s` starts with `w/`, or ends with `/w`, or contains `/w/`. -/
theorem mem_splitSlash_iff {w : Str} (hw : NoSlash w) (s : Str) :
    w ∈ splitSlash s ↔
      s = w ∨ (w ++ [slash]) <+: s ∨ (slash :: w) <:+ s ∨ isInfixB (slash :: w ++ [slash]) s = true := by
  constructor
  · intro hm
    obtain ⟨pre, post, hsp⟩ := List.append_of_mem hm
    have hs : s = joinSlash (pre ++ w :: post) := by rw [← hsp, joinSlash_splitSlash]
    cases pre with
    | nil =>
      cases post with
      | nil => left; simpa [joinSlash] using hs
      | cons y t =>
        right; left
        refine ⟨joinSlash (y :: t), ?_⟩
        rw [hs]; simp [joinSlash]
    | cons x pt =>
      cases post with
      | nil =>
        right; right; left
        refine ⟨joinSlash (x :: pt), ?_⟩
        rw [hs, joinSlash_append (by simp) (by simp)]; simp [joinSlash]
      | cons y t =>
        right; right; right
        rw [isInfixB_iff]
        refine ⟨joinSlash (x :: pt), joinSlash (y :: t), ?_⟩
        rw [hs, joinSlash_append (by simp) (by simp), joinSlash_cons_ne_nil w (by simp)]
        simp
  · rintro (h | ⟨r, h⟩ | ⟨p, h⟩ | h)
    · rw [h, splitSlash_noSlash hw]; simp
    · rw [← h]; simp only [List.append_assoc, List.singleton_append]
      rw [splitSlash_append_slash, splitSlash_noSlash hw]; simp
    · rw [← h, splitSlash_append_slash, splitSlash_noSlash hw]; simp
    · rw [isInfixB_iff] at h
      obtain ⟨p, r, h⟩ := h
      rw [h]
      have : p ++ (slash :: w ++ [slash]) ++ r = p ++ slash :: (w ++ slash :: r) := by simp
      rw [this, splitSlash_append_slash, splitSlash_append_slash, splitSlash_noSlash hw]; simp

end Alpen

namespace Alpen

theorem normLoop_canonical (abs : Bool) (cs acc : List Str) (h : CanonicalComps cs) :
    normLoop abs cs acc = acc.reverse ++ cs := by
  induction cs generalizing acc with
  | nil => simp [normLoop]
  | cons c cs ih =>
    have hc := h c (by simp)
    have hcs : CanonicalComps cs := fun x hx => h x (by simp [hx])
    unfold normLoop
    simp only [hc.1, hc.2.1, or_self, if_false]
    simp only [ne_eq, hc.2.2, not_false_eq_true, true_or, if_true]
    rw [ih _ hcs]; simp

theorem splitSlash_joinSlash {cs : List Str} (hne : cs ≠ []) (h : ∀ c ∈ cs, NoSlash c) :
    splitSlash (joinSlash cs) = cs := by
  induction cs with
  | nil => exact absurd rfl hne
  | cons a t ih =>
    cases t with
    | nil => simp [joinSlash, splitSlash_noSlash (h a (by simp))]
    | cons b t' =>
      rw [joinSlash_cons_ne_nil a (by simp), splitSlash_append_slash,
        splitSlash_noSlash (h a (by simp)), ih (by simp) (fun c hc => h c (by simp [hc]))]
      simp

theorem noSlash_of_mem_splitSlash (s : Str) : ∀ c ∈ splitSlash s, NoSlash c := by
  induction s with
  | nil => simp [splitSlash, NoSlash]
  | cons x xs ih =>
    intro c hc
    by_cases hx : x = slash
    · simp only [splitSlash, hx, if_true, List.mem_cons] at hc
      rcases hc with rfl | hc
      · simp [NoSlash]
      · exact ih c hc
    · simp only [splitSlash, hx, if_false] at hc
      cases hsp : splitSlash xs with
      | nil => exact absurd hsp (splitSlash_ne_nil xs)
      | cons y t =>
        rw [hsp] at hc ih
        simp only [List.mem_cons] at hc
        rcases hc with rfl | hc
        · have := ih y (by simp)
          intro m; simp only [List.mem_cons] at m
          rcases m with m | m
          · exact hx m.symm
          · exact this m
        · exact ih c (by simp [hc])

end Alpen
