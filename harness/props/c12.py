"""C12 — exclusive tasks, fair choice, deferral timing (queue under the scheduler) and the Task contract (real Task/Worker)."""
import json
import random
import re

import common
import qharness
import taskharness
from props import c11

MODULE = "Alpen.Props.C12"


def gen_programs(rng):
    return c11.gen_programs(rng, excl_p=0.5, defer_p=0.4, maxops=5)


def fairness_problems(run):
    """at every delivery the delivering FIFO has the fewest running tasks among the eligible FIFOs
       (judged on the real queue's own fields right after the pop; other FIFOs are unchanged by the pop)"""
    probs = []
    excl = {}
    clock = 0
    began = {}
    for ev in run["log"]:
        if ev[0] == "tick":
            clock += ev[1]
        elif ev[0] == "getbegin":
            began[ev[1]] = clock
        if ev[0] == "getend" and isinstance(ev[3], str) and ev[1] in began:
            # "a deferred task ... is started once afterwards": a consumer's look at the queue moves every deferred item whose
            # delay had already elapsed when the look began into its FIFO - none of those may still be waiting when it ends
            m_ = re.search(r"deferrals=(\S*)", ev[3])
            for tok in (m_.group(1).split(",") if m_ and m_.group(1) else []):
                exp_, item_, key_ = tok.split("/")
                if int(exp_) + 1 <= began[ev[1]]:
                    probs.append(f"deferred item {item_} (due at t={exp_}) is still held back after a consumer's look at the queue that "
                                 f"began at t={began[ev[1]]}: its delay has elapsed but it has not been queued")
        if ev[0] == "put" and ev[7]:
            excl[ev[2]] = ev[3]
        elif ev[0] == "getend" and ev[2] is None:
            # a scan of the queue that hands out nothing: no FIFO may have been eligible (the consumer holds the queue's lock
            # from the scan to this dump, so the dump is what the scan saw)
            m = re.search(r"fifos=(.*?); keysBy", ev[3])
            for tok in m.group(1).split():
                k, ids, inp, locked = tok.split(":")
                ids = ids.strip("[]")
                ids = [int(x) for x in ids.split(",")] if ids != "-" else []
                if ids and locked != "1" and not (int(inp) > 0 and excl.get(ids[0], False)):
                    probs.append(f"fair: a consumer's scan of the queue handed out nothing although FIFO {k} (running {inp}, not locked) "
                                 f"has the startable task {ids[0]} at its head")
        elif ev[0] == "getend" and ev[2] is not None:
            item, key = ev[2]
            dump = ev[3]
            m = re.search(r"fifos=(.*?); keysBy", dump)
            per = {}
            for tok in m.group(1).split():
                k, ids, inp, locked = tok.split(":")
                ids = ids.strip("[]")
                per[int(k)] = ([int(x) for x in ids.split(",")] if ids != "-" else [], int(inp), locked == "1")
            mine = per[key][1] - 1
            for k2, (ids, inp, locked) in per.items():
                if k2 == key or not ids or locked:
                    continue
                if inp > 0 and excl.get(ids[0], False):
                    continue
                if inp < mine:
                    probs.append(f"fair: item {item} taken from FIFO {key} with {mine} running while eligible FIFO {k2} has {inp}")
    return probs


def run(ctx):
    ok = common.proof_stage(ctx, MODULE)
    n = 1200 if ctx.quick() else 30000
    for r in c11.run_many(ctx, gen_programs, n, "C12"):
        probs = [p for p in qharness.oracle(r) if p.startswith("exclusive") or "exclusive item is running" in p
                 or p.startswith("deferred item")]
        probs += fairness_problems(r)
        for p in probs:
            ctx.violation("queue:" + p.split(":")[0][:30].replace(" ", "_"), p,
                          {"kind": "qschedule", "programs": r["progs"], "keys": r["keys"], "schedule": r["taken"], "problem": p})
    # --- Task contract on the real Task / Worker
    rng = ctx.rng
    nt = 600 if ctx.quick() else 20000
    tasks = [taskharness.gen_task(rng, allow_other=False) for _ in range(nt)]
    for k_, t in enumerate(tasks):
        # mostly fault-free tasks (C10 covers the faults); one in four keeps its database faults, because "clean-ups exactly
        # once, after the final step" and "an exclusive task keeps its FIFO until it has finished" also hold for a task that dies
        if k_ % 4:
            t["db"] = []
            t["segs"] = [(regs, "d" if e in ("e", "x") else e) for regs, e in t["segs"]]
        else:
            t["segs"] = [(regs, "d" if e == "x" else e) for regs, e in t["segs"]]
    outs = common.Driver().batch([taskharness.model_line(t) for t in tasks])
    for t, o in zip(tasks, outs):
        ev, left = taskharness.run_real(t)
        real = " ".join(ev) or "-"
        nyield = sum(1 for _, e in t["segs"] if e.startswith("y"))
        ctx.count(f"task:yields={min(nyield, 3)}:excl={int(t['excl'])}")
        ctx.case(("task", taskharness.model_line(t)), nontrivial=nyield > 0 or any(regs for regs, _ in t["segs"]),
                 sample={"task": taskharness.model_line(t), "real_events": real, "model_events": o}
                 if nyield and t["excl"] and len(ctx.samples) < 5 else None)
        if real != o:
            if len(ctx.corr_broken) < 6:
                ctx.corr_broken.append({"stream": "Task/Worker-vs-taskCall", "task": taskharness.model_line(t), "real": real, "model": o})
        # oracle from the property text
        reg_ids = [i for regs, _ in t["segs"] for i, _ in regs]
        for e in ev:
            if e.startswith("P:"):
                _, k, x, w = e.split(":")
                if int(k) != t["key"] or int(x) != int(t["excl"]):
                    ctx.violation("task:requeue-flags", f"yielding task (key {t['key']}, exclusive={t['excl']}) re-queued as key {k} exclusive={x}",
                                  {"kind": "task", "task": t, "events": ev})
        last_done = max([i for i, e in enumerate(ev) if e.startswith("D:")], default=-1)
        late = [e for e in ev[last_done + 1:] if e.startswith("c")] if last_done >= 0 else []
        if late:
            ctx.violation("task:slot-before-cleanup", f"the task's queue slot (its FIFO's lock, if exclusive={t['excl']}) was given back before "
                          f"its clean-up actions {late} had run", {"kind": "task", "task": t, "events": ev})
        last_step = max([i for i, e in enumerate(ev) if e.startswith("P:")], default=-1)
        for i in reg_ids:
            c = ev.count(f"c{i}")
            if c != 1:
                ctx.violation("task:cleanup-count", f"clean-up {i} ran {c} times", {"kind": "task", "task": t, "events": ev})
            elif ev.index(f"c{i}") < last_step:
                ctx.violation("task:cleanup-early", f"clean-up {i} ran before the task's final step", {"kind": "task", "task": t, "events": ev})
        requeued = any(e.startswith("Q:") for e in ev)      # a task created with requeue=True that died of a DB fault is queued again
        if (left["qsize"] and not (requeued and left["qsize"] == 1)) or left["inprogress"] or left["deferred"] or left["locked"]:
            ctx.violation("task:leftover", f"after the task finished the queue still holds {left}", {"kind": "task", "task": t, "events": ev})
    ctx.coverage["rule"] = ("queue: as C11 but half of the items exclusive and 40% deferred (waits 1,2,5,11 against get time-outs 1,3,12), judged "
                            "by oracles for exclusivity, fairness (fewest running among eligible FIFOs, from the real queue's fields) and "
                            "deferral timing on the virtual clock; tasks: random generator/plain task bodies (1-4 segments, yields with "
                            "none/0/2/7, 0-3 clean-ups per segment pushed first/last, exclusive or not) run by the real Worker.run on the "
                            "real queue, event list compared with the Lean Task model. distinct = (programs, schedule) / task spec")
    from props.c06 import finish_search
    finish_search(ctx, ok)


def replay(ctx, path):
    r = json.load(open(path))
    if "programs" not in r:
        import sys
        return common.replay_by_rerun(ctx, path, sys.modules[__name__])
    if r.get("kind") == "task":
        ev, left = taskharness.run_real(r["task"])
        print(ev, left)
        return 1
    progs = [[tuple(op) for op in p] for p in r["programs"]]
    run = qharness.execute(progs, r["keys"], choices=list(r["schedule"]))
    probs = qharness.oracle(run) + fairness_problems(run)
    print("result:", run["result"], "problems:", probs)
    return 1 if probs else 0
