import Alpen.Model.WorldOps
import Alpen.Lemmas.Clean
import Alpen.Lemmas.PostAdd
/-! helper lemmas for the world model -/
namespace Alpen
namespace World

/-! ### frame facts: which fields each primitive touches -/

@[simp] theorem mapCopy_disk (w : World) (id : Nat) (g : WCopy → WCopy) : (w.mapCopy id g).disk = w.disk := rfl
@[simp] theorem mapCopy_reqs (w : World) (id : Nat) (g : WCopy → WCopy) : (w.mapCopy id g).reqs = w.reqs := rfl
@[simp] theorem mapCopy_nextId (w : World) (id : Nat) (g : WCopy → WCopy) : (w.mapCopy id g).nextId = w.nextId := rfl
@[simp] theorem mapCopy_nodes (w : World) (id : Nat) (g : WCopy → WCopy) : (w.mapCopy id g).nodes = w.nodes := rfl
@[simp] theorem mapReq_disk (w : World) (id : Nat) (g : WReq → WReq) : (w.mapReq id g).disk = w.disk := rfl
@[simp] theorem mapReq_copies (w : World) (id : Nat) (g : WReq → WReq) : (w.mapReq id g).copies = w.copies := rfl
@[simp] theorem mapReq_nextId (w : World) (id : Nat) (g : WReq → WReq) : (w.mapReq id g).nextId = w.nextId := rfl
@[simp] theorem mapReq_nodes (w : World) (id : Nat) (g : WReq → WReq) : (w.mapReq id g).nodes = w.nodes := rfl
@[simp] theorem mapReq_edges (w : World) (id : Nat) (g : WReq → WReq) : (w.mapReq id g).edges = w.edges := rfl
@[simp] theorem setDisk_copies (w : World) (n f : Nat) (c : Option OnDisk) : (w.setDisk n f c).copies = w.copies := rfl
@[simp] theorem setDisk_reqs (w : World) (n f : Nat) (c : Option OnDisk) : (w.setDisk n f c).reqs = w.reqs := rfl
@[simp] theorem setDisk_nextId (w : World) (n f : Nat) (c : Option OnDisk) : (w.setDisk n f c).nextId = w.nextId := rfl
@[simp] theorem setDisk_nodes (w : World) (n f : Nat) (c : Option OnDisk) : (w.setDisk n f c).nodes = w.nodes := rfl
@[simp] theorem setDisk_edges (w : World) (n f : Nat) (c : Option OnDisk) : (w.setDisk n f c).edges = w.edges := rfl

theorem diskAt_congr {w w' : World} (h : w'.disk = w.disk) (n f : Nat) : w'.diskAt n f = w.diskAt n f := by
  unfold diskAt; rw [h]

theorem copyAt_congr {w w' : World} (h : w'.copies = w.copies) (f n : Nat) : w'.copyAt f n = w.copyAt f n := by
  unfold copyAt; rw [h]

theorem filecopyState_congr {w w' : World} (h : w'.copies = w.copies) (f n : Nat) :
    w'.filecopyState f n = w.filecopyState f n := by
  unfold filecopyState; rw [copyAt_congr h]

theorem find?_congr' {α} {p q : α → Bool} (l : List α) (h : ∀ x ∈ l, p x = q x) :
    l.find? p = l.find? q := by
  induction l with
  | nil => rfl
  | cons a as ih =>
    simp only [List.find?_cons, h a (List.mem_cons_self ..)]
    rw [ih (fun x hx => h x (List.mem_cons_of_mem _ hx))]

theorem diskAt_setDisk (w : World) (n f : Nat) (c : Option OnDisk) (n' f' : Nat) :
    (w.setDisk n f c).diskAt n' f' = if (n', f') = (n, f) then c else w.diskAt n' f' := by
  have hrest : (w.disk.filter (fun e => e.1 != (n, f))).find? (fun e => e.1 == (n', f')) =
      if (n', f') = (n, f) then none else w.disk.find? (fun e => e.1 == (n', f')) := by
    rw [List.find?_filter]
    split
    · rename_i h
      rw [List.find?_eq_none]
      intro x _
      rw [h]
      cases hx : (x.1 == (n, f)) <;> simp [bne, hx]
    · rename_i h
      apply find?_congr'
      intro x _
      by_cases hx : x.1 = (n', f')
      · have : x.1 ≠ (n, f) := fun h' => h (hx.symm.trans h')
        simp [hx, h]
      · simp [hx]
  unfold diskAt setDisk
  cases c with
  | none =>
    simp only [hrest]
    split <;> simp
  | some x =>
    simp only [List.find?_cons, hrest]
    by_cases h : (n', f') = (n, f)
    · have : ((n, f) == (n', f')) = true := by simp [h]
      simp [h]
    · have : ((n, f) == (n', f')) = false := by
        apply beq_eq_false_iff_ne.mpr; exact fun h' => h h'.symm
      simp [h, this]

/-! ### counting healthy archive copies -/

theorem filter_elsewhere_eq (arch : Nat → Bool) (f n : Nat) (l : List WCopy)
    (h : ∀ c ∈ l, ¬ (c.file = f ∧ c.node = n)) :
    l.filter (fun c => c.file == f && c.has == .Y && arch c.node) =
    l.filter (fun c => c.file == f && c.has == .Y && arch c.node && c.node != n) := by
  apply List.filter_congr
  intro c hc
  have := h c hc
  by_cases h1 : c.file = f
  · have h2 : c.node ≠ n := fun h2 => this ⟨h1, h2⟩
    simp [h2]
  · simp [h1]

theorem count_le_elsewhere (arch : Nat → Bool) (f n : Nat) (l : List WCopy)
    (hp : l.Pairwise (fun a b => ¬ (a.file = b.file ∧ a.node = b.node))) :
    (l.filter (fun c => c.file == f && c.has == .Y && arch c.node)).length ≤
    (l.filter (fun c => c.file == f && c.has == .Y && arch c.node && c.node != n)).length +
      (if arch n then 1 else 0) := by
  induction l with
  | nil => simp
  | cons a as ih =>
    rw [List.pairwise_cons] at hp
    obtain ⟨ha, hp⟩ := hp
    have ih := ih hp
    by_cases hk : a.file = f ∧ a.node = n
    · obtain ⟨h1, h2⟩ := hk
      have hno : ∀ c ∈ as, ¬ (c.file = f ∧ c.node = n) := by
        intro c hc hcc
        exact ha c hc ⟨h1.trans hcc.1.symm, h2.trans hcc.2.symm⟩
      have heq := filter_elsewhere_eq arch f n as hno
      simp only [List.filter_cons]
      rw [← heq]
      subst h1 h2
      cases hh : (a.has == Has.Y) <;> cases harch : arch a.node <;> simp
    · have hpa : (a.file == f && a.has == .Y && arch a.node && a.node != n) =
          (a.file == f && a.has == .Y && arch a.node) := by
        by_cases h1 : a.file = f
        · have h2 : a.node ≠ n := fun h2 => hk ⟨h1, h2⟩
          simp [h2]
        · simp [h1]
      simp only [List.filter_cons, hpa]
      split
      · simp only [List.length_cons]; omega
      · exact ih

theorem archiveCount_le (w : World) (hu : w.UniqueCopies) (f n : Nat) :
    w.archiveCount f ≤ w.archiveCountElsewhere f n + (if w.isArchive n then 1 else 0) :=
  count_le_elsewhere w.isArchive f n w.copies hu

/-! ### membership in mapped copy tables -/

theorem mem_mapCopy {w : World} {id : Nat} {g : WCopy → WCopy} {x : WCopy} :
    x ∈ (w.mapCopy id g).copies ↔ ∃ y ∈ w.copies, x = if y.id == id then g y else y := by
  unfold mapCopy
  simp only [List.mem_map]
  constructor
  · rintro ⟨y, hy, rfl⟩; exact ⟨y, hy, rfl⟩
  · rintro ⟨y, hy, rfl⟩; exact ⟨y, hy, rfl⟩

/-! ### the unique (file, node) index -/

/-- well-formed copy table: unique (file, node) and every id below the id counter -/
def WF (w : World) : Prop := w.UniqueCopies ∧ ∀ c ∈ w.copies, c.id < w.nextId

theorem find?_key_of_mem (l : List WCopy)
    (hp : l.Pairwise (fun a b => ¬ (a.file = b.file ∧ a.node = b.node))) (x : WCopy) (hx : x ∈ l) :
    l.find? (fun c => c.file == x.file && c.node == x.node) = some x := by
  induction l with
  | nil => cases hx
  | cons a as ih =>
    rw [List.pairwise_cons] at hp
    rcases List.mem_cons.mp hx with rfl | hx'
    · simp
    · have hne := hp.1 x hx'
      have : (a.file == x.file && a.node == x.node) = false := by
        simp only [Bool.and_eq_false_iff, beq_eq_false_iff_ne]
        by_cases h1 : a.file = x.file
        · exact Or.inr (fun h2 => hne ⟨h1, h2⟩)
        · exact Or.inl h1
      simp only [List.find?_cons, this]
      exact ih hp.2 hx'

theorem copyAt_of_mem (w : World) (hu : w.UniqueCopies) (x : WCopy) (hx : x ∈ w.copies) :
    w.copyAt x.file x.node = some x := find?_key_of_mem w.copies hu x hx

theorem filecopyState_of_mem (w : World) (hu : w.UniqueCopies) (x : WCopy) (hx : x ∈ w.copies) :
    w.filecopyState x.file x.node = x.has := by
  unfold filecopyState; rw [copyAt_of_mem w hu x hx]

theorem copyAt_some {w : World} {f n : Nat} {c : WCopy} (h : w.copyAt f n = some c) :
    c ∈ w.copies ∧ c.file = f ∧ c.node = n := by
  unfold copyAt at h
  have h1 := List.mem_of_find?_eq_some h
  have h2 := List.find?_some h
  simp only [Bool.and_eq_true, beq_iff_eq] at h2
  exact ⟨h1, h2.1, h2.2⟩

theorem copyAt_none {w : World} {f n : Nat} (h : w.copyAt f n = none) :
    ∀ c ∈ w.copies, ¬ (c.file = f ∧ c.node = n) := by
  unfold copyAt at h
  rw [List.find?_eq_none] at h
  intro c hc hk
  exact h c hc (by simp [hk.1, hk.2])

theorem pairwise_map_key (l : List WCopy) (g : WCopy → WCopy)
    (h : ∀ c ∈ l, (g c).file = c.file ∧ (g c).node = c.node)
    (hp : l.Pairwise (fun a b => ¬ (a.file = b.file ∧ a.node = b.node))) :
    (l.map g).Pairwise (fun a b => ¬ (a.file = b.file ∧ a.node = b.node)) := by
  rw [List.pairwise_map]
  refine List.Pairwise.imp_of_mem ?_ hp
  intro a b ha hb hab
  rw [(h a ha).1, (h a ha).2, (h b hb).1, (h b hb).2]
  exact hab

theorem WF_of_copies_eq {w w' : World} (hc : w'.copies = w.copies) (hn : w.nextId ≤ w'.nextId)
    (h : w.WF) : w'.WF := by
  refine ⟨?_, ?_⟩
  · unfold UniqueCopies; rw [hc]; exact h.1
  · intro c hcm; rw [hc] at hcm; exact Nat.lt_of_lt_of_le (h.2 c hcm) hn

theorem WF_map {w w' : World} (g : WCopy → WCopy) (hc : w'.copies = w.copies.map g)
    (hn : w.nextId ≤ w'.nextId)
    (hg : ∀ c ∈ w.copies, (g c).file = c.file ∧ (g c).node = c.node ∧ (g c).id = c.id)
    (h : w.WF) : w'.WF := by
  refine ⟨?_, ?_⟩
  · unfold UniqueCopies; rw [hc]
    exact pairwise_map_key _ g (fun c hcm => ⟨(hg c hcm).1, (hg c hcm).2.1⟩) h.1
  · intro c hcm; rw [hc] at hcm
    obtain ⟨y, hy, rfl⟩ := List.mem_map.mp hcm
    rw [(hg y hy).2.2]
    exact Nat.lt_of_lt_of_le (h.2 y hy) hn

theorem WF_mapCopy {w : World} (id : Nat) (g : WCopy → WCopy)
    (hg : ∀ c ∈ w.copies, c.id = id → (g c).file = c.file ∧ (g c).node = c.node ∧ (g c).id = c.id)
    (h : w.WF) : (w.mapCopy id g).WF := by
  refine WF_map (fun c => if c.id == id then g c else c) rfl (Nat.le_refl _) ?_ h
  intro c hc
  by_cases hid : c.id = id
  · have hb : (c.id == id) = true := by simp [hid]
    simp only [hb, if_true]; exact hg c hc hid
  · simp [hid]

theorem WF_append {w : World} (f n : Nat) (hs : Has) (wn : Wants) (rd : Bool)
    (hnone : w.copyAt f n = none) (h : w.WF) :
    WF { w with copies := w.copies ++ [⟨w.nextId, f, n, hs, wn, rd⟩], nextId := w.nextId + 1 } := by
  refine ⟨?_, ?_⟩
  · show List.Pairwise _ (w.copies ++ [_])
    rw [List.pairwise_append]
    refine ⟨h.1, List.pairwise_singleton _ _, ?_⟩
    intro a ha b hb
    rw [List.mem_singleton] at hb
    subst hb
    exact copyAt_none hnone a ha
  · intro c hc
    show c.id < w.nextId + 1
    rcases List.mem_append.mp hc with hc | hc
    · exact Nat.lt_succ_of_lt (h.2 c hc)
    · rw [List.mem_singleton] at hc; subst hc; exact Nat.lt_succ_self _

theorem WF_upsertHealthy {w : World} (f n : Nat) (h : w.WF) : (w.upsertHealthy f n).WF := by
  unfold upsertHealthy
  split
  · exact WF_mapCopy _ _ (fun _ _ _ => ⟨rfl, rfl, rfl⟩) h
  · rename_i hnone
    exact WF_append f n .Y .Y true hnone h

/-! ### `applyPostAdd` -/

/-- what `applyPostAdd` does to one copy row -/
def paRow (pcs : List PCopy) (c : WCopy) : WCopy :=
  match pcs.find? (·.id == c.id) with
  | some p => { c with wants := p.wants }
  | none => c

theorem paRow_frame (pcs : List PCopy) (c : WCopy) :
    (paRow pcs c).file = c.file ∧ (paRow pcs c).node = c.node ∧ (paRow pcs c).id = c.id ∧
    (paRow pcs c).has = c.has ∧ (paRow pcs c).ready = c.ready := by
  unfold paRow; split <;> simp

theorem applyPostAdd_disk (w : World) (n f : Nat) : (w.applyPostAdd n f).1.disk = w.disk := rfl

theorem applyPostAdd_copies (w : World) (n f : Nat) :
    (w.applyPostAdd n f).1.copies =
      w.copies.map (paRow (postAdd w.toPNodes w.edges w.toPCopies n f).2) := rfl

theorem foldl_nextId (qs : List PReq) (acc : List WReq × Nat) :
    (qs.foldl (fun (acc : List WReq × Nat) q =>
      (acc.1 ++ [⟨acc.2, q.file, q.nodeFrom, q.groupTo, false, false⟩], acc.2 + 1)) acc).2 =
    acc.2 + qs.length := by
  induction qs generalizing acc with
  | nil => rfl
  | cons q qs ih => simp only [List.foldl_cons, ih, List.length_cons]; omega

theorem applyPostAdd_nextId (w : World) (n f : Nat) :
    (w.applyPostAdd n f).1.nextId =
      w.nextId + (postAdd w.toPNodes w.edges w.toPCopies n f).1.length :=
  foldl_nextId _ _

theorem WF_applyPostAdd {w : World} (n f : Nat) (h : w.WF) : (w.applyPostAdd n f).1.WF := by
  refine WF_map _ (applyPostAdd_copies w n f) ?_ ?_ h
  · rw [applyPostAdd_nextId]; omega
  · intro c _
    have := paRow_frame (postAdd w.toPNodes w.edges w.toPCopies n f).2 c
    exact ⟨this.1, this.2.1, this.2.2.1⟩

/-! ### every step preserves well-formedness -/

theorem WF_setDisk {w : World} (n f : Nat) (c : Option OnDisk) (h : w.WF) : (w.setDisk n f c).WF :=
  WF_of_copies_eq rfl (Nat.le_refl _) h

theorem WF_mapReq {w : World} (id : Nat) (g : WReq → WReq) (h : w.WF) : (w.mapReq id g).WF :=
  WF_of_copies_eq rfl (Nat.le_refl _) h

theorem WF_pullTask {w : World} (r : WReq) (dest : Nat) (t : Transfer) (h : w.WF) :
    (w.pullTask r dest t).1.WF := by
  unfold pullTask
  split
  · exact WF_mapReq _ _ h
  · cases t with
    | noRoute => exact h
    | failedNoCheck => exact WF_setDisk _ _ _ h
    | failedCheckSrc =>
      dsimp only
      split
      · exact WF_mapCopy _ _ (fun _ _ _ => ⟨rfl, rfl, rfl⟩) (WF_setDisk _ _ _ h)
      · exact WF_setDisk _ _ _ h
    | digestMismatch =>
      dsimp only
      split
      · exact WF_mapCopy _ _ (fun _ _ _ => ⟨rfl, rfl, rfl⟩) (WF_setDisk _ _ _ h)
      · exact WF_setDisk _ _ _ h
    | ok =>
      dsimp only
      split
      · exact h
      · exact WF_applyPostAdd _ _ (WF_mapReq _ _ (WF_upsertHealthy _ _ (WF_setDisk _ _ _ h)))

/-- side condition on a step: the row captured by a check task still has the (file, node)
    of the stored row with the same id (rows never change file or node in the real index) -/
def OpWF (w : World) : WOp → Prop
  | .check snap _ => ∀ x ∈ w.copies, x.id = snap.id → x.file = snap.file ∧ x.node = snap.node
  | _ => True

theorem WF_wstep {w : World} (op : WOp) (hop : OpWF w op) (h : w.WF) : (w.wstep op).1.WF := by
  cases op with
  | deleteOne c uf =>
    show (w.deleteOne c uf).1.WF
    unfold deleteOne
    split
    · exact h
    · split
      · exact h
      · exact WF_mapCopy _ _ (fun _ _ _ => ⟨rfl, rfl, rfl⟩) (WF_setDisk _ _ _ h)
  | check snap ok =>
    show (w.checkStep snap ok).1.WF
    unfold checkStep
    dsimp only
    split
    · exact h
    · refine WF_mapCopy _ _ ?_ h
      intro c hc hid
      have := hop c hc hid
      exact ⟨this.1.symm, this.2.symm, hid.symm⟩
  | decide r sr =>
    show (w.applyDecision r (w.updatePull r sr)).1.WF
    unfold applyDecision
    split
    · exact WF_mapReq _ _ h
    · exact WF_mapReq _ _ h
    · exact h
  | search r d od =>
    show (w.groupSearch r d od).1.WF
    unfold groupSearch
    split
    · exact WF_mapReq _ _ h
    · exact WF_mapReq _ _ h
    · split
      · split
        · exact WF_mapCopy _ _ (fun _ _ _ => ⟨rfl, rfl, rfl⟩) h
        · rename_i hnone
          exact WF_append _ _ _ _ _ hnone h
      · exact h
  | pull r d t => exact WF_pullTask r d t h
  | opSetCopy id hs wn => exact WF_mapCopy _ _ (fun _ _ _ => ⟨rfl, rfl, rfl⟩) h
  | opAddReq f nf gt => exact WF_of_copies_eq (w := w) rfl (Nat.le_succ _) h
  | opCancelReq id => exact WF_mapReq _ _ h
  | opAddCopy f n hs wn =>
    show (match w.copyAt f n with
      | some _ => (w, [])
      | none => ({ w with copies := w.copies ++ [(⟨w.nextId, f, n, hs, wn, true⟩ : WCopy)], nextId := w.nextId + 1 }, ([] : List Eff))).1.WF
    split
    · exact h
    · rename_i hnone
      exact WF_append _ _ _ _ _ hnone h
  | fault n f c => exact WF_setDisk _ _ _ h
  | measure n a => exact WF_of_copies_eq (w := w) rfl (Nat.le_refl _) h

/-! ### storage effects and the disk frame of a step -/

end World

/-- effects that touch bytes -/
def Eff.storage : Eff → Bool
  | .unlink .. => true
  | .write .. => true
  | _ => false

namespace World

theorem applyPostAdd_no_storage (w : World) (n f : Nat) :
    ∀ e ∈ (w.applyPostAdd n f).2, e.storage = false := by
  intro e he
  have he' : e ∈ (postAdd w.toPNodes w.edges w.toPCopies n f).1.map
        (fun q => Eff.newReq q.file q.nodeFrom q.groupTo) ++
      (w.copies.filter (fun c => ((postAdd w.toPNodes w.edges w.toPCopies n f).2.find?
        (·.id == c.id)).any (fun p => p.wants != c.wants))).map (fun c => Eff.setCopy c.id c.has .N) := he
  rcases List.mem_append.mp he' with h | h
  · obtain ⟨q, _, rfl⟩ := List.mem_map.mp h; rfl
  · obtain ⟨q, _, rfl⟩ := List.mem_map.mp h; rfl

theorem deleteOne_storage (w : World) (c : WCopy) (uf : Bool) (e : Eff)
    (he : e ∈ (w.deleteOne c uf).2) (hs : e.storage = true) : e = .unlink c.node c.file := by
  unfold deleteOne at he
  split at he
  · simp at he
  · split at he
    · simp at he
    · rcases List.mem_append.mp he with h | h
      · split at h
        · simpa using h
        · simp at h
      · rw [List.mem_singleton] at h; subst h; simp [Eff.storage] at hs

theorem pullTask_storage (w : World) (r : WReq) (dest : Nat) (t : Transfer) (e : Eff)
    (he : e ∈ (w.pullTask r dest t).2) (hs : e.storage = true) :
    w.filecopyState r.file dest ≠ .Y ∧ (e = .unlink dest r.file ∨ ∃ b, e = .write dest r.file b) := by
  unfold pullTask at he
  split at he
  · rw [List.mem_singleton] at he; subst he; simp [Eff.storage] at hs
  · rename_i hne
    have hne' : w.filecopyState r.file dest ≠ .Y := by simpa using hne
    refine ⟨hne', ?_⟩
    cases t with
    | noRoute => simp at he
    | failedNoCheck =>
      dsimp only at he
      split at he
      · left; simpa using he
      · simp at he
    | failedCheckSrc =>
      dsimp only at he
      rcases List.mem_append.mp he with h | h
      · split at h
        · left; simpa using h
        · simp at h
      · rw [List.mem_singleton] at h; subst h; simp [Eff.storage] at hs
    | digestMismatch =>
      dsimp only at he
      rcases List.mem_append.mp he with h | h
      · split at h
        · left; simpa using h
        · simp at h
      · rw [List.mem_singleton] at h; subst h; simp [Eff.storage] at hs
    | ok =>
      dsimp only at he
      split at he
      · simp at he
      · rename_i bytes _
        rcases List.mem_append.mp he with h | h
        · simp only [List.mem_cons, List.not_mem_nil, or_false] at h
          rcases h with rfl | rfl | rfl
          · exact Or.inr ⟨bytes, rfl⟩
          · simp [Eff.storage] at hs
          · simp [Eff.storage] at hs
        · have := applyPostAdd_no_storage _ _ _ e h
          rw [this] at hs; cases hs

/-- the only storage effects of a step: the unlink of a delete step, and the unlink / write of
    a pull step onto a destination whose copy is not recorded healthy -/
theorem wstep_storage (w : World) (op : WOp) (e : Eff) (he : e ∈ (w.wstep op).2)
    (hs : e.storage = true) :
    (∃ c uf, op = .deleteOne c uf ∧ e = .unlink c.node c.file) ∨
    (∃ r d t, op = .pull r d t ∧ w.filecopyState r.file d ≠ .Y ∧
      (e = .unlink d r.file ∨ ∃ b, e = .write d r.file b)) := by
  cases op with
  | deleteOne c uf => exact Or.inl ⟨c, uf, rfl, deleteOne_storage w c uf e he hs⟩
  | pull r d t => exact Or.inr ⟨r, d, t, rfl, pullTask_storage w r d t e he hs⟩
  | check snap ok =>
    exfalso
    change e ∈ (w.checkStep snap ok).2 at he
    unfold checkStep at he
    dsimp only at he
    split at he
    · simp at he
    · rw [List.mem_singleton] at he; subst he; simp [Eff.storage] at hs
  | decide r sr =>
    exfalso
    change e ∈ (w.applyDecision r (w.updatePull r sr)).2 at he
    unfold applyDecision at he
    split at he
    · rw [List.mem_singleton] at he; subst he; simp [Eff.storage] at hs
    · rw [List.mem_singleton] at he; subst he; simp [Eff.storage] at hs
    · simp at he
  | search r d od =>
    exfalso
    change e ∈ (w.groupSearch r d od).2.1 at he
    unfold groupSearch at he
    split at he
    · rw [List.mem_singleton] at he; subst he; simp [Eff.storage] at hs
    · rw [List.mem_singleton] at he; subst he; simp [Eff.storage] at hs
    · split at he
      · split at he
        · rw [List.mem_singleton] at he; subst he; simp [Eff.storage] at hs
        · rw [List.mem_singleton] at he; subst he; simp [Eff.storage] at hs
      · simp at he
  | opSetCopy id hs' wn => simp [wstep] at he
  | opAddReq f nf gt => simp [wstep] at he
  | opCancelReq id => simp [wstep] at he
  | opAddCopy f n hs' wn =>
    exfalso
    simp only [wstep] at he
    split at he <;> simp at he
  | fault n f c => simp [wstep] at he
  | measure n a => simp [wstep] at he

theorem upsertHealthy_disk (w : World) (f n : Nat) : (w.upsertHealthy f n).disk = w.disk := by
  unfold upsertHealthy; split <;> rfl

theorem pullTask_disk_ok (w : World) (r : WReq) (dest : Nat) (bytes : OnDisk) :
    (((((w.setDisk dest r.file (some bytes)).upsertHealthy r.file dest).mapReq r.id
      (fun x => { x with completed := true })).applyPostAdd dest r.file).1).disk =
    (w.setDisk dest r.file (some bytes)).disk := by
  rw [applyPostAdd_disk, mapReq_disk, upsertHealthy_disk]

theorem pullTask_diskAt (w : World) (r : WReq) (dest : Nat) (t : Transfer) (n f : Nat) :
    (w.pullTask r dest t).1.diskAt n f = w.diskAt n f ∨
    (w.filecopyState r.file dest ≠ .Y ∧ (n, f) = (dest, r.file)) := by
  unfold pullTask
  split
  · exact Or.inl rfl
  · rename_i hne
    have hne' : w.filecopyState r.file dest ≠ .Y := by simpa using hne
    by_cases hk : (n, f) = (dest, r.file)
    · exact Or.inr ⟨hne', hk⟩
    · left
      cases t with
      | noRoute => rfl
      | failedNoCheck => dsimp only; rw [diskAt_setDisk, if_neg hk]
      | failedCheckSrc =>
        dsimp only
        split
        · rw [diskAt_congr (mapCopy_disk ..), diskAt_setDisk, if_neg hk]
        · rw [diskAt_setDisk, if_neg hk]
      | digestMismatch =>
        dsimp only
        split
        · rw [diskAt_congr (mapCopy_disk ..), diskAt_setDisk, if_neg hk]
        · rw [diskAt_setDisk, if_neg hk]
      | ok =>
        dsimp only
        split
        · rfl
        · rw [diskAt_congr (pullTask_disk_ok ..), diskAt_setDisk, if_neg hk]

/-- disk frame of a step that is neither an external fault nor a delete step -/
theorem wstep_diskAt (w : World) (op : WOp) (hnf : ∀ n f c, op ≠ .fault n f c)
    (hnd : ∀ c uf, op ≠ .deleteOne c uf) (n f : Nat) :
    (w.wstep op).1.diskAt n f = w.diskAt n f ∨
    (∃ r d t, op = .pull r d t ∧ w.filecopyState r.file d ≠ .Y ∧ (n, f) = (d, r.file)) := by
  cases op with
  | deleteOne c uf => exact absurd rfl (hnd c uf)
  | fault n' f' c => exact absurd rfl (hnf n' f' c)
  | pull r d t =>
    rcases pullTask_diskAt w r d t n f with h | h
    · exact Or.inl h
    · exact Or.inr ⟨r, d, t, rfl, h⟩
  | check snap ok =>
    left
    apply diskAt_congr
    show (w.checkStep snap ok).1.disk = w.disk
    unfold checkStep
    dsimp only
    split <;> rfl
  | decide r sr =>
    left
    apply diskAt_congr
    show (w.applyDecision r (w.updatePull r sr)).1.disk = w.disk
    unfold applyDecision
    split <;> rfl
  | search r d od =>
    left
    apply diskAt_congr
    show (w.groupSearch r d od).1.disk = w.disk
    unfold groupSearch
    split
    · rfl
    · rfl
    · split
      · split <;> rfl
      · rfl
  | opSetCopy id hs' wn => exact Or.inl rfl
  | opAddReq f nf gt => exact Or.inl rfl
  | opCancelReq id => exact Or.inl rfl
  | opAddCopy f' n' hs' wn =>
    left
    apply diskAt_congr
    simp only [wstep]
    split <;> rfl
  | measure n' a => exact Or.inl rfl

/-! ### frame of a measurement step: only `availKiB` of the measured node changes -/

/-- what a measurement does to one node row -/
def measRow (n : Nat) (a : Option Int) (x : WNode) : WNode := if x.id == n then { x with availKiB := a } else x

theorem measRow_frame (n : Nat) (a : Option Int) (x : WNode) :
    (measRow n a x).id = x.id ∧ (measRow n a x).group = x.group ∧ (measRow n a x).host = x.host ∧
    (measRow n a x).active = x.active ∧ (measRow n a x).stype = x.stype ∧ (measRow n a x).minKiB = x.minKiB ∧
    (measRow n a x).maxKiB = x.maxKiB ∧ (measRow n a x).hasRoute = x.hasRoute := by
  unfold measRow; split <;> simp

theorem wstep_measure_eq (w : World) (n : Nat) (a : Option Int) :
    w.wstep (.measure n a) = ({ w with nodes := w.nodes.map (measRow n a) }, []) := rfl

@[simp] theorem wstep_measure_effs (w : World) (n : Nat) (a : Option Int) : (w.wstep (.measure n a)).2 = [] := rfl
@[simp] theorem wstep_measure_nodes (w : World) (n : Nat) (a : Option Int) :
    (w.wstep (.measure n a)).1.nodes = w.nodes.map (measRow n a) := rfl
@[simp] theorem wstep_measure_files (w : World) (n : Nat) (a : Option Int) : (w.wstep (.measure n a)).1.files = w.files := rfl
@[simp] theorem wstep_measure_copies (w : World) (n : Nat) (a : Option Int) : (w.wstep (.measure n a)).1.copies = w.copies := rfl
@[simp] theorem wstep_measure_reqs (w : World) (n : Nat) (a : Option Int) : (w.wstep (.measure n a)).1.reqs = w.reqs := rfl
@[simp] theorem wstep_measure_edges (w : World) (n : Nat) (a : Option Int) : (w.wstep (.measure n a)).1.edges = w.edges := rfl
@[simp] theorem wstep_measure_disk (w : World) (n : Nat) (a : Option Int) : (w.wstep (.measure n a)).1.disk = w.disk := rfl
@[simp] theorem wstep_measure_reserved (w : World) (n : Nat) (a : Option Int) :
    (w.wstep (.measure n a)).1.reserved = w.reserved := rfl
@[simp] theorem wstep_measure_nextId (w : World) (n : Nat) (a : Option Int) : (w.wstep (.measure n a)).1.nextId = w.nextId := rfl

theorem node?_measure (w : World) (n : Nat) (a : Option Int) (m : Nat) :
    (w.wstep (.measure n a)).1.node? m = (w.node? m).map (measRow n a) := by
  unfold node?
  rw [wstep_measure_nodes, List.find?_map]
  congr 1
  apply find?_congr'
  intro x _
  simp only [Function.comp, (measRow_frame n a x).1]

theorem isArchive_measure (w : World) (n : Nat) (a : Option Int) (m : Nat) :
    (w.wstep (.measure n a)).1.isArchive m = w.isArchive m := by
  unfold isArchive
  rw [node?_measure]
  cases w.node? m with
  | none => rfl
  | some x => simp only [Option.map_some, (measRow_frame n a x).2.2.2.2.1]

theorem groupOfNode_measure (w : World) (n : Nat) (a : Option Int) (m : Nat) :
    (w.wstep (.measure n a)).1.groupOfNode m = w.groupOfNode m := by
  unfold groupOfNode
  rw [node?_measure]
  cases w.node? m with
  | none => rfl
  | some x => simp only [Option.map_some, (measRow_frame n a x).2.1]

theorem copyAt_measure (w : World) (n : Nat) (a : Option Int) (f m : Nat) :
    (w.wstep (.measure n a)).1.copyAt f m = w.copyAt f m := rfl

theorem diskAt_measure (w : World) (n : Nat) (a : Option Int) (m f : Nat) :
    (w.wstep (.measure n a)).1.diskAt m f = w.diskAt m f := rfl

theorem filecopyState_measure (w : World) (n : Nat) (a : Option Int) (f m : Nat) :
    (w.wstep (.measure n a)).1.filecopyState f m = w.filecopyState f m := rfl

theorem archiveCount_measure (w : World) (n : Nat) (a : Option Int) (f : Nat) :
    (w.wstep (.measure n a)).1.archiveCount f = w.archiveCount f := by
  unfold archiveCount
  rw [wstep_measure_copies]
  congr 1
  apply List.filter_congr
  intro c _
  rw [isArchive_measure]

theorem groupState_measure (w : World) (n : Nat) (a : Option Int) (g f : Nat) :
    (w.wstep (.measure n a)).1.groupState g f = w.groupState g f := by
  unfold groupState
  rw [wstep_measure_copies]
  have : w.copies.filter (fun c => c.file == f && (w.wstep (.measure n a)).1.groupOfNode c.node == some g) =
      w.copies.filter (fun c => c.file == f && w.groupOfNode c.node == some g) := by
    apply List.filter_congr
    intro c _
    rw [groupOfNode_measure]
  simp only [this]

/-! ### unique copy ids (needed to follow one row through `applyPostAdd`) -/

/-- copy ids are unique and below the id counter -/
def IdsWF (w : World) : Prop := (w.copies.map (·.id)).Nodup ∧ ∀ c ∈ w.copies, c.id < w.nextId

theorem eq_of_id_eq (l : List WCopy) (hn : (l.map (·.id)).Nodup) {a b : WCopy}
    (ha : a ∈ l) (hb : b ∈ l) (h : a.id = b.id) : a = b := by
  induction l with
  | nil => cases ha
  | cons x xs ih =>
    rw [List.map_cons, List.nodup_cons] at hn
    rcases List.mem_cons.mp ha with rfl | ha' <;> rcases List.mem_cons.mp hb with rfl | hb'
    · rfl
    · exact absurd (List.mem_map.mpr ⟨b, hb', h.symm⟩) hn.1
    · exact absurd (List.mem_map.mpr ⟨a, ha', h⟩) hn.1
    · exact ih hn.2 ha' hb'

theorem IdsWF_of_copies_eq {w w' : World} (hc : w'.copies = w.copies) (hn : w'.nextId = w.nextId)
    (h : w.IdsWF) : w'.IdsWF := by
  unfold IdsWF; rw [hc, hn]; exact h

theorem IdsWF_upsertHealthy {w : World} (f n : Nat) (h : w.IdsWF) : (w.upsertHealthy f n).IdsWF := by
  unfold upsertHealthy
  split
  · rename_i c _
    refine ⟨?_, ?_⟩
    · have : (w.mapCopy c.id (fun x => { x with has := .Y, wants := .Y, ready := true })).copies.map (·.id)
          = w.copies.map (·.id) := by
        unfold mapCopy
        simp only [List.map_map]
        apply List.map_congr_left
        intro a _
        simp only [Function.comp]
        split <;> rfl
      rw [this]; exact h.1
    · intro x hx
      obtain ⟨y, hy, rfl⟩ := mem_mapCopy.mp hx
      have := h.2 y hy
      split <;> exact this
  · refine ⟨?_, ?_⟩
    · show ((w.copies ++ [(⟨w.nextId, f, n, .Y, .Y, true⟩ : WCopy)]).map (·.id)).Nodup
      rw [List.map_append, List.nodup_append]
      refine ⟨h.1, by simp, ?_⟩
      intro a ha b hb
      obtain ⟨y, hy, rfl⟩ := List.mem_map.mp ha
      simp only [List.map_cons, List.map_nil, List.mem_singleton] at hb
      subst hb
      exact Nat.ne_of_lt (h.2 y hy)
    · intro c hc
      show c.id < w.nextId + 1
      rcases List.mem_append.mp hc with hc | hc
      · exact Nat.lt_succ_of_lt (h.2 c hc)
      · rw [List.mem_singleton] at hc; subst hc; exact Nat.lt_succ_self _

theorem upsertHealthy_row (w : World) (f n : Nat) :
    ∃ c ∈ (w.upsertHealthy f n).copies, c.file = f ∧ c.node = n ∧ c.has = .Y ∧ c.wants = .Y ∧
      c.ready = true := by
  unfold upsertHealthy
  split
  · rename_i c hc
    obtain ⟨hm, hf, hn⟩ := copyAt_some hc
    refine ⟨{ c with has := .Y, wants := .Y, ready := true }, ?_, hf, hn, rfl, rfl, rfl⟩
    exact mem_mapCopy.mpr ⟨c, hm, by simp⟩
  · exact ⟨⟨w.nextId, f, n, .Y, .Y, true⟩, List.mem_append_right _ (List.mem_singleton.mpr rfl),
      rfl, rfl, rfl, rfl, rfl⟩

theorem releaseIf_id (srcs : List Nat) (file : Nat) (c : PCopy) : (releaseIf srcs file c).id = c.id := by
  unfold releaseIf; split <;> rfl

/-- `post_add` for node `n` never touches a row of node `n` itself (autoclean rules out of `n`
    are excluded), provided copy ids are unique -/
theorem applyPostAdd_keeps (w : World) (n f : Nat) (hn : (w.copies.map (·.id)).Nodup)
    (c : WCopy) (hc : c ∈ w.copies) (hcn : c.node = n) : c ∈ (w.applyPostAdd n f).1.copies := by
  rw [applyPostAdd_copies]
  refine List.mem_map.mpr ⟨c, hc, ?_⟩
  unfold paRow
  split
  · rename_i p hfind
    have hpm := List.mem_of_find?_eq_some hfind
    have hpid : p.id = c.id := by simpa using List.find?_some hfind
    have hpm' : p ∈ w.toPCopies.map (releaseIf ((cleanEdges w.toPNodes w.edges n).map (·.nodeFrom)) f) := hpm
    obtain ⟨q, hq, rfl⟩ := List.mem_map.mp hpm'
    unfold toPCopies at hq
    obtain ⟨c0, hc0, rfl⟩ := List.mem_map.mp hq
    rw [releaseIf_id] at hpid
    have h0 : c0 = c := eq_of_id_eq w.copies hn hc0 hc hpid
    subst h0
    rw [releaseIf_skips]
    rintro ⟨_, _, _, hcont⟩
    obtain ⟨e, _, _, _, _, hne, heq⟩ := (mem_cleanSrcs _ _ _ _).mp hcont
    exact hne (heq.trans hcn)
  · rfl

/-! ### shape of a pull step -/

/-- index state just before `post_add` in a successful pull -/
def pullOkPre (w : World) (r : WReq) (dest : Nat) (bytes : OnDisk) : World :=
  (((w.setDisk dest r.file (some bytes)).upsertHealthy r.file dest).mapReq r.id
      (fun x => { x with completed := true }))

theorem pullOkPre_disk (w : World) (r : WReq) (dest : Nat) (bytes : OnDisk) :
    ((pullOkPre w r dest bytes).applyPostAdd dest r.file).1.disk =
      (w.setDisk dest r.file (some bytes)).disk := pullTask_disk_ok w r dest bytes

/-- the world after a failed transfer: destination path cleared, source flagged when `chk` -/
def pullFailWorld (w : World) (r : WReq) (dest : Nat) (chk : Bool) : World :=
  if chk then
    match (w.setDisk dest r.file none).copyAt r.file r.nodeFrom with
    | some c => (w.setDisk dest r.file none).mapCopy c.id (fun x => { x with has := .M })
    | none => w.setDisk dest r.file none
  else w.setDisk dest r.file none

def Transfer.checksSrc : Transfer → Bool
  | .failedCheckSrc | .digestMismatch => true
  | _ => false

theorem pullTask_fail_eq (w : World) (r : WReq) (dest : Nat) (t : Transfer)
    (hd : w.filecopyState r.file dest ≠ .Y) (ht : t ≠ .ok) (hr : t ≠ .noRoute) :
    w.pullTask r dest t =
      (pullFailWorld w r dest t.checksSrc,
       (if (w.diskAt dest r.file).isSome then [Eff.unlink dest r.file] else []) ++
         (if t.checksSrc then [.sourceSuspect r.file r.nodeFrom] else [])) := by
  have hd' : ¬ ((w.filecopyState r.file dest == .Y) = true) := by simpa using hd
  unfold pullTask
  rw [if_neg hd']
  cases t with
  | ok => exact absurd rfl ht
  | noRoute => exact absurd rfl hr
  | failedNoCheck => simp [pullFailWorld, Transfer.checksSrc]
  | failedCheckSrc => simp only [pullFailWorld, Transfer.checksSrc, if_true]; rfl
  | digestMismatch => simp only [pullFailWorld, Transfer.checksSrc, if_true]; rfl

theorem pullFailWorld_frame (w : World) (r : WReq) (dest : Nat) (chk : Bool) :
    (pullFailWorld w r dest chk).reqs = w.reqs ∧
    (pullFailWorld w r dest chk).diskAt dest r.file = none ∧
    (∀ c ∈ (pullFailWorld w r dest chk).copies, c.has = .Y → ∃ c0 ∈ w.copies, c0.id = c.id ∧ c0.has = .Y) := by
  have hbase : (w.setDisk dest r.file none).diskAt dest r.file = none := by
    rw [diskAt_setDisk, if_pos rfl]
  unfold pullFailWorld
  split
  · split
    · refine ⟨rfl, ?_, ?_⟩
      · rw [diskAt_congr (mapCopy_disk ..)]; exact hbase
      · intro c hc hY
        obtain ⟨y, hy, rfl⟩ := mem_mapCopy.mp hc
        split at hY
        · cases hY
        · rename_i hne
          rw [if_neg hne]
          exact ⟨y, hy, rfl, hY⟩
    · exact ⟨rfl, hbase, fun c hc hY => ⟨c, hc, rfl, hY⟩⟩
  · exact ⟨rfl, hbase, fun c hc hY => ⟨c, hc, rfl, hY⟩⟩

theorem pullTask_ok_eq (w : World) (r : WReq) (dest : Nat) (bytes : OnDisk)
    (hd : w.filecopyState r.file dest ≠ .Y) (hb : w.diskAt r.nodeFrom r.file = some bytes) :
    w.pullTask r dest .ok =
      (((pullOkPre w r dest bytes).applyPostAdd dest r.file).1,
       [.write dest r.file bytes, .newCopy r.file dest .Y, .reqCompleted r.id] ++
         ((pullOkPre w r dest bytes).applyPostAdd dest r.file).2) := by
  have hd' : ¬ ((w.filecopyState r.file dest == .Y) = true) := by simpa using hd
  unfold pullTask
  rw [if_neg hd']
  simp only [hb]
  rfl

theorem pullTask_completed (w : World) (r : WReq) (dest : Nat) (t : Transfer)
    (h : Eff.reqCompleted r.id ∈ (w.pullTask r dest t).2) :
    t = .ok ∧ w.filecopyState r.file dest ≠ .Y ∧ ∃ bytes, w.diskAt r.nodeFrom r.file = some bytes := by
  unfold pullTask at h
  split at h
  · simp at h
  · rename_i hne
    have hne' : w.filecopyState r.file dest ≠ .Y := by simpa using hne
    cases t with
    | noRoute => simp at h
    | failedNoCheck => dsimp only at h; split at h <;> simp at h
    | failedCheckSrc =>
      dsimp only at h
      rcases List.mem_append.mp h with h | h
      · split at h <;> simp at h
      · simp at h
    | digestMismatch =>
      dsimp only at h
      rcases List.mem_append.mp h with h | h
      · split at h <;> simp at h
      · simp at h
    | ok =>
      dsimp only at h
      split at h
      · simp at h
      · rename_i bytes hb
        exact ⟨rfl, hne', bytes, hb⟩

end World
end Alpen
