import Alpen.Model.Task
/-! Helper lemmas about the task / worker model (`register`, `doCleanup`, `cleanupLoop`,
`workerHandle`). -/
namespace Alpen

theorem register_append (cl : List Nat) (a b : List (Nat × Bool)) :
    register cl (a ++ b) = register (register cl a) b := by
  induction a generalizing cl with
  | nil => rfl
  | cons x xs ih =>
    obtain ⟨i, first⟩ := x
    simp only [List.cons_append, register]
    exact ih _

theorem doCleanup_allOk (cl : List Nat) :
    doCleanup (fun _ => CleanBeh.ok) cl = ([], cl.map TEv.cleanupStarted, CleanBeh.ok) := by
  induction cl with
  | nil => rfl
  | cons c cs ih => simp [doCleanup, ih]

/-- specification of `doCleanup` when no clean-up raises a non-DB exception -/
theorem doCleanup_spec (beh : Nat → CleanBeh) (hbeh : ∀ i, beh i ≠ .otherError) (cl : List Nat) :
    (doCleanup beh cl).2.1 ++ (doCleanup beh cl).1.map TEv.cleanupStarted = cl.map TEv.cleanupStarted ∧
    (doCleanup beh cl).2.2 ≠ .otherError ∧
    ((doCleanup beh cl).2.2 = .ok → (doCleanup beh cl).1 = [] ∧ ∀ i ∈ cl, beh i = .ok) ∧
    ((doCleanup beh cl).2.2 = .dbError →
        (∃ i ∈ cl, beh i = .dbError) ∧ (doCleanup beh cl).1.length < cl.length) := by
  induction cl with
  | nil => simp [doCleanup]
  | cons c cs ih =>
    obtain ⟨ih1, ih2, ih3, ih4⟩ := ih
    cases hc : beh c with
    | ok =>
      simp only [doCleanup, hc]
      refine ⟨by simpa using ih1, ih2, ?_, ?_⟩
      · intro h
        obtain ⟨h1, h2⟩ := ih3 h
        refine ⟨h1, ?_⟩
        intro i hi
        rcases List.mem_cons.1 hi with rfl | hi
        · exact hc
        · exact h2 i hi
      · intro h
        obtain ⟨⟨i, hi, hb⟩, hl⟩ := ih4 h
        exact ⟨⟨i, List.mem_cons_of_mem _ hi, hb⟩, by simp only [List.length_cons]; omega⟩
    | dbError =>
      simp only [doCleanup, hc]
      refine ⟨by simp, by simp, by simp, ?_⟩
      intro _
      exact ⟨⟨c, List.mem_cons_self, hc⟩, by simp⟩
    | otherError => exact absurd hc (hbeh c)

theorem cleanupLoop_spec (beh : Nat → CleanBeh) (hbeh : ∀ i, beh i ≠ .otherError) :
    ∀ (fuel : Nat) (cl : List Nat), cl.length < fuel →
      cleanupLoop beh fuel cl = (cl.map TEv.cleanupStarted, true) := by
  intro fuel
  induction fuel with
  | zero => intro cl h; omega
  | succ fuel ih =>
    intro cl hlen
    obtain ⟨h1, h2, h3, h4⟩ := doCleanup_spec beh hbeh cl
    simp only [cleanupLoop]
    cases hr : (doCleanup beh cl).2.2 with
    | ok =>
      obtain ⟨h5, _⟩ := h3 hr
      rw [h5] at h1
      simp only [List.map_nil, List.append_nil] at h1
      simp only [h1]
    | dbError =>
      obtain ⟨_, h5⟩ := h4 hr
      have := ih (doCleanup beh cl).1 (by omega)
      simp only [this, h1]
    | otherError => exact absurd hr h2

theorem count_started_map (i : Nat) (cl : List Nat) :
    (cl.map TEv.cleanupStarted).count (TEv.cleanupStarted i) = cl.count i := by
  induction cl with
  | nil => rfl
  | cons c cs ih =>
    simp only [List.map_cons, List.count_cons, ih]
    by_cases h : c = i <;> simp [h]

theorem count_of_nodup_mem {α} [DecidableEq α] {l : List α} (hn : l.Nodup) {a : α} (h : a ∈ l) :
    l.count a = 1 := by
  induction l with
  | nil => simp at h
  | cons x xs ih =>
    simp only [List.nodup_cons] at hn
    rcases List.mem_cons.1 h with rfl | h'
    · simp [List.count_eq_zero.2 hn.1]
    · have : x ≠ a := fun e => hn.1 (e ▸ h')
      simp [this, ih hn.2 h']

theorem started_mem_map (i : Nat) (cl : List Nat) :
    TEv.cleanupStarted i ∈ cl.map TEv.cleanupStarted ↔ i ∈ cl := by
  simp

/-- exact description of what the worker does with a task whose current segment is `s`
    (no non-DB exception anywhere) -/
theorem workerHandle_spec (beh : Nat → CleanBeh) (hbeh : ∀ i, beh i ≠ .otherError)
    (t : TaskSt) (s : Seg) (ss : List Seg) (hsegs : t.segs = s :: ss) (hend : s.ending ≠ .otherError) :
    (∀ v, s.ending = .yield v →
        (workerHandle beh t).2 = [.reput t.key t.excl (v.getD 0), .taskDone t.key]) ∧
    ((∀ v, s.ending ≠ .yield v) →
        (workerHandle beh t).1.cleanup = [] ∧
        ((¬ (s.ending = .dbError ∨ (s.ending = .done ∧ ∃ i ∈ register t.cleanup s.regs, beh i = .dbError)) ∧
          (workerHandle beh t).2 =
            (register t.cleanup s.regs).map TEv.cleanupStarted ++ [.taskDone t.key]) ∨
         ((s.ending = .dbError ∨ (s.ending = .done ∧ ∃ i ∈ register t.cleanup s.regs, beh i = .dbError)) ∧
          (workerHandle beh t).2 =
            (register t.cleanup s.regs).map TEv.cleanupStarted ++ [.taskDone t.key] ++
              (if t.requeueFlag then [.requeued t.key t.excl] else []) ++ [.workerExit 1]))) := by
  obtain ⟨h1, h2, h3, h4⟩ := doCleanup_spec beh hbeh (register t.cleanup s.regs)
  cases he : s.ending with
  | yield v =>
    refine ⟨?_, fun h => absurd rfl (h v)⟩
    intro v' hv
    cases hv
    simp [workerHandle, taskCall, hsegs, he]
  | otherError => exact absurd he hend
  | dbError =>
    refine ⟨(by intro v hv; cases hv), fun _ => ?_⟩
    have hl := cleanupLoop_spec beh hbeh ((register t.cleanup s.regs).length + 1)
      (register t.cleanup s.regs) (by omega)
    simp [workerHandle, taskCall, hsegs, he, hl]
  | done =>
    refine ⟨(by intro v hv; cases hv), fun _ => ?_⟩
    cases hr : (doCleanup beh (register t.cleanup s.regs)).2.2 with
    | otherError => exact absurd hr h2
    | ok =>
      obtain ⟨h5, h6⟩ := h3 hr
      rw [h5] at h1
      simp only [List.map_nil, List.append_nil] at h1
      refine ⟨by simp [workerHandle, taskCall, hsegs, he, hr, h5], Or.inl ⟨?_, ?_⟩⟩
      · rintro (h | ⟨_, i, hi, hb⟩)
        · cases h
        · rw [h6 i hi] at hb; cases hb
      · simp [workerHandle, taskCall, hsegs, he, hr, h1]
    | dbError =>
      obtain ⟨h5, h6⟩ := h4 hr
      have hl := cleanupLoop_spec beh hbeh ((doCleanup beh (register t.cleanup s.regs)).1.length + 1)
        (doCleanup beh (register t.cleanup s.regs)).1 (by omega)
      refine ⟨by simp [workerHandle, taskCall, hsegs, he, hr, hl], Or.inr ⟨Or.inr ⟨rfl, h5⟩, ?_⟩⟩
      simp only [workerHandle, taskCall, hsegs, he, hr, hl]
      simp only [← h1, if_true, List.append_assoc]

end Alpen
