import Alpen.Model.Basic
/-
  Model of `UpdateableNode.update_delete` (alpenhorn/daemon/update.py): which copies of a
  node are handed to `io.delete`, in which order and in which batches.  Core Lean only.
-/
namespace Alpen

/-- one row of `ArchiveFileCopy` on the node being cleaned, with the sizes the code looks at -/
structure DCopy where
  id : Nat
  file : Nat
  has : Has
  wants : Wants
  size : Option Nat        -- copy.size_b
  fsize : Option Nat       -- copy.file.size_b
  deriving DecidableEq, Repr

/-- bytes credited against the shortfall when a copy is queued for deletion:
    `copy.size_b` if truthy, else `copy.file.size_b` if truthy, else nothing -/
def credit (c : DCopy) : Nat :=
  if truthy c.size then c.size.getD 0 else if truthy c.fsize then c.fsize.getD 0 else 0

/-- `StorageNode.under_min`: unknown free space is never "under". Space in KiB. -/
def underMin (availKiB : Option Int) (minKiB : Int) : Bool :=
  match availKiB with
  | none => false
  | some a => decide (a < minKiB)

/-- space pressure: under the minimum on a non-archive node -/
def pressure (availKiB : Option Int) (minKiB : Int) (archive : Bool) : Bool :=
  underMin availKiB minKiB && !archive

/-- `int((min_avail_gb - avail_gb) * 2**30)` in bytes, for KiB-exact values -/
def shortfall (availKiB : Option Int) (minKiB : Int) (archive : Bool) : Int :=
  if pressure availKiB minKiB archive then (minKiB - availKiB.getD 0) * 1024 else 0

/-- the SQL filter of the candidate query -/
def candidate (press : Bool) (c : DCopy) : Bool :=
  c.has != .N && (if press then c.wants != .Y else c.wants == .N)

/-- the body of the `for copy in …` loop: state is the remaining shortfall; returns the
    selected copies in order -/
def selectLoop (pending : Nat → Bool) : Int → List DCopy → List DCopy
  | _, [] => []
  | need, c :: cs =>
    if c.wants = .M ∧ need ≤ 0 then selectLoop pending need cs
    else if pending c.file then selectLoop pending need cs
    else
      let need' := if need > 0 then need - credit c else need
      c :: selectLoop pending need' cs

/-- remaining shortfall after processing a prefix (for stating minimality) -/
def needAfter (pending : Nat → Bool) : Int → List DCopy → Int
  | need, [] => need
  | need, c :: cs =>
    if c.wants = .M ∧ need ≤ 0 then needAfter pending need cs
    else if pending c.file then needAfter pending need cs
    else needAfter pending (if need > 0 then need - credit c else need) cs

/-- `update_delete`: copies (id-ordered rows of the node) → copies handed to `io.delete` -/
def selectDelete (availKiB : Option Int) (minKiB : Int) (archive : Bool)
    (pending : Nat → Bool) (copies : List DCopy) : List DCopy :=
  let press := pressure availKiB minKiB archive
  selectLoop pending (shortfall availKiB minKiB archive) (copies.filter (candidate press))

/-- the batching into `io.delete` calls: full groups of 10, then the remainder
    (`fuel` ≥ length suffices) -/
def batchesF : Nat → List DCopy → List (List DCopy)
  | 0, _ => []
  | fuel + 1, l =>
    if l = [] then [] else
    if l.length ≤ 10 then [l] else l.take 10 :: batchesF fuel (l.drop 10)

def batches10 (l : List DCopy) : List (List DCopy) := batchesF l.length l

end Alpen
