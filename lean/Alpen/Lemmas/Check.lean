import Alpen.Model.Check
/-!
  Helper lemmas for C03 (block/chunk loop, incremental hash, digest validator).  Core Lean only.
-/
namespace Alpen

/-! ### `md5Chunk` / `md5Blocks` -/

theorem md5Chunk_zero (bs bpc count : Nat) (rest : Bytes) :
    md5Chunk bs bpc 0 count rest = ([], rest, false) := by
  simp [md5Chunk]

theorem md5Chunk_succ (bs bpc fuel count : Nat) (rest : Bytes) :
    md5Chunk bs bpc (fuel + 1) count rest =
      if rest.take bs = [] then ([], rest, true)
      else if count + 1 ≥ bpc then ([rest.take bs], rest.drop bs, false)
      else (rest.take bs :: (md5Chunk bs bpc fuel (count + 1) (rest.drop bs)).1,
            (md5Chunk bs bpc fuel (count + 1) (rest.drop bs)).2.1,
            (md5Chunk bs bpc fuel (count + 1) (rest.drop bs)).2.2) := by
  rw [md5Chunk]

theorem md5Chunk_feeds (bs bpc fuel : Nat) : ∀ (count : Nat) (rest : Bytes),
    (md5Chunk bs bpc fuel count rest).1.flatten ++ (md5Chunk bs bpc fuel count rest).2.1 = rest := by
  induction fuel with
  | zero => intro count rest; simp [md5Chunk_zero]
  | succ fuel ih =>
    intro count rest
    rw [md5Chunk_succ]
    split
    · simp
    · split
      · simp
      · have := ih (count + 1) (rest.drop bs)
        simp only [List.flatten_cons, List.append_assoc, this, List.take_append_drop]

theorem md5Chunk_rest_le (bs bpc fuel count : Nat) (rest : Bytes) :
    (md5Chunk bs bpc fuel count rest).2.1.length ≤ rest.length := by
  have h := congrArg List.length (md5Chunk_feeds bs bpc fuel count rest)
  rw [List.length_append] at h
  omega

theorem take_eq_nil_pos {bs : Nat} (hbs : 0 < bs) (rest : Bytes) : rest.take bs = [] ↔ rest = [] := by
  cases rest with
  | nil => simp
  | cons a l =>
    cases bs with
    | zero => omega
    | succ n => simp

/-- eof is reported only when the whole rest has been consumed -/
theorem md5Chunk_eof (bs bpc : Nat) (hbs : 0 < bs) (fuel : Nat) : ∀ (count : Nat) (rest : Bytes),
    (md5Chunk bs bpc fuel count rest).2.2 = true → (md5Chunk bs bpc fuel count rest).2.1 = [] := by
  induction fuel with
  | zero => intro count rest; simp [md5Chunk_zero]
  | succ fuel ih =>
    intro count rest
    rw [md5Chunk_succ]
    split
    · rename_i h
      intro _
      exact (take_eq_nil_pos hbs rest).1 h
    · split
      · simp
      · exact ih (count + 1) (rest.drop bs)

/-- a chunk call with fuel that does not report eof made progress -/
theorem md5Chunk_progress (bs bpc : Nat) (hbs : 0 < bs) (fuel count : Nat) (rest : Bytes)
    (h : (md5Chunk bs bpc (fuel + 1) count rest).2.2 = false) :
    (md5Chunk bs bpc (fuel + 1) count rest).2.1.length < rest.length := by
  rw [md5Chunk_succ] at h ⊢
  split at h
  · simp at h
  · rename_i hne
    have hr : rest ≠ [] := fun e => hne ((take_eq_nil_pos hbs rest).2 e)
    have hl : 0 < rest.length := List.length_pos_iff.2 hr
    rw [if_neg hne]
    split
    · simp only [List.length_drop]; omega
    · have := md5Chunk_rest_le bs bpc fuel (count + 1) (rest.drop bs)
      simp only [List.length_drop] at this ⊢
      omega

theorem md5Blocks_flatten (bs bpc : Nat) (hbs : 0 < bs) (hbpc : 0 < bpc) (fuel : Nat) :
    ∀ rest : Bytes, rest.length < fuel → (md5Blocks bs bpc fuel rest).flatten = rest := by
  induction fuel with
  | zero => intro rest h; omega
  | succ fuel ih =>
    intro rest hlen
    obtain ⟨k, rfl⟩ : ∃ k, bpc = k + 1 := ⟨bpc - 1, by omega⟩
    have hfeeds := md5Chunk_feeds bs (k + 1) (k + 1) 0 rest
    have heof := md5Chunk_eof bs (k + 1) hbs (k + 1) 0 rest
    have hprog := md5Chunk_progress bs (k + 1) hbs k 0 rest
    rw [md5Blocks]
    generalize md5Chunk bs (k + 1) (k + 1) 0 rest = X at *
    obtain ⟨bl, r, e⟩ := X
    simp only at hfeeds heof hprog ⊢
    cases e with
    | true =>
      simp only [if_true]
      rw [heof rfl] at hfeeds
      simpa using hfeeds
    | false =>
      simp only [Bool.false_eq_true, if_false, List.flatten_append]
      rw [ih r (by have := hprog rfl; omega)]
      exact hfeeds

theorem md5Blocks_nil (bs bpc : Nat) (hbpc : 0 < bpc) (fuel : Nat) :
    md5Blocks bs bpc (fuel + 1) [] = [] := by
  obtain ⟨k, rfl⟩ : ∃ k, bpc = k + 1 := ⟨bpc - 1, by omega⟩
  rw [md5Blocks, md5Chunk_succ]
  simp

/-! ### incremental hash -/

theorem foldl_update {σ} (H : HashAlg σ) (blocks : List Bytes) : ∀ (s : σ) (a : Bytes),
    blocks.foldl H.update (H.update s a) = H.update s (a ++ blocks.flatten) := by
  induction blocks with
  | nil => intro s a; simp
  | cons b bl ih =>
    intro s a
    rw [List.foldl_cons, H.law, ih, List.flatten_cons, List.append_assoc]

theorem feed_cons {σ} (H : HashAlg σ) (b : Bytes) (bl : List Bytes) :
    H.feed (b :: bl) = H.update H.init (b :: bl).flatten := by
  rw [HashAlg.feed, List.foldl_cons, foldl_update, List.flatten_cons]

theorem feed_of_ne_nil {σ} (H : HashAlg σ) (blocks : List Bytes) (h : blocks.flatten ≠ []) :
    H.feed blocks = H.update H.init blocks.flatten := by
  cases blocks with
  | nil => simp at h
  | cons b bl => exact feed_cons H b bl

/-- an incremental "hash" obeying the law whose `update` by the empty string is not the identity -/
def flagHash : HashAlg (Bool × Bytes) where
  init := (false, [])
  update s a := (true, s.2 ++ a)
  law := by intro s a b; simp

/-! ### characters -/

theorem char_le_iff (a b : Char) : a ≤ b ↔ a.toNat ≤ b.toNat := by
  rw [Char.le_def, UInt32.le_iff_toNat_le]; rfl

theorem hex_lt_128 (c : Char) (h : isHexDigit c = true) : c.toNat < 128 := by
  simp only [isHexDigit, Bool.or_eq_true, Bool.and_eq_true, decide_eq_true_eq, char_le_iff] at h
  have e1 : 'f'.toNat = 102 := rfl
  have e2 : '9'.toNat = 57 := rfl
  have e3 : 'F'.toNat = 70 := rfl
  omega

/-- to prove something of every hex digit it suffices to check the 128 ASCII characters -/
theorem forall_hex (P : Char → Prop)
    (hP : ∀ n, n < 128 → isHexDigit (Char.ofNat n) = true → P (Char.ofNat n))
    (c : Char) (h : isHexDigit c = true) : P c := by
  have := hP c.toNat (hex_lt_128 c h)
  rw [Char.ofNat_toNat] at this
  exact this h

theorem hexVal_lowerHex (c : Char) (h : isHexDigit c = true) : hexVal (lowerHex c) = hexVal c :=
  forall_hex (fun c => hexVal (lowerHex c) = hexVal c) (by decide) c h

theorem isLower_lowerHex (c : Char) (h : isHexDigit c = true) : isLowerHexDigit (lowerHex c) = true :=
  forall_hex (fun c => isLowerHexDigit (lowerHex c) = true) (by decide) c h

theorem isHex_of_isLower (c : Char) (h : isLowerHexDigit c = true) : isHexDigit c = true := by
  simp only [isLowerHexDigit, isHexDigit] at *
  simp [h]

theorem lowerHex_of_isLower (c : Char) (h : isLowerHexDigit c = true) : lowerHex c = c :=
  forall_hex (fun c => isLowerHexDigit c = true → lowerHex c = c) (by decide) c (isHex_of_isLower c h) h

theorem hexVal_lt (c : Char) (h : isHexDigit c = true) : hexVal c < 16 :=
  forall_hex (fun c => hexVal c < 16) (by decide) c h

/-- the lower-case digit of a value -/
def digitChar (n : Nat) : Char := if n < 10 then Char.ofNat (n + 48) else Char.ofNat (n + 87)

theorem digitChar_hexVal (c : Char) (h : isLowerHexDigit c = true) : digitChar (hexVal c) = c :=
  forall_hex (fun c => isLowerHexDigit c = true → digitChar (hexVal c) = c) (by decide) c
    (isHex_of_isLower c h) h

theorem hexVal_inj (c₁ c₂ : Char) (h₁ : isLowerHexDigit c₁ = true) (h₂ : isLowerHexDigit c₂ = true)
    (h : hexVal c₁ = hexVal c₂) : c₁ = c₂ := by
  rw [← digitChar_hexVal c₁ h₁, ← digitChar_hexVal c₂ h₂, h]

/-! ### `hexValue` -/

def hexFold (acc : Nat) (s : Str) : Nat := s.foldl (fun acc c => acc * 16 + hexVal c) acc

theorem hexValue_eq (s : Str) : hexValue s = hexFold 0 s := rfl

theorem hexFold_cons (acc : Nat) (c : Char) (s : Str) :
    hexFold acc (c :: s) = hexFold (acc * 16 + hexVal c) s := rfl

theorem hexFold_map_lower (s : Str) : ∀ acc, s.all isHexDigit = true →
    hexFold acc (s.map lowerHex) = hexFold acc s := by
  induction s with
  | nil => intro acc _; rfl
  | cons c s ih =>
    intro acc h
    simp only [List.all_cons, Bool.and_eq_true] at h
    rw [List.map_cons, hexFold_cons, hexFold_cons, hexVal_lowerHex c h.1, ih _ h.2]

theorem hexFold_inj (s₁ : Str) : ∀ (s₂ : Str) (a₁ a₂ : Nat), s₁.length = s₂.length →
    s₁.all isLowerHexDigit = true → s₂.all isLowerHexDigit = true →
    hexFold a₁ s₁ = hexFold a₂ s₂ → a₁ = a₂ ∧ s₁ = s₂ := by
  induction s₁ with
  | nil =>
    intro s₂ a₁ a₂ hl _ _ h
    cases s₂ with
    | nil => exact ⟨h, rfl⟩
    | cons c s => simp at hl
  | cons c₁ s₁ ih =>
    intro s₂ a₁ a₂ hl h₁ h₂ h
    cases s₂ with
    | nil => simp at hl
    | cons c₂ s₂ =>
      simp only [List.all_cons, Bool.and_eq_true] at h₁ h₂
      simp only [List.length_cons, Nat.add_right_cancel_iff] at hl
      rw [hexFold_cons, hexFold_cons] at h
      obtain ⟨ha, hs⟩ := ih s₂ _ _ hl h₁.2 h₂.2 h
      have b₁ := hexVal_lt c₁ (isHex_of_isLower c₁ h₁.1)
      have b₂ := hexVal_lt c₂ (isHex_of_isLower c₂ h₂.1)
      have hv : hexVal c₁ = hexVal c₂ := by omega
      have hc := hexVal_inj c₁ c₂ h₁.1 h₂.1 hv
      refine ⟨by omega, ?_⟩
      rw [hc, hs]

theorem hexValue_inj (s₁ s₂ : Str) (hl : s₁.length = s₂.length)
    (h₁ : s₁.all isLowerHexDigit = true) (h₂ : s₂.all isLowerHexDigit = true)
    (h : hexValue s₁ = hexValue s₂) : s₁ = s₂ :=
  (hexFold_inj s₁ s₂ 0 0 hl h₁ h₂ h).2

/-! ### the validator -/

theorem validateMd5_some (s d : Str) (h : validateMd5 s = some d) :
    s.length = 32 ∧ s.all isHexDigit = true ∧ d = s.map lowerHex := by
  unfold validateMd5 at h
  split at h
  · rename_i hc
    simp only [Option.some.injEq] at h
    exact ⟨hc.1, hc.2, h.symm⟩
  · simp at h

theorem all_lower_map (s : Str) (h : s.all isHexDigit = true) :
    (s.map lowerHex).all isLowerHexDigit = true := by
  rw [List.all_eq_true] at *
  intro c hc
  obtain ⟨c', hc', rfl⟩ := List.mem_map.1 hc
  exact isLower_lowerHex c' (h c' hc')

theorem all_hex_of_lower (s : Str) (h : s.all isLowerHexDigit = true) : s.all isHexDigit = true := by
  rw [List.all_eq_true] at *
  exact fun c hc => isHex_of_isLower c (h c hc)

theorem map_lower_id (s : Str) (h : s.all isLowerHexDigit = true) : s.map lowerHex = s := by
  rw [List.all_eq_true] at h
  induction s with
  | nil => rfl
  | cons c s ih =>
    rw [List.map_cons, lowerHex_of_isLower c (h c List.mem_cons_self),
      ih (fun x hx => h x (List.mem_cons_of_mem _ hx))]

end Alpen
