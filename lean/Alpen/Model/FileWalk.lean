/-
  Model of `DefaultNodeIO.file_walk` (alpenhorn/io/default.py): the recursive directory scan that feeds
  recursive import requests (`update_import` -> `import_file` per yielded path) — C04 / C06.

  The file system under the walked path is a finite tree.  What `os.scandir` reports per entry:
    * `DirEntry.is_dir()` and `is_file()` FOLLOW symbolic links, `is_symlink()` does not; so the walk
      recurses into a symlinked directory (`dir true cs`, `cs` = listing of the link's target) and
      skips a symlink to a regular file;
    * anything else (fifo, socket, dangling link) is neither.
  Paths are component lists (the harness joins them with "/").
-/
namespace Alpen

inductive FsNode where
  | file                                                  -- regular file, not a symlink
  | symFile                                               -- symlink resolving to a regular file
  | other                                                 -- fifo / socket / dangling symlink / device
  | dir (sym : Bool) (children : List (String × FsNode))  -- directory, or (sym) a symlink resolving to one
deriving Repr

mutual
/-- `_walk` on one entry whose path is `pfx` -/
def walkNode (pfx : List String) : FsNode → List (List String)
  | .file => [pfx]
  | .symFile => []
  | .other => []
  | .dir _ cs => walkList pfx cs
/-- the `for entry in os.scandir(path)` loop -/
def walkList (pfx : List String) : List (String × FsNode) → List (List String)
  | [] => []
  | (n, x) :: rest => walkNode (pfx ++ [n]) x ++ walkList pfx rest
end

/-- what the caller passes as `path`, and what is found at `root/path` -/
inductive WalkTop where
  | absolute                  -- `path.is_absolute()`: ValueError
  | missing                   -- `not fullpath.exists()` (also a dangling symlink)
  | at (t : FsNode)

/-- `file_walk(path)`; `none` = ValueError -/
def fileWalk (pfx : List String) : WalkTop → Option (List (List String))
  | .absolute => none
  | .missing => some []
  | .at .file => some [pfx]
  | .at (.dir s cs) => some (walkNode pfx (.dir s cs))
  | .at _ => some []

mutual
/-- number of regular, non-symlink files reachable through directories (incl. symlinked ones) -/
def leavesNode : FsNode → Nat
  | .file => 1
  | .symFile => 0
  | .other => 0
  | .dir _ cs => leavesList cs
def leavesList : List (String × FsNode) → Nat
  | [] => 0
  | (_, x) :: rest => leavesNode x + leavesList rest
end

/-- specification, independent of the traversal: `p` names a regular non-symlink file reached from an entry at
    `pfx` by descending through directory entries only -/
inductive Reach : List String → FsNode → List String → Prop where
  | file (pfx) : Reach pfx .file pfx
  | dir (pfx s cs n x p) : (n, x) ∈ cs → Reach (pfx ++ [n]) x p → Reach pfx (.dir s cs) p

end Alpen
