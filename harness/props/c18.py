"""C18 — CLI clean/verify/sync: the real commands vs the Lean selection models vs a specification written from the help text."""
import datetime
import json
import random

import common
import cliharness
import env as envmod

MODULE = "Alpen.Props.C18"


def healthy_in_group(db, g):
    """files healthy (has Y, not released) on some node of group g"""
    return set(c.file_id for c in db.ArchiveFileCopy.select().join(db.StorageNode)
               .where(db.StorageNode.group == g, db.ArchiveFileCopy.has_file == "Y", db.ArchiveFileCopy.wants_file != "N"))


def spec_keep(ix, acq=None, listed=None, targets=None, days=None):
    """file ids passing the documented file-level filters"""
    db = ix.db
    keep = set(f.id for f in db.ArchiveFile.select())
    if acq is not None:
        keep &= set(f.id for f in db.ArchiveFile.select().where(db.ArchiveFile.acq == acq))
    if listed is not None:
        keep &= set(listed)
    if targets:
        for g in targets:                      # present in ALL target groups
            keep &= healthy_in_group(db, g)
    if days is not None:                       # "registered more than COUNT days ago"
        cutoff = ix.now - datetime.timedelta(days=days)
        keep &= set(f.id for f in db.ArchiveFile.select() if f.registered < cutoff)
    return keep


def kcopies(db, node):
    rows = list(db.ArchiveFileCopy.select().where(db.ArchiveFileCopy.node == node).order_by(db.ArchiveFileCopy.id))
    return rows, ",".join(f"{c.id}:{c.file_id}:{c.has_file}:{c.wants_file}:{'-' if c.file.size_b is None else c.file.size_b}" for c in rows) or "-"


def one_case(ctx, e, rng, ci):
    seed = rng.getrandbits(40)
    ix = cliharness.Index(e, random.Random(seed))
    db = ix.db
    r = ix.rng
    kind = ["node clean", "node verify", "group sync", "node sync", "node clean", "group sync-cancel"][ci % 6]
    node = r.choice(ix.nodes)
    node = db.StorageNode.get(id=node.id)
    both = ci % 5 == 0          # every fifth case combines --acq with a file list that names only some of that acquisition's files
    acq = r.choice(ix.acqs) if (both or r.random() < 0.3) else None
    listed = None
    argv_filters = []
    if acq is not None:
        argv_filters += ["--acq", acq.name]
    if both or r.random() < 0.25:
        pool = [f for f in ix.files if f.acq_id == acq.id] if both else ix.files
        if len(pool) < 2:
            pool = ix.files
        lf = r.sample(pool, k=r.randint(1, max(1, len(pool) - 1)) if both else r.randint(1, len(pool)))
        listed = [f.id for f in lf]
        p = f"{e.tmp}/list{ci}.txt"
        with open(p, "w") as fh:
            fh.write("".join(f"{f.acq.name}/{f.name}\n" for f in lf))
        argv_filters += ["--file-list", p]
    before = cliharness.full_dump()
    res = dict(kind=kind, seed=seed)
    if kind == "node clean":
        goal = r.choice(["M", "M", "N", "Y"])
        include_bad = r.random() < 0.3
        size_gib = r.choice([None, None, 0.5, 1, 2.5]) if goal != "Y" else None
        if ci % 13 == 5 and goal != "Y":
            size_gib = 0           # boundary: a budget of nothing ("stop once the total reaches SIZE") selects nothing - or is refused
        targets = r.sample(ix.groups, k=min(len(ix.groups), r.choice([1, 1, 2, 3, 4]))) if r.random() < 0.45 else []
        days = r.choice([2, 5, 20]) if r.random() < 0.25 else None
        argv = ["node", "clean", node.name, "--force", "--archive-ok"] + argv_filters
        argv += {"M": [], "N": ["--now"], "Y": ["--cancel"]}[goal]
        argv += ["--include-bad"] if include_bad else []
        argv += ["--size", str(size_gib)] if size_gib is not None else []
        for g in targets:
            argv += ["--target", g.name]
        argv += ["--days", str(days)] if days else []
        keep = spec_keep(ix, acq, listed, targets, days)
        rows, cstr = kcopies(db, node)
        size_b = int(size_gib * 2 ** 30) if size_gib is not None else None
        res["model_line"] = f"kclean {int(include_bad)} {goal} {'-' if size_b is None else size_b} {cstr} {','.join(map(str, sorted(keep))) or '-'}"
        # spec (help text): candidates in id order; budget prefix; those not already at the goal
        cand = [c for c in rows if (c.has_file != "N" if include_bad else c.has_file == "Y") and c.file_id in keep]
        if size_b is None:
            exp = [c.id for c in cand if (c.wants_file == "Y" if goal == "M" else c.wants_file != goal)]
        else:
            exp, tot = [], 0
            for c in (cand if size_b > 0 else []):
                tot += c.file.size_b or 0
                if not (c.wants_file == goal or (goal == "M" and c.wants_file == "N")):
                    exp.append(c.id)
                if tot >= size_b:
                    break
        res.update(argv=argv, expected=("copy-wants", goal, exp), days=days, own_target=any(g.id == node.group_id for g in targets),
                   sized=size_gib is not None, goal=goal)
    elif kind == "node verify":
        cancel = r.random() < 0.3
        rows, cstr = kcopies(db, node)
        keep = spec_keep(ix, acq, listed)
        kf = ",".join(map(str, sorted(keep))) or "-"
        argv = ["node", "verify", node.name, "--force"] + argv_filters
        if cancel:
            g = r.choice(["X", "Y", "N"])
            argv += ["--cancel"] + {"X": [], "Y": ["--healthy"], "N": ["--missing"]}[g]
            res["model_line"] = f"kverifycancel {cstr} {kf}"
            exp = [c.id for c in rows if c.has_file == "M" and c.wants_file != "N" and c.file_id in keep]
            res.update(argv=argv, expected=("copy-has", g, exp))
        else:
            co, he, mi = r.random() < 0.4, r.random() < 0.4, r.random() < 0.4
            al = r.random() < 0.2
            argv += (["--all"] if al else []) + (["--corrupt"] if co else []) + (["--healthy"] if he else []) + (["--missing"] if mi else [])
            if al:
                co = he = mi = True
            elif not (co or he or mi):
                co = mi = True
            res["model_line"] = f"kverify {int(co)} {int(he)} {int(mi)} {cstr} {kf}"
            exp = [c.id for c in rows if c.file_id in keep and
                   ((co and c.has_file == "X" and c.wants_file != "N") or (he and c.has_file == "Y" and c.wants_file != "N") or
                    (mi and c.has_file == "N" and c.wants_file == "Y"))]
            res.update(argv=argv, expected=("copy-has", "M", exp))
    else:
        group = db.StorageGroup.get(id=r.choice(ix.groups).id)
        if kind == "group sync-cancel":
            use_node = r.random() < 0.6
            argv = ["group", "sync", group.name] + ([node.name] if use_node else ["--all"]) + ["--cancel", "--force"] + argv_filters
            keep = spec_keep(ix, acq, listed)
            exp = [q.id for q in db.ArchiveFileCopyRequest.select()
                   if not q.completed and not q.cancelled and q.group_to_id == group.id and (not use_node or q.node_from_id == node.id)
                   and q.file_id in keep]
            res.update(argv=argv, expected=("req-cancel", None, exp), model_line=None)
        else:
            targets = r.sample(ix.groups, k=min(len(ix.groups), r.choice([1, 2, 3]))) if r.random() < 0.35 else []
            argv = (["group", "sync", group.name, node.name] if kind == "group sync" else ["node", "sync", node.name, group.name]) + \
                ["--force"] + argv_filters
            for g in targets:
                argv += ["--target", g.name]
            keep = spec_keep(ix, acq, listed)
            skipped = set(c.file_id for c in db.ArchiveFileCopy.select().join(db.StorageNode)
                          .where(db.StorageNode.group == group, db.ArchiveFileCopy.has_file == "Y"))
            for g in targets:                 # healthy in ANY target
                skipped |= healthy_in_group(db, g)
            rows, cstr = kcopies(db, node)
            rq = ",".join(f"{q.file_id}:{q.node_from_id}:{q.group_to_id}:{int(q.completed)}:{int(q.cancelled)}"
                          for q in db.ArchiveFileCopyRequest.select()) or "-"
            res["model_line"] = (f"ksync {cstr} {','.join(map(str, sorted(skipped))) or '-'} {','.join(map(str, sorted(keep))) or '-'} "
                                 f"{rq} {node.id} {group.id}")
            pend = set(q.file_id for q in db.ArchiveFileCopyRequest.select()
                       if q.node_from_id == node.id and q.group_to_id == group.id and not q.completed and not q.cancelled)
            exp = sorted(c.file_id for c in rows if c.has_file == "Y" and c.file_id not in skipped and c.file_id in keep and c.file_id not in pend)
            res.update(argv=argv, expected=("req-new", (node.id, group.id), exp))
    # ---- run for real: update mode, then again (idempotence), and check mode on an identical index
    rc, out, exc = e.cli(res["argv"])
    after = cliharness.full_dump()
    rc2, out2, exc2 = e.cli(res["argv"])
    after2 = cliharness.full_dump()
    res.update(rc=rc, out=out, before=before, after=after, after2=after2, exc=repr(exc) if exc else None)
    return res


def corpus_f15(e):
    """regression corpus: the idempotence corner of `node clean --now --size --target <own group>` (finding F15)"""
    from alpenhorn import db
    for m in (db.StorageTransferAction, db.ArchiveFileCopyRequest, db.ArchiveFileImportRequest, db.ArchiveFileCopy,
              db.ArchiveFile, db.ArchiveAcq, db.StorageNode, db.StorageGroup):
        m.delete().execute()
    g = db.StorageGroup.create(name="G1")
    n = db.StorageNode.create(name="N1", group=g, root="/r", storage_type="F")
    a = db.ArchiveAcq.create(name="A1")
    for i in range(3):
        f = db.ArchiveFile.create(acq=a, name=f"f{i}.dat", size_b=2 ** 30, md5sum="0" * 32)
        db.ArchiveFileCopy.create(file=f, node=n, has_file="Y", wants_file="Y")
    argv = ["node", "clean", "N1", "--now", "--size", "1", "--target", "G1", "--force"]
    before = cliharness.full_dump()
    rc, out, exc = e.cli(argv)
    after = cliharness.full_dump()
    e.cli(argv)
    after2 = cliharness.full_dump()
    return dict(kind="node clean", seed=0, argv=argv, expected=("copy-wants", "N", [1]), rc=rc, out=out, before=before, after=after,
                after2=after2, own_target=True, sized=True, goal="N", days=None, model_line=None, exc=None)


def corpus_f6(e):
    """regression corpus: `node clean --days` (finding F6)"""
    from alpenhorn import db
    for m in (db.StorageTransferAction, db.ArchiveFileCopyRequest, db.ArchiveFileImportRequest, db.ArchiveFileCopy,
              db.ArchiveFile, db.ArchiveAcq, db.StorageNode, db.StorageGroup):
        m.delete().execute()
    now = datetime.datetime.now(datetime.timezone.utc).replace(tzinfo=None)
    g = db.StorageGroup.create(name="G1")
    n = db.StorageNode.create(name="N1", group=g, root="/r", storage_type="F")
    a = db.ArchiveAcq.create(name="A1")
    for i, d in enumerate((-10, 10)):
        f = db.ArchiveFile.create(acq=a, name=f"f{i}.dat", size_b=5, md5sum="0" * 32, registered=now + datetime.timedelta(days=d))
        db.ArchiveFileCopy.create(file=f, node=n, has_file="Y", wants_file="Y")
    argv = ["node", "clean", "N1", "--days", "5", "--force"]
    before = cliharness.full_dump()
    rc, out, exc = e.cli(argv)
    after = cliharness.full_dump()
    e.cli(argv)
    after2 = cliharness.full_dump()
    return dict(kind="node clean", seed=0, argv=argv, expected=("copy-wants", "M", [1]), rc=rc, out=out, before=before, after=after,
                after2=after2, own_target=False, sized=False, goal="M", days=5, model_line=None, exc=None)


def real_change(res):
    """what the real command changed, in the vocabulary of `expected`"""
    kind = res["expected"][0]
    b, a = res["before"], res["after"]
    if kind == "copy-wants":
        return sorted(c[0] for c, c0 in zip(a["copy"], b["copy"]) if c != c0), [c for c, c0 in zip(a["copy"], b["copy"]) if c != c0]
    if kind == "copy-has":
        return sorted(c[0] for c, c0 in zip(a["copy"], b["copy"]) if c != c0), [c for c, c0 in zip(a["copy"], b["copy"]) if c != c0]
    if kind == "req-cancel":
        return sorted(r[0] for r, r0 in zip(a["req"], b["req"]) if r != r0), None
    if kind == "req-new":
        return sorted(r[1] for r in a["req"][len(b["req"]):]), a["req"][len(b["req"]):]


def run(ctx):
    ok = common.proof_stage(ctx, MODULE)
    rng = ctx.rng
    n = 330 if ctx.quick() else 8000
    cases = []
    with envmod.CliEnv() as e:
        for ci in range(n):
            cases.append(one_case(ctx, e, rng, ci))
        cases.append(corpus_f15(e))
        cases.append(corpus_f6(e))
    lines = [c["model_line"] for c in cases if c.get("model_line")]
    outs = iter(common.Driver().batch(lines)) if lines else iter([])
    for c in cases:
        model = next(outs) if c.get("model_line") else None
        kind, goal, exp = c["expected"]
        changed, rows = real_change(c)
        ctx.count(f"{c['kind']}:{'changed' if changed else 'none'}" + (":size" if c.get("sized") else "") + (":days" if c.get("days") else ""))
        ctx.case((tuple(c["argv"]), c["seed"]), nontrivial=bool(changed) or bool(exp),
                 sample={"argv": c["argv"], "expected_records": exp, "changed_records": changed, "model": model} if changed and len(ctx.samples) < 4 else None)
        other_tables = [t for t in c["after"] if c["after"][t] != c["before"][t] and t != ("copy" if kind.startswith("copy") else "req")]
        if c["rc"] not in (0,) and changed:
            ctx.violation("rc", f"{c['argv']} exited {c['rc']} but changed records", {"kind": "cli18", "argv": c["argv"], "seed": c["seed"]})
        # model vs real (correspondence)
        if model is not None and c["rc"] == 0:
            m = sorted(int(x) for x in model.split(",")) if model != "-" else []
            if m != sorted(changed) and not c.get("days") and len(ctx.corr_broken) < 6:
                ctx.corr_broken.append({"stream": f"{c['kind']}-vs-model", "argv": c["argv"], "seed": c["seed"], "real": changed, "model": m})
        # spec vs real (oracle)
        if c["rc"] == 0 and sorted(changed) != sorted(exp):
            if c.get("days"):
                key = "clean-days"
                what = (f"`{' '.join(c['argv'])}` changed copies {changed}; the documented filter (registered more than COUNT days ago) "
                        f"selects {exp}")
            else:
                key = f"select:{c['kind']}"
                what = f"`{' '.join(c['argv'])}` changed records {changed}; the documented filters select {exp}"
            ctx.violation(key, what, {"kind": "cli18", "argv": c["argv"], "seed": c["seed"], "expected": exp, "changed": changed})
        if other_tables:
            ctx.violation("frame:" + c["kind"], f"{c['argv']} also changed tables {other_tables}", {"kind": "cli18", "argv": c["argv"], "seed": c["seed"]})
        if rows and kind in ("copy-wants", "copy-has"):
            col = 4 if kind == "copy-wants" else 3
            if any(r[col] != goal for r in rows):
                ctx.violation("goal:" + c["kind"], f"{c['argv']} set records to something else than {goal}: {rows[:3]}", {"kind": "cli18", "argv": c["argv"], "seed": c["seed"]})
        # idempotence
        if c["after2"] != c["after"] and c["rc"] == 0:
            if c.get("own_target") and c.get("sized") and c.get("goal") == "N":
                key = "clean-size-target-own-group"
            elif c.get("days"):
                key = "clean-days"
            else:
                key = "idempotent:" + c["kind"]
            diff = [t for t in c["after"] if c["after2"][t] != c["after"][t]]
            ctx.violation(key, f"repeating `{' '.join(c['argv'])}` changed the index again (tables {diff})",
                          {"kind": "cli18", "argv": c["argv"], "seed": c["seed"]})
        # duplicate pending requests after a repeated sync
        if kind == "req-new":
            pend = [(r[1], r[2], r[3]) for r in c["after2"]["req"] if not r[4] and not r[5]]
            node_group = goal
            mine = [p for p in pend if (p[1], p[2]) == node_group]
            base = [(r[1], r[2], r[3]) for r in c["before"]["req"] if not r[4] and not r[5] and (r[2], r[3]) == node_group]
            for p in set(mine):
                if mine.count(p) > max(1, base.count(p)):
                    ctx.violation("sync-duplicate", f"repeated `{' '.join(c['argv'])}` left {mine.count(p)} pending requests for {p}",
                                  {"kind": "cli18", "argv": c["argv"], "seed": c["seed"]})
    ctx.corr_broken = ctx.corr_broken[:5]
    ctx.coverage["rule"] = ("random indexes and invocations of node clean (goals default/--now/--cancel, --include-bad, --size, --target x1-2, "
                            "--days, --acq, --file-list), node verify (state flags, --all, cancel forms), group sync / node sync (--target, "
                            "filters) and sync --cancel, each run twice in update mode through the real CLI; the records changed are compared "
                            "with the Lean selection model (same copy table) and with a specification computed from the help text; second "
                            "run must change nothing. distinct = (argv, index seed)")
    from props.c06 import finish_search
    finish_search(ctx, ok)


def replay(ctx, path):
    r = json.load(open(path))
    print(json.dumps(r, indent=1)[:2500])
    with envmod.CliEnv() as e:
        cliharness.Index(e, random.Random(r["seed"]))
        b = cliharness.full_dump()
        rc, out, exc = e.cli(r["argv"])
        a = cliharness.full_dump()
        print("exit", rc, out[-600:])
        print("changed copies", [c for c, c0 in zip(a["copy"], b["copy"]) if c != c0], "new reqs", a["req"][len(b["req"]):])
    return 1
