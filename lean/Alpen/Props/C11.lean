import Alpen.Model.Queue
import Alpen.Lemmas.Queue
/-!
# C11 — task queue: exactly-once delivery, per-FIFO order, truthful sizes

"Every item put on the task queue is handed to exactly one consumer exactly once, items of
one FIFO are handed out in the order they were put, and the reported sizes always equal the
true numbers of queued, deferred and in-progress items. Consequently a node is reported idle
exactly when it has no queued or running task, and waiting for the queue to drain returns
only when nothing is queued or running."

`keys` is the finite universe of FIFO keys used by a run (`OpsIn keys ops`); the theorems
hold for every such universe, every op sequence (any number of producers/consumers: one op
= one critical section, in lock-acquisition order) and every resolution of the `set`
iteration order (`choice`).  `QInv` is defined in `Alpen/Lemmas/Queue.lean`.
-/
namespace Alpen

/-- the invariant holds in every reachable state -/
theorem C11_inv_reachable (keys : List Nat) (hk : keys.Nodup) (ops : List QOp) (hin : OpsIn keys ops) :
    QInv keys (Q.run keys Q.init ops) := by
  exact QInv.reachable hk ops hin

/-- **truthful sizes** -/
theorem C11_sizes_truthful (keys : List Nat) (hk : keys.Nodup) (ops : List QOp) (hin : OpsIn keys ops) :
    let q := Q.run keys Q.init ops
    q.qsize = (keys.map (fun k => (q.fifo k).length)).sum ∧
    q.inprogressSize = (keys.map q.inprog).sum ∧
    q.deferredSize = q.deferrals.length ∧
    (∀ k, q.fifoSize k = (q.fifo k).length + q.inprog k) := by
  have h := QInv.reachable hk ops hin
  exact ⟨h.tq, h.ti, rfl, h.fifoSize_eq⟩

/-- **idle iff**: a FIFO is reported empty exactly when nothing of it is queued or running -/
theorem C11_idle_iff (keys : List Nat) (hk : keys.Nodup) (ops : List QOp) (hin : OpsIn keys ops) (k : Nat) :
    let q := Q.run keys Q.init ops
    q.fifoSize k = 0 ↔ (q.fifo k = [] ∧ q.inprog k = 0) := by
  have h := QInv.reachable hk ops hin
  intro q
  rw [h.fifoSize_eq k, Nat.add_eq_zero_iff, List.length_eq_zero_iff]

/-- **join exits only when drained**: the guard of `join` (evaluated under the lock) lets the
    joiner leave iff no FIFO has a queued or in-progress item -/
theorem C11_join_exit (keys : List Nat) (hk : keys.Nodup) (ops : List QOp) (hin : OpsIn keys ops) (t : Nat) :
    let q := Q.run keys Q.init ops
    (q.joinCheck t).2 = true ↔ ∀ k, q.fifo k = [] ∧ q.inprog k = 0 := by
  have h := QInv.reachable hk ops hin
  intro q
  rw [joinCheck_snd, h.totals_zero_iff]

/-- **no lost wake-up for join**: a joiner parked without having been notified implies that
    something is still queued or running -/
theorem C11_join_no_lost_wakeup (keys : List Nat) (hk : keys.Nodup) (ops : List QOp) (hin : OpsIn keys ops) (t : Nat) :
    let q := Q.run keys Q.init ops
    q.jwait t = some false → ∃ k ∈ keys, q.fifo k ≠ [] ∨ q.inprog k > 0 := by
  exact (QInv.reachable hk ops hin).no_lost_wakeup t

/-- **per-FIFO order**: for every key, what has been delivered from it followed by what is still
    queued in it is exactly what was appended to it, in order -/
theorem C11_fifo_order (keys : List Nat) (hk : keys.Nodup) (ops : List QOp) (hin : OpsIn keys ops) (k : Nat) :
    let q := Q.run keys Q.init ops
    q.enq k = ((q.delivered.filter (fun p => p.1 == k)).map (·.2)) ++ q.fifo k := by
  exact (QInv.reachable hk ops hin).order k

/-- **exactly once** every accepted put is, as a multiset, exactly one of: delivered, still
    queued, still deferred, or discarded by a join -/
theorem C11_exactly_once (keys : List Nat) (hk : keys.Nodup) (ops : List QOp) (hin : OpsIn keys ops) :
    let q := Q.run keys Q.init ops
    q.accepted.Perm (q.delivered ++ queuedOf keys q ++ q.deferrals.map (fun d => (d.key, d.item)) ++ q.discarded) := by
  exact (QInv.reachable hk ops hin).once

/-- hence with distinct item ids nothing is delivered twice -/
theorem C11_no_double_delivery (keys : List Nat) (hk : keys.Nodup) (ops : List QOp) (hin : OpsIn keys ops) :
    let q := Q.run keys Q.init ops
    (q.accepted.map (fun p => p.2.id)).Nodup → (q.delivered.map (fun p => p.2.id)).Nodup := by
  exact (QInv.reachable hk ops hin).delivered_nodup

end Alpen
