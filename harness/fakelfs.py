"""The scripted `lfs` (Lustre HSM front end) used by the harness: state per path in a JSON file, same output format as the
real tool.  `run(args, st_file)` is called in-process (through a `run_command` shim) or by fake-tools/lfs as a script."""
import json
import os

FLAGS = {"unarchived": "(0x00000000)", "restored": "(0x00000009) exists archived, archive_id:1",
         "restoring": "(0x0000000d) released exists archived, archive_id:1",
         "released": "(0x0000000d) released exists archived, archive_id:1"}


def run(args, st_file):
    """-> (rc, stdout, stderr)"""
    st = {"paths": {}, "log": []}
    if st_file and os.path.exists(st_file):
        with open(st_file) as fh:
            st = json.load(fh)

    def save():
        if st_file:
            with open(st_file, "w") as fh:
                json.dump(st, fh)
    cmd = args[0] if args else ""
    path = args[-1] if args else ""
    # a file that is not (or no longer) on disk is missing whatever the script says; a file nobody scripted is plain unarchived
    state = st["paths"].get(path, "unarchived") if os.path.lexists(path) or st.get("virtual") else "missing"
    fail = st.setdefault("fail", {})
    if fail.get(cmd, 0) > 0:
        fail[cmd] -= 1
        save()
        return 1, "", "lfs: injected failure\n"
    rc, out, err = 0, "", ""
    dirty = False
    if cmd == "hsm_state":
        if state == "missing":
            err = f"lfs hsm_state: cannot get HSM state for '{path}': No such file or directory\n"
            rc = 2
        else:
            out = f"{path}: {FLAGS[state]}\n"
    elif cmd == "hsm_action":
        out = f"{path}: " + ("RESTORE running" if state == "restoring" else "NOOP") + "\n"
    elif cmd == "hsm_restore":
        if state == "released":
            st["paths"][path] = "restoring"
            dirty = True
    elif cmd == "hsm_release":
        if state == "restored":
            st["paths"][path] = "released"
            dirty = True
    elif cmd == "quota":
        used, quota = st.get("quota", [1000, 4000000])          # kiB: plenty of room unless the script says otherwise
        out = f"{path}\n      {used} {quota} {quota}       -       1       0       0       -\n"
    if dirty:
        save()
    return rc, out, err


def install(st_file):
    """route `run_command([.../lfs, ...])` to `run` in-process (no process start per call); returns an undo function"""
    import alpenhorn.common.util as util
    real = util.run_command
    if getattr(real, "_verif_lfs", False):
        real._st_file[0] = st_file
        return lambda: None

    box = [st_file]

    def shim(cmd, timeout=None, **kw):
        if cmd and os.path.basename(cmd[0]) == "lfs":
            return run(list(cmd[1:]), box[0])
        return real(cmd, timeout=timeout, **kw)
    shim._verif_lfs = True
    shim._st_file = box
    util.run_command = shim

    def undo():
        util.run_command = real
    return undo
