import Alpen.Model.Daemon
import Alpen.Lemmas.World
import Alpen.Lemmas.Daemon
import Alpen.Lemmas.Daemon2
/-!
# C07 — locality: a daemon only modifies local, active, initialised nodes

"A daemon modifies storage, and verifies, imports into or deletes from, only nodes whose host is
its own host name, that are marked active, and (for file-system-backed nodes) whose storage
carries a marker naming that node; remote, inactive, uninitialised or wrongly-marked nodes are
left unmodified on disk (an active node may still be read as a transfer source) and an
uninitialised node is initialised only on explicit request. Its effect on other nodes is limited
to index-level requests (flagging a transfer source as suspect, releasing a copy under an
autoclean rule, creating autosync requests), never their files."

Two halves: (a) the steps an update iteration creates all act on usable nodes
(`iterateOps` / `targetNode`); (b) a step acting on node `n` changes storage only on `n`, and
rows of other nodes only in the three allowed ways.  Limit (stated): a task already queued when
an operator deactivates its node still runs — effects are attributed to the state read at dispatch.
-/
namespace Alpen
open World

/-- **C07.a** every step created by an update iteration of the daemon on `hv.host` acts on a
    node that is local, active and initialised -/
theorem C07_iterate_targets_usable (w : World) (hv : HostView) (hwf : w.WellFormed) :
    ∀ op ∈ iterateOps w hv, ∀ n, targetNode op = some n → n ∈ w.usableIds hv :=
  iterateOps_targets w hv hwf.ids

/-- usable means exactly: host is the daemon's, active, marker present -/
theorem C07_usable_iff (w : World) (hv : HostView) (n : Nat) :
    n ∈ w.usableIds hv ↔ ∃ nd ∈ w.nodes, nd.id = n ∧ nd.host = hv.host ∧ nd.active = true ∧ hv.initialised nd.id = true :=
  usableIds_iff w hv n

/-- **C07.b (storage)** a step changes storage only on the node it acts on: operator commands
    and main-loop decisions change no storage at all -/
theorem C07_storage_only_on_target (w : World) (op : WOp) (hnf : ∀ n f c, op ≠ .fault n f c) (n f : Nat)
    (h : targetNode op ≠ some n) :
    (w.wstep op).1.diskAt n f = w.diskAt n f :=
  wstep_diskAt_off_target w op hnf n f h

theorem C07_storage_effects_on_target (w : World) (op : WOp) (e : Eff) (he : e ∈ (w.wstep op).2) :
    (∀ n f, e = .unlink n f → targetNode op = some n) ∧ (∀ n f c, e = .write n f c → targetNode op = some n) :=
  wstep_storage_target w op e he

/-- COUNTEREXAMPLE to the statement of `C07_foreign_rows` as originally given (side condition
    `OpWF` only, which says nothing about delete steps): a delete task whose captured row claims
    node 1 while the stored row with the same id lives on node 2 writes `has = N, wants = N` onto
    that row of node 2 (`mapCopy` goes by id) — neither "flag suspect" nor "release". -/
theorem C07_foreign_rows_original_false :
    ∃ (w : World) (op : WOp), w.WF ∧ w.IdsWF ∧ OpWF w op ∧ (∃ c uf, op = .deleteOne c uf) ∧
      ∃ x ∈ (w.wstep op).1.copies, targetNode op ≠ some x.node ∧
        ¬ ∃ x0 ∈ w.copies, x0.id = x.id ∧ x0.file = x.file ∧ x0.node = x.node ∧ x0.ready = x.ready ∧
          (x = x0 ∨ (x.has = .M ∧ x.wants = x0.wants) ∨ (x.has = x0.has ∧ x.wants = .N)) := by
  refine ⟨⟨[⟨2, 2, 0, true, .A, none, 0, none, false⟩, ⟨3, 3, 0, true, .A, none, 0, none, false⟩], [],
      [⟨1, 1, 2, .Y, .Y, true⟩, ⟨2, 1, 3, .Y, .Y, true⟩], [], [], [], [], 3⟩,
    .deleteOne ⟨1, 1, 1, .Y, .N, true⟩ false, ?_, ?_, trivial, ⟨_, _, rfl⟩,
    ⟨1, 1, 2, .N, .N, true⟩, ?_, ?_, ?_⟩
  · unfold WF UniqueCopies; decide
  · unfold IdsWF; decide
  · decide
  · decide
  · decide

/-- **C07.b (index)** what a daemon step may do to copy rows of *other* nodes: nothing, flag a
    transfer source suspect (has := M), or release under an autoclean rule (wants := N); rows are
    never created or removed on other nodes.
    CHANGED w.r.t. the original statement: the side condition `hop : OpWF w op` is strengthened
    to `OpWF' w op` (`Alpen/Lemmas/Daemon.lean`), which says for a *delete* step what `OpWF` says
    for a check step: the row captured at dispatch has the (file, node) of every stored row with
    the same id — true of real index states, where a copy row never changes its file or node.
    Without it the statement is false: `C07_foreign_rows_original_false`.  (`hwf` is kept from the
    original statement although `hids` suffices.) -/
theorem C07_foreign_rows (w : World) (op : WOp) (hwf : w.WF) (hids : w.IdsWF) (hop : OpWF' w op)
    (hdaemon : (∃ c uf, op = .deleteOne c uf) ∨ (∃ s ok, op = .check s ok) ∨ (∃ r sr, op = .decide r sr) ∨
               (∃ r d od, op = .search r d od) ∨ (∃ r d t, op = .pull r d t))
    (x : WCopy) (hx : x ∈ (w.wstep op).1.copies) (hn : targetNode op ≠ some x.node) :
    ∃ x0 ∈ w.copies, x0.id = x.id ∧ x0.file = x.file ∧ x0.node = x.node ∧ x0.ready = x.ready ∧
      (x = x0 ∨ (x.has = .M ∧ x.wants = x0.wants) ∨ (x.has = x0.has ∧ x.wants = .N)) := by
  have _ := hwf
  exact foreign_rows w op hids hop hdaemon x hx hn

-- non-vacuity: an iteration on host 1 with one local suspect copy and one remote
example : iterateOps ⟨[⟨1, 1, 1, true, .A, none, 0, none, true⟩, ⟨2, 2, 2, true, .A, none, 0, none, true⟩], [⟨1, none, none⟩],
    [⟨1, 1, 1, .M, .Y, true⟩, ⟨2, 1, 2, .M, .Y, true⟩], [], [], [], [], 10⟩ ⟨1, fun _ => true⟩
    = [.check ⟨1, 1, 1, .M, .Y, true⟩ true] := by decide

/-- **C07.e (one node per group and host)** a transfer into a group is only ever decided by a daemon for which exactly
    one node of that group is local, active and initialised — that node is where the pull will write; a group with no
    or with several usable nodes on this host is skipped -/
theorem C07_group_served_unique (w : World) (hv : HostView) (r : WReq) (sr : Bool)
    (h : WOp.decide r sr ∈ iterateOps w hv) :
    ∃ n, w.usableInGroup hv r.groupTo = [n] ∧ n ∈ w.nodes ∧ n.group = r.groupTo ∧ n.id ∈ w.usableIds hv := by
  have hm := (firstPerFile_mem _ _ r (decide_of_mem_iterateOps w hv r sr h).1).1
  unfold World.pendingInto at hm
  obtain ⟨_, hc⟩ := List.mem_filter.mp hm
  simp only [Bool.and_eq_true] at hc
  have hlen : (w.usableInGroup hv r.groupTo).length = 1 := by
    have := hc.2
    unfold World.groupServed at this
    simpa using this
  match hl : w.usableInGroup hv r.groupTo, hlen with
  | [n], _ =>
    have hn : n ∈ w.usableInGroup hv r.groupTo := by rw [hl]; exact List.mem_singleton.mpr rfl
    unfold World.usableInGroup at hn
    obtain ⟨h1, h2⟩ := List.mem_filter.mp hn
    simp only [Bool.and_eq_true, beq_iff_eq, List.contains_iff_mem] at h2
    exact ⟨n, rfl, h1, h2.1, h2.2⟩

/-- **C07.d (initialisation)** the main loop queues an init task for a node only if that node is local, active,
    currently fails the marker check, and a pending init request *naming that node* exists -/
theorem C07_init_only_on_request (w : World) (hv : HostView) (reqs : List InitReq) (n r : Nat)
    (h : (n, r) ∈ initTasks w hv reqs) :
    (∃ nd ∈ w.nodes, nd.id = n ∧ nd.host = hv.host ∧ nd.active = true ∧ hv.initialised nd.id = false) ∧
    (∃ q ∈ reqs, q.id = r ∧ q.node = n ∧ q.completed = false) := by
  unfold initTasks at h
  rw [List.mem_filterMap] at h
  obtain ⟨nd, hnd, hmap⟩ := h
  rw [List.mem_filter] at hnd
  obtain ⟨hmem, hcond⟩ := hnd
  cases hf : reqs.find? (fun r => r.node == nd.id && !r.completed) with
  | none => simp [hf] at hmap
  | some q =>
    simp [hf] at hmap
    obtain ⟨h1, h2⟩ := hmap
    have hq := List.find?_some hf
    have hqm := List.mem_of_find?_eq_some hf
    simp at hcond hq
    refine ⟨⟨nd, hmem, h1, hcond.1.1, hcond.1.2, hcond.2⟩, ⟨q, hqm, h2, ?_, hq.2⟩⟩
    rw [hq.1, h1]

/-- no pending request for a node ⇒ no init task for it, whatever other requests exist -/
theorem C07_no_request_no_init (w : World) (hv : HostView) (reqs : List InitReq) (n : Nat)
    (h : ∀ q ∈ reqs, q.node = n → q.completed = true) : ∀ r, (n, r) ∉ initTasks w hv reqs := by
  intro r hmem
  obtain ⟨_, q, hq, _, hn, hc⟩ := C07_init_only_on_request w hv reqs n r hmem
  have := h q hq hn
  rw [this] at hc
  cases hc

/-- the init task writes the marker only when the node is not initialised at that moment, and completes the request
    exactly when the node ends up initialised -/
theorem C07_init_task (i ok : Bool) :
    ((initTask i ok).1 = true → i = false ∧ ok = true) ∧ ((initTask i ok).2 = true ↔ (i = true ∨ ok = true)) := by
  cases i <;> cases ok <;> simp [initTask]

private def initExampleNodes : List WNode :=
  [⟨1, 1, 1, true, .A, none, 0, none, false⟩, ⟨2, 2, 1, true, .A, none, 0, none, false⟩]

example : initTasks ⟨initExampleNodes, [], [], [], [], [], [], 0⟩ ⟨1, fun _ => false⟩ [⟨7, 2, false⟩] = [(2, 7)] := by decide

end Alpen
