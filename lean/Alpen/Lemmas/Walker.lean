import Alpen.Model.Walker
/-! Helper lemmas on `wrapFill` / `walkerGet` / `walkerRun`. Core Lean only. -/
namespace Alpen

def AscL (l : List Nat) : Prop := l.Pairwise (· < ·)

/-! ## generic list facts -/

theorem nodup_length_le_of_subset {l l' : List Nat} (hd : l.Nodup) (hs : ∀ y ∈ l, y ∈ l') :
    l.length ≤ l'.length := by
  induction l generalizing l' with
  | nil => simp
  | cons a t ih =>
    have ha : a ∈ l' := hs a (by simp)
    have hnd := List.nodup_cons.mp hd
    have ht : ∀ y ∈ t, y ∈ l'.erase a := by
      intro y hy
      have hne : y ≠ a := by
        intro h; subst h; exact hnd.1 hy
      exact (List.mem_erase_of_ne hne).mpr (hs y (by simp [hy]))
    have h1 := ih hnd.2 ht
    have h2 := List.length_erase_of_mem ha
    have h3 : 0 < l'.length := List.length_pos_of_mem ha
    simp only [List.length_cons]
    omega

/-- in an ascending list every element is ≤ the last one -/
theorem AscL.le_getLast {l : List Nat} (h : AscL l) : ∀ y ∈ l, y ≤ l.getLast?.getD 0 := by
  induction l with
  | nil => simp
  | cons a t ih =>
    cases t with
    | nil => simp
    | cons b t' =>
      have hp := List.pairwise_cons.mp h
      intro y hy
      rw [List.getLast?_cons_cons]
      rcases List.mem_cons.mp hy with rfl | hy
      · have h1 := hp.1 b (by simp)
        have h2 := ih hp.2 b (by simp)
        omega
      · exact ih hp.2 y hy

theorem getLast_mem {l : List Nat} (h : l ≠ []) : l.getLast?.getD 0 ∈ l := by
  cases hl : l.getLast? with
  | none => simp [List.getLast?_eq_none_iff] at hl; exact absurd hl h
  | some a => simpa using List.mem_of_getLast? hl

/-- if `x` is in an ascending list but not among its first `k` elements, then there are `k`
    such elements and they are all smaller than `x` -/
theorem AscL.take_lt {l : List Nat} (h : AscL l) {x k : Nat} (hx : x ∈ l) (hn : x ∉ l.take k) :
    k ≤ l.length ∧ ∀ y ∈ l.take k, y < x := by
  have hsplit := List.take_append_drop k l
  have hxd : x ∈ l.drop k := by
    rw [← hsplit] at hx
    rcases List.mem_append.mp hx with h1 | h1
    · exact absurd h1 hn
    · exact h1
  constructor
  · have : 0 < (l.drop k).length := List.length_pos_of_mem hxd
    simp at this
    omega
  · intro y hy
    have hp : (l.take k ++ l.drop k).Pairwise (· < ·) := by rw [hsplit]; exact h
    exact (List.pairwise_append.mp hp).2.2 y hy x hxd

/-! ## wrapFill -/

theorem wrapFill_zero (table : List Nat) (fuel : Nat) : wrapFill table fuel 0 = [] := by
  cases fuel <;> simp [wrapFill]

theorem wrapFill_length (table : List Nat) (hne : table ≠ []) :
    ∀ fuel n, n ≤ fuel → (wrapFill table fuel n).length = n := by
  intro fuel
  induction fuel with
  | zero => intro n hn; have : n = 0 := by omega
            subst this; simp [wrapFill]
  | succ f ih =>
    intro n hn
    unfold wrapFill
    by_cases h0 : n = 0
    · simp [h0]
    · have hpos : 0 < table.length := List.length_pos_iff.mpr hne
      have hmore : table.take n ≠ [] := by
        intro h
        have := congrArg List.length h
        rw [List.length_take, List.length_nil] at this
        omega
      simp only [h0, hmore, if_false]
      rw [List.length_append, ih _ (by simp; omega)]
      simp
      omega

theorem wrapFill_subset (table : List Nat) :
    ∀ fuel n, ∀ y ∈ wrapFill table fuel n, y ∈ table := by
  intro fuel
  induction fuel with
  | zero => intro n y hy; simp [wrapFill] at hy
  | succ f ih =>
    intro n y hy
    unfold wrapFill at hy
    by_cases h0 : n = 0
    · simp [h0] at hy
    · by_cases hmore : table.take n = []
      · simp [h0, hmore] at hy
      · simp only [h0, hmore, if_false] at hy
        rcases List.mem_append.mp hy with h | h
        · exact List.mem_of_mem_take h
        · exact ih _ y h

theorem wrapFill_of_le (table : List Nat) (fuel n : Nat) (hn : 0 < n) (hle : n ≤ table.length) :
    wrapFill table (fuel + 1) n = table.take n := by
  unfold wrapFill
  have h0 : n ≠ 0 := by omega
  have hmore : table.take n ≠ [] := by
    intro h
    have := congrArg List.length h
    rw [List.length_take, List.length_nil] at this
    omega
  simp only [h0, hmore, if_false]
  have : n - (table.take n).length = 0 := by simp; omega
  rw [this, wrapFill_zero]
  simp

theorem wrapFill_of_gt (table : List Nat) (fuel n : Nat) (hne : table ≠ [])
    (hgt : table.length < n) : ∀ y ∈ table, y ∈ wrapFill table (fuel + 1) n := by
  intro y hy
  unfold wrapFill
  have h0 : n ≠ 0 := by omega
  have ht : table.take n = table := List.take_of_length_le (by omega)
  simp only [h0, ht, hne, if_false]
  exact List.mem_append_left _ hy

/-! ## walkerGet -/

theorem walkerGet_ok (table : List Nat) (c k : Nat) (hk : 1 ≤ k) (hne : table ≠ []) :
    walkerGet table c k =
      .ok ((table.filter (fun i => decide (c ≤ i))).take k ++
            wrapFill table (k - ((table.filter (fun i => decide (c ≤ i))).take k).length)
              (k - ((table.filter (fun i => decide (c ≤ i))).take k).length))
          ((((table.filter (fun i => decide (c ≤ i))).take k ++
            wrapFill table (k - ((table.filter (fun i => decide (c ≤ i))).take k).length)
              (k - ((table.filter (fun i => decide (c ≤ i))).take k).length)).getLast?).getD 0
              + 1) := by
  unfold walkerGet
  have : ¬ k < 1 := by omega
  simp [this, hne]

/-- cyclic order of ids relative to `x`: ids above `x` (ascending) come first, then ids
    below `x` (ascending) -/
def before (x a b : Nat) : Prop :=
  (a > x ∧ b > x ∧ a < b) ∨ (a > x ∧ b < x) ∨ (a < x ∧ b < x ∧ a < b)

/-- `u` lies strictly before cursor `c` in the cyclic order relative to `x` -/
def beforeC (x u c : Nat) : Prop :=
  (u > x ∧ c > x ∧ u < c) ∨ (u > x ∧ c ≤ x) ∨ (u < x ∧ c ≤ x ∧ u < c)

theorem AscL.filter {l : List Nat} (h : AscL l) (p : Nat → Bool) : AscL (l.filter p) :=
  List.Pairwise.filter p h

theorem AscL.take {l : List Nat} (h : AscL l) (k : Nat) : AscL (l.take k) :=
  List.Pairwise.take h

/-- the per-call lemma -/
theorem walkerGet_skip (table : List Nat) (c k : Nat) (hk : 1 ≤ k) (x : Nat)
    (hasc : AscL table) (hx : x ∈ table) (items : List Nat) (c' : Nat)
    (h : walkerGet table c k = .ok items c') (hnot : x ∉ items) :
    items.length = k ∧ items.Pairwise (before x) ∧ (∀ y ∈ items, y ∈ table) ∧
    (∀ u, beforeC x u c → ∀ y ∈ items, before x u y) ∧
    (∀ y ∈ items, beforeC x y c') := by
  have hne : table ≠ [] := List.ne_nil_of_mem hx
  rw [walkerGet_ok table c k hk hne] at h
  injection h with hitems hc'
  generalize hF : table.filter (fun i => decide (c ≤ i)) = F at hitems hc'
  have hFasc : AscL F := hF ▸ hasc.filter _
  have hFmem : ∀ y ∈ F, c ≤ y ∧ y ∈ table := by
    intro y hy; rw [← hF] at hy; simpa [and_comm] using List.mem_filter.mp hy
  have hfirst_len : (F.take k).length ≤ k := by simp; omega
  by_cases hcx : c ≤ x
  · -- x is among the ids ≥ c, so the first k of them are all < x, no wrap
    have hxF : x ∈ F := by rw [← hF]; simp [hx, hcx]
    have hxn : x ∉ F.take k := by
      intro hh; apply hnot; rw [← hitems]; exact List.mem_append_left _ hh
    obtain ⟨hlen, hlt⟩ := hFasc.take_lt hxF hxn
    have hl : (F.take k).length = k := by simp; omega
    rw [hl, Nat.sub_self, wrapFill_zero, List.append_nil] at hitems hc'
    subst hitems
    have hasc' : AscL (F.take k) := hFasc.take k
    have hnn : F.take k ≠ [] := by
      intro hh; rw [hh] at hl; simp at hl; omega
    have hlast := getLast_mem hnn
    have hlastlt := hlt _ hlast
    have hle := hasc'.le_getLast
    refine ⟨hl, ?_, ?_, ?_, ?_⟩
    · refine List.Pairwise.imp_of_mem ?_ hasc'
      intro a b ha hb hab
      have := hlt a ha; have := hlt b hb
      unfold before; omega
    · intro y hy; exact (hFmem y (List.mem_of_mem_take hy)).2
    · intro u hu y hy
      have := hlt y hy
      have := (hFmem y (List.mem_of_mem_take hy)).1
      unfold before; unfold beforeC at hu; omega
    · intro y hy
      have := hlt y hy
      have := hle y hy
      unfold beforeC; omega
  · have hgt : ∀ y ∈ F.take k, x < y := by
      intro y hy
      have := (hFmem y (List.mem_of_mem_take hy)).1
      omega
    have hasc' : AscL (F.take k) := hFasc.take k
    have hle := hasc'.le_getLast
    by_cases hn0 : k - (F.take k).length = 0
    · rw [hn0, wrapFill_zero, List.append_nil] at hitems hc'
      subst hitems
      have hl : (F.take k).length = k := by omega
      have hnn : F.take k ≠ [] := by
        intro hh; rw [hh] at hl; simp at hl; omega
      have hlast := getLast_mem hnn
      have hlastgt := hgt _ hlast
      refine ⟨hl, ?_, ?_, ?_, ?_⟩
      · refine List.Pairwise.imp_of_mem ?_ hasc'
        intro a b ha hb hab
        have := hgt a ha; have := hgt b hb
        unfold before; omega
      · intro y hy; exact (hFmem y (List.mem_of_mem_take hy)).2
      · intro u hu y hy
        have := (hFmem y (List.mem_of_mem_take hy)).1
        unfold before; unfold beforeC at hu; omega
      · intro y hy
        have := hgt y hy
        have := hle y hy
        unfold beforeC; omega
    · generalize hn : k - (F.take k).length = n at hitems hc' hn0
      obtain ⟨n', rfl⟩ : ∃ n', n = n' + 1 := ⟨n - 1, by omega⟩
      have hnle : n' + 1 ≤ table.length := by
        apply Nat.le_of_not_lt
        intro hlt
        apply hnot; rw [← hitems]
        exact List.mem_append_right _ (wrapFill_of_gt table n' (n' + 1) hne hlt x hx)
      rw [wrapFill_of_le table n' (n' + 1) (by omega) hnle] at hitems hc'
      have hxB : x ∉ table.take (n' + 1) := by
        intro hh; apply hnot; rw [← hitems]; exact List.mem_append_right _ hh
      obtain ⟨_, hBlt⟩ := hasc.take_lt hx hxB
      have hBasc : AscL (table.take (n' + 1)) := hasc.take _
      have hBlen : (table.take (n' + 1)).length = n' + 1 := by simp; omega
      have hBnn : table.take (n' + 1) ≠ [] := by
        intro hh; rw [hh] at hBlen; simp at hBlen
      have hBlast := getLast_mem hBnn
      have hBle := hBasc.le_getLast
      have hlastB : ((F.take k ++ table.take (n' + 1)).getLast?).getD 0
          = (table.take (n' + 1)).getLast?.getD 0 := by
        rw [List.getLast?_append]
        cases hq : (table.take (n' + 1)).getLast? with
        | none => exact absurd (List.getLast?_eq_none_iff.mp hq) hBnn
        | some a => simp
      rw [hlastB] at hc'
      have hlastlt := hBlt _ hBlast
      subst hitems
      refine ⟨?_, ?_, ?_, ?_, ?_⟩
      · rw [List.length_append, hBlen]; omega
      · rw [List.pairwise_append]
        refine ⟨?_, ?_, ?_⟩
        · refine List.Pairwise.imp_of_mem ?_ hasc'
          intro a b ha hb hab
          have := hgt a ha; have := hgt b hb
          unfold before; omega
        · refine List.Pairwise.imp_of_mem ?_ hBasc
          intro a b ha hb hab
          have := hBlt a ha; have := hBlt b hb
          unfold before; omega
        · intro a ha b hb
          have := hgt a ha; have := hBlt b hb
          unfold before; omega
      · intro y hy
        rcases List.mem_append.mp hy with hy | hy
        · exact (hFmem y (List.mem_of_mem_take hy)).2
        · exact List.mem_of_mem_take hy
      · intro u hu y hy
        rcases List.mem_append.mp hy with hy | hy
        · have := (hFmem y (List.mem_of_mem_take hy)).1
          unfold before; unfold beforeC at hu; omega
        · have := hBlt y hy
          unfold before; unfold beforeC at hu; omega
      · intro y hy
        rcases List.mem_append.mp hy with hy | hy
        · have := hgt y hy
          unfold beforeC; omega
        · have := hBlt y hy
          have := hBle y hy
          unfold beforeC; omega

/-! ## walkerRun -/

theorem before_ne {x a b : Nat} (h : before x a b) : a ≠ b := by
  unfold before at h; omega

theorem beforeC_trans {x u y c : Nat} (h1 : before x u y) (h2 : beforeC x y c) :
    beforeC x u c := by
  unfold before at h1; unfold beforeC at h2 ⊢; omega

/-- invariant of a run in which `x` is always present but never returned -/
theorem walkerRun_skip (tables : Nat → List Nat) (c0 k : Nat) (hk : 1 ≤ k) (x : Nat)
    (univ : List Nat) :
    ∀ (m : Nat) (rets : List (List Nat)) (c : Nat),
      (∀ i, i < m → AscL (tables i)) → (∀ i, i < m → x ∈ tables i) →
      (∀ i, i < m → ∀ y ∈ tables i, y ∈ univ) →
      walkerRun tables c0 k m = some (rets, c) → (∀ r ∈ rets, x ∉ r) →
      rets.flatten.Pairwise (before x) ∧ rets.flatten.length = m * k ∧
      (∀ y ∈ rets.flatten, y ∈ univ) ∧ (∀ u ∈ rets.flatten, beforeC x u c) ∧
      x ∉ rets.flatten := by
  intro m
  induction m with
  | zero =>
    intro rets c _ _ _ hrun _
    simp only [walkerRun, Option.some.injEq, Prod.mk.injEq] at hrun
    obtain ⟨rfl, rfl⟩ := hrun
    simp
  | succ m ih =>
    intro rets c hasc hx hu hrun hnot
    unfold walkerRun at hrun
    cases hprev : walkerRun tables c0 k m with
    | none => simp [hprev] at hrun
    | some p =>
      obtain ⟨rets0, c1⟩ := p
      simp only [hprev] at hrun
      cases hget : walkerGet (tables m) c1 k with
      | valueError => simp [hget] at hrun
      | doesNotExist => simp [hget] at hrun
      | ok items c' =>
        simp only [hget, Option.some.injEq, Prod.mk.injEq] at hrun
        obtain ⟨rfl, rfl⟩ := hrun
        have hnot0 : ∀ r ∈ rets0, x ∉ r := fun r hr => hnot r (List.mem_append_left _ hr)
        have hnotI : x ∉ items := hnot items (by simp)
        obtain ⟨hpw, hlen, hsub, hbef, hxn⟩ :=
          ih rets0 c1 (fun i hi => hasc i (by omega)) (fun i hi => hx i (by omega))
            (fun i hi => hu i (by omega)) hprev hnot0
        obtain ⟨ilen, ipw, isub, icross, ibef⟩ :=
          walkerGet_skip (tables m) c1 k hk x (hasc m (by omega)) (hx m (by omega))
            items c' hget hnotI
        have hflat : (rets0 ++ [items]).flatten = rets0.flatten ++ items := by simp
        rw [hflat]
        have hinn : items ≠ [] := by
          intro hh; rw [hh] at ilen; simp at ilen; omega
        obtain ⟨y0, hy0⟩ := List.exists_mem_of_ne_nil items hinn
        refine ⟨?_, ?_, ?_, ?_, ?_⟩
        · rw [List.pairwise_append]
          exact ⟨hpw, ipw, fun u hu' y hy => icross u (hbef u hu') y hy⟩
        · rw [List.length_append, hlen, ilen, Nat.succ_mul]
        · intro y hy
          rcases List.mem_append.mp hy with hy | hy
          · exact hsub y hy
          · exact hu m (by omega) y (isub y hy)
        · intro u hu'
          rcases List.mem_append.mp hu' with hu' | hu'
          · exact beforeC_trans (icross u (hbef u hu') y0 hy0) (ibef y0 hy0)
          · exact ibef u hu'
        · intro hh
          rcases List.mem_append.mp hh with hh | hh
          · exact hxn hh
          · exact hnotI hh

/-- counting form of no-starvation, with `x ∈ univ` assumed outright (so that it also holds
    for the empty window `m = 0`) -/
theorem walkerRun_no_starvation (tables : Nat → List Nat) (c0 k m : Nat) (hk : 1 ≤ k) (x : Nat)
    (hasc : ∀ i, i < m → AscL (tables i)) (hx : ∀ i, i < m → x ∈ tables i)
    (univ : List Nat) (hu : ∀ i, i < m → ∀ y ∈ tables i, y ∈ univ) (hxu : x ∈ univ)
    (rets : List (List Nat)) (c : Nat) (hrun : walkerRun tables c0 k m = some (rets, c))
    (hnot : ∀ r ∈ rets, x ∉ r) :
    m * k + 1 ≤ univ.length := by
  obtain ⟨hpw, hlen, hsub, _, hxn⟩ :=
    walkerRun_skip tables c0 k hk x univ m rets c hasc hx hu hrun hnot
  have hnd : (x :: rets.flatten).Nodup := by
    rw [List.nodup_cons]
    exact ⟨hxn, hpw.imp before_ne⟩
  have hsub' : ∀ y ∈ x :: rets.flatten, y ∈ univ := by
    intro y hy
    rcases List.mem_cons.mp hy with rfl | hy
    · exact hxu
    · exact hsub y hy
  have := nodup_length_le_of_subset hnd hsub'
  simp only [List.length_cons, hlen] at this
  exact this

end Alpen
