"""C19 — auto-verification walker: real QueryWalker on SQLite vs Lean model vs cyclic-order oracle."""
import datetime
import json
import os
import time

import common
import env as envmod

MODULE = "Alpen.Props.C19"


def ref_get(table, cursor, k):
    """Oracle written from the property text: walk the ids in a cycle starting at the first id >= cursor."""
    if not table:
        return None
    ge = [i for i in table if i >= cursor]
    seq = ge + table * (k // len(table) + 2)
    out = seq[:k]
    return out


def mutate(rng, ctx, node, files_pool):
    """random churn between calls; returns description"""
    from alpenhorn.db import ArchiveFileCopy, ArchiveFile
    acts = []
    for _ in range(rng.choice([0, 0, 1, 1, 2, 3])):
        r = rng.random()
        rows = list(ArchiveFileCopy.select().where(ArchiveFileCopy.node == node))
        if r < 0.35:
            f = files_pool()
            c = ArchiveFileCopy.create(file=f, node=node, has_file=rng.choice("YYYMX"), wants_file="Y")
            acts.append(("ins", c.id))
        elif r < 0.6 and rows:
            c = rng.choice(rows)
            ArchiveFileCopy.delete().where(ArchiveFileCopy.id == c.id).execute()
            acts.append(("del", c.id))
        elif rows:
            c = rng.choice(rows)
            new = rng.choice("NYMX")
            ArchiveFileCopy.update(has_file=new).where(ArchiveFileCopy.id == c.id).execute()
            acts.append(("set", c.id, new))
    return acts


def table_of(node):
    from alpenhorn.db import ArchiveFileCopy
    return sorted(c.id for c in ArchiveFileCopy.select(ArchiveFileCopy.id).where(
        ArchiveFileCopy.node == node, ArchiveFileCopy.has_file != "N"))


def one_sequence(ctx, rng, seqno, record):
    """Runs one real walker sequence; appends (model op, real answer, meta) to record."""
    import peewee as pw
    from alpenhorn.daemon.querywalker import QueryWalker
    from alpenhorn.db import ArchiveAcq, ArchiveFile, ArchiveFileCopy, StorageGroup, StorageNode
    for m in (ArchiveFileCopy, ArchiveFile, ArchiveAcq, StorageNode, StorageGroup):
        m.delete().execute()
    g = StorageGroup.create(name="g")
    node = StorageNode.create(name="n", group=g, root="/r", host="h1", active=True)
    other = StorageNode.create(name="o", group=g, root="/o", host="h1", active=True)
    acq = ArchiveAcq.create(name="a")
    cnt = [0]

    def newfile():
        cnt[0] += 1
        return ArchiveFile.create(acq=acq, name=f"f{cnt[0]}", size_b=1, md5sum="0" * 32)
    n0 = rng.choice([0, 1, 1, 2, 3, 4, 5, 7, 10, 16])
    for _ in range(n0):
        f = newfile()
        ArchiveFileCopy.create(file=f, node=node, has_file=rng.choice("YYYYMXN"), wants_file="Y")
        if rng.random() < 0.3:
            ArchiveFileCopy.create(file=f, node=other, has_file="Y", wants_file="Y")   # other node: never in the table
    try:
        w = QueryWalker(ArchiveFileCopy, ArchiveFileCopy.node == node, ArchiveFileCopy.has_file != "N")
    except pw.DoesNotExist:
        record.append(("init-empty", table_of(node), None, None, None))
        return
    calls = rng.randint(1, 8)
    window = []
    for ci in range(calls):
        acts = mutate(rng, ctx, node, newfile) if ci > 0 or rng.random() < 0.3 else []
        table = table_of(node)
        cursor = w._id
        k = rng.choice([1, 1, 2, 2, 3, 4, 5, 8, len(table) + 1, 2 * len(table) + 1])
        if rng.random() < 0.03:
            k = 0
        try:
            items = [c.id for c in w.get(k)]
            real = ("ok", items, w._id)
        except pw.DoesNotExist:
            real = ("doesNotExist",)
        except ValueError:
            real = ("valueError",)
        record.append(("walk", table, cursor, k, real, seqno, ci, acts))
        window.append((table, k, real))
        if real[0] != "ok":
            break


def run_walker(ctx):
    rng = ctx.rng
    drv = common.Driver()
    nseq = 1500 if ctx.quick() else 40000
    record = []
    with envmod.Env() as e:
        for s in range(nseq):
            one_sequence(ctx, rng, s, record)
    ops = []
    idx = []
    for i, r in enumerate(record):
        if r[0] == "walk":
            _, table, cursor, k, real, *_ = r
            ops.append(f"walk {','.join(map(str, table)) or '-'} {cursor} {k}")
            idx.append(i)
    outs = drv.batch(ops)
    ndiv = 0
    # per-sequence windows for the bound oracle
    seqs = {}
    for j, i in enumerate(idx):
        _, table, cursor, k, real, seqno, ci, acts = record[i]
        m = outs[j].split()
        if real[0] == "ok":
            real_s = f"ok {','.join(map(str, real[1])) if real[1] else '-'} {real[2]}"
        else:
            real_s = real[0]
        kind = real[0] + (":wrap" if real[0] == "ok" and table and len([x for x in table if x >= cursor]) < k else "")
        ctx.count(kind)
        ctx.case(("walk", tuple(table), cursor, k), nontrivial=len(table) > 0 and k > 0,
                 sample={"table": table, "cursor": cursor, "k": k, "real": real_s, "model": outs[j], "churn": acts}
                 if j % 997 == 3 else None)
        if real_s != outs[j]:
            ndiv += 1
            if ndiv <= 5:
                ctx.corr_broken.append({"stream": "QueryWalker.get-vs-walkerGet", "table": table, "cursor": cursor, "k": k,
                                        "real": real_s, "model": outs[j]})
        # oracle: property text
        if k >= 1 and table:
            exp = ref_get(table, cursor, k)
            if real[0] != "ok":
                ctx.violation(f"walk:raise:{len(table)}:{k}", f"get({k}) raised {real[0]} on a non-empty table",
                              {"kind": "walk", "table": table, "cursor": cursor, "k": k, "real": real_s})
            elif real[1] != exp or real[2] != exp[-1] + 1:
                ctx.violation(f"walk:{','.join(map(str, table))[:40]}:{cursor}:{k}",
                              f"get({k}) with cursor {cursor} on table {table} returned {real[1]} (cursor {real[2]}); "
                              f"the cyclic walk gives {exp}",
                              {"kind": "walk", "table": table, "cursor": cursor, "k": k, "real": real_s, "expected": exp})
        seqs.setdefault(seqno, []).append((table, k, real))
    # bound oracle: every id present throughout a window with constant k is returned within floor((N-1)/k)+1 calls
    nb = 0
    for seqno, calls in seqs.items():
        for start in range(len(calls)):
            k = calls[start][1]
            if k < 1:
                continue
            union = set()
            always = None
            for m, (table, kk, real) in enumerate(calls[start:], 1):
                if kk != k or real[0] != "ok":
                    break
                union |= set(table)
                always = set(table) if always is None else (always & set(table))
                returned = set()
                for (_, _, r2) in calls[start:start + m]:
                    returned |= set(r2[1])
                N = len(union)
                for x in always:
                    if x not in returned and m * k > N - 1:
                        ctx.violation(f"bound:{seqno}:{start}:{x}",
                                      f"id {x} present throughout {m} calls (k={k}, N={N}) was never returned: bound floor((N-1)/k)+1 exceeded",
                                      {"kind": "bound", "calls": [(t, kk2, r2) for (t, kk2, r2) in calls[start:start + m]], "x": x})
                nb += 1
    ctx.coverage["bound_windows_checked"] = nb
    return ndiv


def run_autoverify(ctx):
    """run_auto_verify through the real UpdateableNode with a virtual clock."""
    import alpenhorn.daemon.update as upd
    from alpenhorn.db import ArchiveAcq, ArchiveFile, ArchiveFileCopy, StorageGroup, StorageNode
    from alpenhorn.scheduler import FairMultiFIFOQueue
    rng = ctx.rng
    drv = common.Driver()
    os.environ["TZ"] = "UTC"
    time.tzset()
    ops, reals, metas = [], [], []
    n = 150 if ctx.quick() else 3000

    class FakeTime:
        now = 0

        @staticmethod
        def time():
            return FakeTime.now
    real_time = upd.time
    upd.time = FakeTime
    real_get = upd.QueryWalker.get
    batch = []

    def rec_get(self_, k_):
        out = real_get(self_, k_)
        batch.append([c.id for c in out])
        return out
    upd.QueryWalker.get = rec_get
    try:
        with envmod.Env() as e:
            root = e.root("n")
            for it in range(n):
                for m in (ArchiveFileCopy, ArchiveFile, ArchiveAcq, StorageNode, StorageGroup):
                    m.delete().execute()
                g = StorageGroup.create(name="g")
                k = rng.choice([1, 2, 3, 5])
                node = StorageNode.create(name="n", group=g, root=root, host="h1", active=True, auto_verify=k)
                acq = ArchiveAcq.create(name="a")
                now = 2_000_000_000 + rng.randint(0, 10 ** 6)
                FakeTime.now = now
                min_days = rng.choice([0, 1, 7, 30])
                e.config.config["daemon"]["auto_verify_min_days"] = min_days
                lus = {}
                for i in range(rng.randint(1, 6)):
                    f = ArchiveFile.create(acq=acq, name=f"f{i}", size_b=1, md5sum="0" * 32)
                    delta = rng.choice([0, 1, 86400 * min_days - 1, 86400 * min_days, 86400 * min_days + 1,
                                        86400 * (min_days + 3), rng.randint(0, 86400 * 40)])
                    delta = max(delta, 0)
                    lu = now - delta
                    c = ArchiveFileCopy.create(file=f, node=node, has_file=rng.choice("YYYX"), wants_file="Y",
                                               last_update=datetime.datetime.fromtimestamp(lu, datetime.timezone.utc).replace(tzinfo=None))
                    lus[c.id] = lu
                un = upd.UpdateableNode(FairMultiFIFOQueue(), StorageNode.get(id=node.id))
                # two successive iterations
                for rep in range(2):
                    before = {c.id: c.has_file for c in ArchiveFileCopy.select()}
                    table = sorted(i for i, h in before.items() if h != "N")
                    del batch[:]
                    un.run_auto_verify() if un._av_walker is not None or True else None
                    after = {c.id: c.has_file for c in ArchiveFileCopy.select()}
                    flipped = sorted(i for i in after if after[i] == "M" and before[i] != "M")
                    # every copy the walker handed out that is older than the minimum age is re-queued, wherever it stands in
                    # the batch (the walker has moved past it: it would not be looked at again for a whole cycle)
                    for b_ in batch:
                        want = sorted(set(i for i in b_ if now - lus[i] > 86400 * min_days and before.get(i) != "M"))
                        if want != flipped:
                            ctx.violation(f"selected-not-requeued:k={k}", f"auto-verify handed out the batch {b_} (ages in days "
                                          f"{[round((now - lus[i]) / 86400, 2) for i in b_]}, minimum {min_days}); copies {want} are old "
                                          f"enough to be re-queued, but {flipped} were", {"kind": "avbatch", "batch": b_, "min_days": min_days})
                    # the cursor the call used: reconstruct from the walker (cursor after) is not enough; record via model below
                    metas.append((table, k, now, min_days, dict(lus), before, flipped, un._av_walker._id if un._av_walker else None))
                    for i in flipped:
                        lus[i] = now   # last_update refreshed
    finally:
        upd.time = real_time
        upd.QueryWalker.get = real_get
    # model: the batch is whatever ids the walker returned; we do not know the random start, so we check the
    # filter for every possible batch member: flipped == {i in batch | old enough}; batch ⊆ table, |batch| = k.
    for (table, k, now, md, lus, before, flipped, cur) in metas:
        allpairs = ",".join(f"{i}:{lus[i]}" for i in table) or "-"
        ops.append(f"avsel {now} {md} {allpairs}")
    outs = drv.batch(ops)
    for (table, k, now, md, lus, before, flipped, cur), out in zip(metas, outs):
        eligible = set(map(int, out.split(","))) if out != "-" else set()
        ctx.case(("av", tuple(table), k, md, tuple(sorted(lus.items()))), nontrivial=bool(table),
                 sample={"table": table, "k": k, "min_days": md, "ages_s": {i: now - lus[i] for i in table},
                         "flipped_to_M": flipped, "model_old_enough": sorted(eligible)} if len(ctx.samples) < 6 and flipped else None)
        ctx.count("autoverify:flipped" if flipped else "autoverify:none")
        # property oracle: only copies older than the minimum age are re-queued
        for i in flipped:
            if before[i] == "M":
                continue
            if not (now - lus[i] > 86400 * md):
                ctx.violation(f"age:{now - lus[i]}:{md}", f"copy aged {now - lus[i]} s re-queued with min age {md} d",
                              {"kind": "age", "age_s": now - lus[i], "min_days": md})
        if not set(flipped) <= eligible:
            ctx.corr_broken.append({"stream": "run_auto_verify-vs-autoVerifySelect", "flipped": flipped, "model": sorted(eligible)})
        # at most k per iteration, and if all table members are old enough and |table| <= k then all are flipped
        if len(flipped) > k:
            ctx.violation(f"avcount:{k}", f"{len(flipped)} copies re-queued in one iteration with auto_verify={k}",
                          {"kind": "avcount", "k": k, "flipped": flipped})
        cand = {i for i in table if before[i] != "M"}
        if len(table) <= k and not (eligible & cand) <= set(flipped):
            ctx.corr_broken.append({"stream": "run_auto_verify-misses-old-copy", "flipped": flipped, "model": sorted(eligible), "table": table})


def run_lifecycle(ctx):
    """the walker's life across main-loop iterations: `reinit(fresh row)` then `update_idle()` as update_loop does, several
    iterations, with records added/removed in between; the batches handed out (recorded at QueryWalker.get) must continue
    where the previous one stopped, so every copy present throughout is selected again within ceil(N/k)+1 iterations"""
    import alpenhorn.daemon.update as upd
    from alpenhorn.db import ArchiveAcq, ArchiveFile, ArchiveFileCopy, StorageGroup, StorageNode
    from alpenhorn.scheduler import FairMultiFIFOQueue
    rng = ctx.rng
    n = 60 if ctx.quick() else 1500
    batches = []
    real_get = upd.QueryWalker.get

    def rec_get(self_, k):
        out = real_get(self_, k)
        batches.append([c.id for c in out])
        return out
    upd.QueryWalker.get = rec_get
    try:
        with envmod.Env() as e:
            root = e.root("n")
            with open(os.path.join(root, "ALPENHORN_NODE"), "w") as fh:
                fh.write("n\n")
            e.config.config["daemon"]["auto_verify_min_days"] = 10 ** 6      # nothing is old enough: the table does not change by itself
            for it in range(n):
                for m in (ArchiveFileCopy, ArchiveFile, ArchiveAcq, StorageNode, StorageGroup):
                    m.delete().execute()
                g = StorageGroup.create(name="g")
                k = rng.choice([1, 2, 3, 5])
                N = rng.randint(k + 1, 14)
                node = StorageNode.create(name="n", group=g, root=root, host="h1", active=True, auto_verify=k)
                acq = ArchiveAcq.create(name="a")
                ids = []
                for i in range(N):
                    f = ArchiveFile.create(acq=acq, name=f"f{i}", size_b=1, md5sum="0" * 32)
                    # tracked copies in every state the walker must visit: healthy, corrupt, suspect (all but "N")
                    ids.append(ArchiveFileCopy.create(file=f, node=node, has_file=rng.choice("YYYXM"), wants_file="Y").id)
                un = upd.UpdateableNode(FairMultiFIFOQueue(), StorageNode.get(id=node.id))
                permanent = set(ids)
                bound = -(-N // k) + 1
                iters = bound + rng.randint(0, 2)
                del batches[:]
                churn = rng.random() < 0.5
                maxN = N
                # one run in five: the node is emptied for a while in mid-cycle (every tracked copy recorded removed, as when a
                # transport disk is cleaned out) and its copies come back later
                empty_at = rng.randint(1, max(1, iters - 2)) if it % 5 == 2 else None
                emptied = {}
                raised = None
                for t in range(iters):
                    if empty_at is not None and t == empty_at:
                        emptied = {c.id: c.has_file for c in ArchiveFileCopy.select().where(ArchiveFileCopy.node == node)}
                        ArchiveFileCopy.update(has_file="N").where(ArchiveFileCopy.node == node).execute()
                    elif empty_at is not None and t == empty_at + 2:
                        for cid, h in emptied.items():
                            ArchiveFileCopy.update(has_file=h).where(ArchiveFileCopy.id == cid).execute()
                    un.reinit(StorageNode.get(id=node.id))          # once per main-loop iteration
                    un._updated = True
                    un._io_happened = rng.random() < 0.5       # I/O happened during this pass: the idle hook then queues a tidy-up
                    try:
                        un.update_idle()
                    except Exception as ex:  # noqa -- nothing above update_idle catches it: the daemon's main loop dies
                        raised = f"{type(ex).__name__}: {ex}"
                        ctx.violation(f"lifecycle:raised:k={k}", f"idle iteration {t + 1} on a node with auto_verify={k} raised {raised} "
                                      f"({'the node had just been emptied' if empty_at is not None and t >= empty_at else 'table ' + str(N)}): "
                                      f"auto-verification (and the daemon) stops", {"kind": "lifecycle", "N": N, "k": k, "iteration": t,
                                                                                  "emptied_at": empty_at})
                        break
                    item = un._queue.get(timeout=0.001)       # run what the idle update queued (tidy-up): the node is idle again
                    while item is not None:
                        item[0]()
                        un._queue.task_done(item[1])
                        item = un._queue.get(timeout=0.001)
                    if churn and rng.random() < 0.5:
                        victim = rng.choice(sorted(permanent))
                        if len(permanent) > k + 1 and rng.random() < 0.5:
                            ArchiveFileCopy.delete().where(ArchiveFileCopy.id == victim).execute()
                            permanent.discard(victim)
                        else:
                            f = ArchiveFile.create(acq=acq, name=f"x{t}", size_b=1, md5sum="0" * 32)
                            ArchiveFileCopy.create(file=f, node=node, has_file="Y", wants_file="Y")
                            maxN += 1
                if empty_at is not None or raised:
                    ctx.count(f"lifecycle:emptied:k={k}")
                    ctx.case(("lifecycle-emptied", N, k, iters, empty_at), nontrivial=True)
                    continue           # the cycle oracles below are for tables that exist throughout
                if len(batches) != iters:
                    ctx.violation(f"lifecycle:skipped:k={k}", f"{iters} idle main-loop iterations on a node with auto_verify={k} handed out "
                                  f"{len(batches)} batches: auto-verification was skipped in {iters - len(batches)} of them",
                                  {"kind": "lifecycle", "N": N, "k": k, "iterations": iters, "batches": batches})
                seen = set(i for b in batches for i in b)
                # bound for the window actually run: with N' = the largest table size seen, ceil(N'/k)+1 iterations suffice
                need = -(-maxN // k) + 1
                ctx.case(("lifecycle", N, k, iters, churn, tuple(map(tuple, batches))), nontrivial=True,
                         sample={"N": N, "k": k, "iterations": iters, "batches": batches[:8]} if len(ctx.samples) < 6 and it < 2 else None)
                ctx.count(f"lifecycle:k={k}:churn={int(churn)}")
                if iters >= need and not permanent <= seen:
                    ctx.violation(f"lifecycle:missed:k={k}", f"auto-verify over {iters} main-loop iterations (N={N}..{maxN}, k={k}) never selected "
                                  f"copies {sorted(permanent - seen)[:6]} although they existed throughout; batches {batches}",
                                  {"kind": "lifecycle", "N": N, "k": k, "iterations": iters, "batches": batches})
                # continuation: without churn, consecutive batches are consecutive runs of the cyclic id order
                if not churn and len(batches) >= 2:
                    order = sorted(ids)
                    for a, b in zip(batches, batches[1:]):
                        if a and b and order[(order.index(a[-1]) + 1) % len(order)] != b[0]:
                            ctx.violation(f"lifecycle:restart:k={k}", f"a batch did not continue where the previous one stopped: {a} then {b} "
                                          f"(table {order})", {"kind": "lifecycle", "N": N, "k": k, "batches": batches})
                            break
    finally:
        upd.QueryWalker.get = real_get


def run(ctx):
    ok = common.proof_stage(ctx, MODULE)
    run_walker(ctx)
    run_autoverify(ctx)
    run_lifecycle(ctx)
    ctx.coverage["rule"] = ("random walker sequences on SQLite through the real QueryWalker: table sizes 0..16, k incl. 0, k>N, 2N+1; "
                            "observed random start; insert/delete/state-flip churn between calls; each call compared with the Lean "
                            "model (same table, cursor, k) and with a cyclic-order oracle; bound floor((N-1)/k)+1 checked on every "
                            "constant-k window; run_auto_verify through the real UpdateableNode with a virtual clock at age boundaries. "
                            "distinct = (table, cursor, k) triples; non-trivial = non-empty table and k>=1")
    from props.c06 import finish_search
    finish_search(ctx, ok)


def replay(ctx, path):
    r = json.load(open(path))
    print(json.dumps(r, indent=1)[:3000])
    if r.get("kind") == "walk":
        import peewee as pw
        from alpenhorn.daemon.querywalker import QueryWalker
        with envmod.Env():
            from alpenhorn.db import ArchiveAcq, ArchiveFile, ArchiveFileCopy, StorageGroup, StorageNode
            g = StorageGroup.create(name="g")
            node = StorageNode.create(name="n", group=g, root="/r")
            acq = ArchiveAcq.create(name="a")
            for i in r["table"]:
                f = ArchiveFile.create(acq=acq, name=f"f{i}")
                ArchiveFileCopy.insert(id=i, file=f, node=node, has_file="Y").execute()
            w = QueryWalker(ArchiveFileCopy, ArchiveFileCopy.node == node)
            w._id = r["cursor"]
            try:
                got = [c.id for c in w.get(r["k"])]
            except Exception as ex:  # noqa
                got = repr(ex)
            exp = ref_get(r["table"], r["cursor"], r["k"])
            print("real:", got, "cursor", w._id, "expected:", exp)
            return 0 if got == exp else 1
    import sys
    return common.replay_by_rerun(ctx, path, sys.modules[__name__])
