/-
  Model of the directory-tree lock `alpenhorn.io.updownlock._UpDownLock` (repaired
  structure: one mutex guards the state *and* is the condition's lock; the predicate is
  re-checked after every wake-up).  Any number of threads (thread ids are `Nat`).

  Granularity: every access to the lock's state happens inside the mutex, and a section
  never blocks while holding it, so a run is a sequence of *critical sections*, ordered by
  mutex acquisition.  One `UOp` = one critical section.  Core Lean only.
-/
namespace Alpen

/-- a thread parked in `Condition.wait` -/
structure Park where
  isDown : Bool
  deadline : Option Nat     -- absolute virtual time; `none` = wait for ever
  notified : Bool
  deriving DecidableEq, Repr

structure UD where
  count : Int                     -- >0: held "up" count times; <0: held "down" -count times
  owners : Nat → Nat              -- `_owners`
  ups : List Nat                  -- ghost: one entry per outstanding "up" acquisition
  downs : List Nat                -- ghost: one entry per outstanding "down" acquisition
  parked : Nat → Option Park
  clock : Nat

def UD.init : UD := ⟨0, fun _ => 0, [], [], fun _ => none, 0⟩

def upd {α} (f : Nat → α) (k : Nat) (v : α) : Nat → α := fun i => if i = k then v else f i

inductive UOut where
  | acquired | refused | timedOut | parked | error | released | ignored
  deriving DecidableEq, Repr

inductive UOp where
  | acq (t : Nat) (isDown blocking : Bool) (timeout : Option Nat)   -- a fresh `acquire` call
  | wake (t : Nat)                                                  -- a parked thread re-enters the mutex
  | rel (t : Nat) (isDown : Bool)                                   -- a `release` call
  | tick (dt : Nat)
  deriving DecidableEq, Repr

/-- may a thread wanting state `isDown` take the lock when the counter is `count`? -/
def okToLock (count : Int) (isDown : Bool) : Bool :=
  if isDown then decide (count ≤ 0) else decide (count ≥ 0)

/-- the lock is held in the state that excludes `isDown` -/
def Blocks (count : Int) (isDown : Bool) : Prop := if isDown then count > 0 else count < 0

def grant (s : UD) (t : Nat) (isDown : Bool) : UD :=
  { s with count := if isDown then s.count - 1 else s.count + 1
           owners := upd s.owners t (s.owners t + 1)
           ups := if isDown then s.ups else t :: s.ups
           downs := if isDown then t :: s.downs else s.downs
           parked := upd s.parked t none }

/-- the body of the (re-)check section of `acquire` -/
def attempt (s : UD) (t : Nat) (isDown blocking : Bool) (deadline : Option Nat) (fresh : Bool) : UD × UOut :=
  if okToLock s.count isDown then (grant s t isDown, .acquired)
  else if s.owners t > 0 then ({ s with parked := upd s.parked t none }, .error)
  else if !blocking then ({ s with parked := upd s.parked t none }, .refused)
  else match deadline with
    | some d =>
      if d ≤ s.clock then ({ s with parked := upd s.parked t none }, if fresh then .refused else .timedOut)
      else ({ s with parked := upd s.parked t (some ⟨isDown, deadline, false⟩) }, .parked)
    | none => ({ s with parked := upd s.parked t (some ⟨isDown, none, false⟩) }, .parked)

def ustep (s : UD) : UOp → UD × UOut
  | .acq t isDown blocking timeout =>
    match s.parked t with
    | some _ => (s, .ignored)                       -- a parked thread cannot start a call
    | none => attempt s t isDown blocking (timeout.map (· + s.clock)) true
  | .wake t =>
    match s.parked t with
    | none => (s, .ignored)
    | some p => attempt s t p.isDown true p.deadline false
  | .rel t isDown =>
    match s.parked t with
    | some _ => (s, .ignored)
    | none =>
      let okc := if isDown then decide (s.count < 0) else decide (s.count > 0)
      if okc && decide (s.owners t > 0) then
        let c' := if isDown then s.count + 1 else s.count - 1
        let s' := { s with count := c'
                           owners := upd s.owners t (s.owners t - 1)
                           ups := if isDown then s.ups else s.ups.erase t
                           downs := if isDown then s.downs.erase t else s.downs }
        -- notify_all when the lock becomes free
        if c' = 0 then
          ({ s' with parked := fun i => (s'.parked i).map (fun p => { p with notified := true }) }, .released)
        else (s', .released)
      else (s, .error)
  | .tick dt => ({ s with clock := s.clock + dt }, .ignored)

def urun (s : UD) (ops : List UOp) : UD := ops.foldl (fun st op => (ustep st op).1) s

end Alpen
