#!/venv/bin/python
"""Scripted stand-ins for rsync / bbcp.  Behaviour is chosen by the JSON file named in $VERIF_TOOL_CTL:
   {"mode": "ok" | "fail-src" | "fail-mkstemp" | "fail-write" | "partial" | "badmd5" | "garbled", "log": [...]}.
Remote specs user@host:/path are resolved locally."""
import hashlib
import json
import os
import shutil
import sys


def local(spec):
    if ":" in spec and "@" in spec.split(":", 1)[0]:
        return spec.split(":", 1)[1]
    return spec


def main():
    name = os.path.basename(sys.argv[0])
    ctl = os.environ.get("VERIF_TOOL_CTL")
    mode = "ok"
    if ctl and os.path.exists(ctl):
        with open(ctl) as f:
            c = json.load(f)
        mode = c.get("mode", "ok")
        c.setdefault("log", []).append([name] + sys.argv[1:])
        with open(ctl, "w") as f:
            json.dump(c, f)
    src, dst = local(sys.argv[-2]), sys.argv[-1]
    if mode == "hang":
        import time
        time.sleep(3)
        return 0
    if mode == "fail-src":
        sys.stderr.write(f'{name}: link_stat "{src}" failed: No such file or directory (2)\n')
        return 23
    if mode == "fail-mkstemp":
        sys.stderr.write(f'{name}: mkstemp "{dst}.XXXXXX" failed: Permission denied (13)\n')
        return 23
    if mode == "fail-write":
        sys.stderr.write(f'{name}: write failed on "{dst}": No space left on device (28)\n')
        return 11
    if mode == "partial":
        with open(src, "rb") as f:
            data = f.read()
        # a truncated file left at the destination path; written beside it and renamed (as the tools do), never in place:
        # an existing destination may be a hard link shared with another node
        tmp = dst + ".part%d" % os.getpid()
        with open(tmp, "wb") as f:
            f.write(data[:max(1, len(data) // 2)])
        os.replace(tmp, dst)
        sys.stderr.write(f"{name}: connection unexpectedly closed\n")
        return 12
    if not os.path.exists(src):
        sys.stderr.write(f'{name}: link_stat "{src}" failed: No such file or directory (2)\n')
        return 23
    tmp = dst + ".tmp%d" % os.getpid()
    shutil.copyfile(src, tmp)
    os.replace(tmp, dst)
    if name == "bbcp":
        with open(src, "rb") as f:
            d = hashlib.md5(f.read()).hexdigest()
        if mode == "badmd5":
            d = ("0" if d[0] != "0" else "1") + d[1:]
        if mode != "garbled":
            sys.stderr.write(f"bbcp: checksum md5 {d} {src}\n")
    return 0


sys.exit(main())
