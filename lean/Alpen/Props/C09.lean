import Alpen.Model.Daemon
import Alpen.Lemmas.World
import Alpen.Lemmas.Daemon2
/-!
# C09 — crash consistency of imports, transfers, checks and deletions

"If a daemon is killed at any instant during an import, transfer, verification or deletion, then
after restart the index never records a healthy copy or a completed request that the
destination's bytes do not back, no healthy copy's bytes have been lost, and the interrupted item
is completed or safely retried …"

A task is its list of primitive effects (`pullPrims`, `deletePrims`; a check and an import are
single index updates after read-only work); a crash (process death) leaves an arbitrary prefix
applied.  `CrashInv` speaks of copies recorded healthy and *wanted* (a copy the daemon has decided
to delete — released or removable under pressure — may lose its bytes before its row is updated;
the retry finds the file gone and completes the update).  Power loss / fsync are outside.
-/
namespace Alpen
open World

/-- wanted healthy copies have bytes; completed requests have a copy in their destination group -/
def World.CrashInvW (w : World) (tr : Tracked) : Prop :=
  (∀ c ∈ w.copies, (c.node, c.file) ∉ tr → c.has = .Y → c.wants = .Y → (w.diskAt c.node c.file).isSome) ∧
  (∀ r ∈ w.reqs, r.completed = true → ∃ c ∈ w.copies, c.file = r.file ∧ w.groupOfNode c.node = some r.groupTo)

theorem CrashInvW_iff (w : World) (tr : Tracked) :
    w.CrashInvW tr ↔ w.WantedBacked tr ∧ w.CompletedBacked := Iff.rfl

/-- COUNTEREXAMPLE to the statement of `C09_pull_crash_safe` as originally given (nothing related
    the captured request row `r` to the stored request rows): `reqCompleted r.id` completes every
    stored request with id `r.id`.  Here the stored request 1 asks for file 7 into group 9, while
    the captured row with the same id says file 1 into group 1: after the transaction (k = 4)
    the stored request is completed although no copy row of file 7 exists at all. -/
theorem C09_pull_crash_safe_original_false :
    ∃ (w : World) (tr : Tracked) (r : WReq) (dest : Nat) (bytes : OnDisk) (k : Nat),
      w.WellFormed ∧ w.CrashInvW tr ∧ w.filecopyState r.file dest ≠ .Y ∧
      w.groupOfNode dest = some r.groupTo ∧
      ¬ (w.applyPrims ((pullPrims w r dest bytes).take k)).CrashInvW tr := by
  refine ⟨⟨[⟨1, 1, 0, true, .A, none, 0, none, false⟩], [], [], [⟨1, 7, 2, 9, false, false⟩], [], [], [], 2⟩,
    [], ⟨1, 1, 2, 1, false, false⟩, 1, ⟨1, 1⟩, 4, ⟨?_, ?_, ?_, ?_⟩, ?_, ?_, ?_, ?_⟩
  · unfold UniqueCopies; decide
  · decide
  · decide
  · decide
  · unfold CrashInvW; decide
  · decide
  · decide
  · unfold CrashInvW; decide

/-- **C09.1 (transfer)** every crash prefix of a successful pull keeps the invariant.
    CHANGED w.r.t. the original statement: hypothesis `hrid` added — the request row captured at
    dispatch agrees on file and destination group with every stored request row of the same id.
    It holds of real index states (request ids are a primary key, a request row never changes
    its file or group): it follows from `r ∈ w.reqs` and unique request ids, see
    `C09_pull_crash_safe_of_mem`.  Without it the statement is false:
    `C09_pull_crash_safe_original_false`. -/
theorem C09_pull_crash_safe (w : World) (tr : Tracked) (r : WReq) (dest : Nat) (bytes : OnDisk) (k : Nat)
    (hwf : w.WellFormed) (hinv : w.CrashInvW tr)
    (hd : w.filecopyState r.file dest ≠ .Y) (hg : w.groupOfNode dest = some r.groupTo)
    (hrid : ∀ r' ∈ w.reqs, r'.id = r.id → r'.file = r.file ∧ r'.groupTo = r.groupTo) :
    (w.applyPrims ((pullPrims w r dest bytes).take k)).CrashInvW tr := by
  have _ := hd
  obtain ⟨h1, h2⟩ := hinv
  rcases pullPrims_take w r dest bytes k hwf.ids with ⟨_, he | he⟩ | ⟨_, l, hl, he⟩
  · rw [he]; exact ⟨h1, h2⟩
  · rw [he]; exact ⟨WantedBacked_setDisk_some _ _ _ h1, CompletedBacked_setDisk _ _ _ h2⟩
  · rw [he]
    have hdisk : ((w.setDisk dest r.file (some bytes)).diskAt dest r.file).isSome := by
      rw [diskAt_setDisk, if_pos rfl]; rfl
    have hbase := pullTxn_inv (w := w.setDisk dest r.file (some bytes)) (tr := tr) r dest hwf.ids hdisk hg hrid
      (WantedBacked_setDisk_some _ _ _ h1) (CompletedBacked_setDisk _ _ _ h2)
    exact applyPrims_postPrims (fun w' => w'.WantedBacked tr ∧ w'.CompletedBacked)
      (fun _ _ he h => ⟨WantedBacked_postEff he h.1, CompletedBacked_postEff he h.2⟩) l _ hl hbase

/-- the same for a request row that is stored, with unique request ids -/
theorem C09_pull_crash_safe_of_mem (w : World) (tr : Tracked) (r : WReq) (dest : Nat) (bytes : OnDisk) (k : Nat)
    (hwf : w.WellFormed) (hinv : w.CrashInvW tr)
    (hd : w.filecopyState r.file dest ≠ .Y) (hg : w.groupOfNode dest = some r.groupTo)
    (hr : r ∈ w.reqs) (hrids : (w.reqs.map (·.id)).Nodup) :
    (w.applyPrims ((pullPrims w r dest bytes).take k)).CrashInvW tr := by
  refine C09_pull_crash_safe w tr r dest bytes k hwf hinv hd hg ?_
  intro r' hr' hid
  rw [req_eq_of_id_eq w.reqs hrids hr' hr hid]
  exact ⟨rfl, rfl⟩

/-- **C09.2 (transfer, retry or done)** a crash before the transaction leaves the index exactly as
    it was (the request is still pending and is retried); from the transaction on, the request is
    completed and the healthy copy is recorded — never one without the other -/
theorem C09_pull_all_or_nothing (w : World) (r : WReq) (dest : Nat) (bytes : OnDisk) (k : Nat) (hwf : w.WellFormed)
    (hr : r ∈ w.reqs) (hd : w.filecopyState r.file dest ≠ .Y) :
    let w' := w.applyPrims ((pullPrims w r dest bytes).take k)
    (k ≤ 3 → w'.copies = w.copies ∧ w'.reqs = w.reqs) ∧
    (4 ≤ k → (∃ c ∈ w'.copies, c.file = r.file ∧ c.node = dest ∧ c.has = .Y) ∧
             (∃ r' ∈ w'.reqs, r'.id = r.id ∧ r'.completed = true)) := by
  have _ := hd
  intro w'
  rcases pullPrims_take w r dest bytes k hwf.ids with ⟨hk, he | he⟩ | ⟨hk, l, hl, he⟩
  · exact ⟨fun _ => by rw [show w' = w from he]; exact ⟨rfl, rfl⟩, fun h4 => by omega⟩
  · exact ⟨fun _ => by rw [show w' = _ from he]; exact ⟨rfl, rfl⟩, fun h4 => by omega⟩
  · refine ⟨fun h3 => by omega, fun _ => ?_⟩
    rw [show w' = _ from he]
    exact applyPrims_postPrims
      (fun w' => (∃ c ∈ w'.copies, c.file = r.file ∧ c.node = dest ∧ c.has = .Y) ∧
        (∃ r' ∈ w'.reqs, r'.id = r.id ∧ r'.completed = true))
      (fun _ _ he h => ⟨healthyRow_postEff he _ _ h.1, doneReq_postEff he _ h.2⟩) l _ hl
      (pullTxn_done (w.setDisk dest r.file (some bytes)) r dest hr)

/-- **C09.3 (deletion)** every crash prefix of a delete of a copy that is not wanted keeps the
    invariant; after the unlink the bytes are gone and the retry (same step again) records it -/
theorem C09_delete_crash_safe (w : World) (tr : Tracked) (c : WCopy) (k : Nat)
    (hwf : w.WellFormed) (hinv : w.CrashInvW tr) (hc : c ∈ w.copies) (hw : c.wants ≠ .Y) :
    (w.applyPrims ((deletePrims c).take k)).CrashInvW tr := by
  obtain ⟨h1, h2⟩ := hinv
  have hA : (w.setDisk c.node c.file none).WantedBacked tr := WantedBacked_unlink hwf.uniq c hc hw h1
  have hB : (w.setDisk c.node c.file none).CompletedBacked := CompletedBacked_setDisk _ _ _ h2
  match k with
  | 0 => exact ⟨h1, h2⟩
  | 1 => exact ⟨hA, hB⟩
  | k + 2 =>
    have ht : (deletePrims c).take (k + 2) = deletePrims c := by simp [deletePrims]
    rw [ht]
    exact ⟨WantedBacked_setCopy_N c.id .N hA, CompletedBacked_setCopy c.id .N .N hB⟩

theorem C09_delete_retry (w : World) (c : WCopy) (hc : c ∈ w.copies)
    (hcount : ¬ (w.archiveCount c.file < World.copiesRequired (w.isArchive c.node))) :
    let crashed := w.applyPrims ((deletePrims c).take 1)
    crashed.copies = w.copies ∧ crashed.diskAt c.node c.file = none ∧
    Eff.setCopy c.id .N .N ∈ (crashed.deleteOne c false).2 := by
  have _ := hc
  intro crashed
  have hcr : crashed = w.setDisk c.node c.file none := rfl
  have hcount' : ¬ (crashed.archiveCount c.file < World.copiesRequired (crashed.isArchive c.node)) := hcount
  refine ⟨rfl, ?_, ?_⟩
  · rw [hcr, diskAt_setDisk, if_pos rfl]
  · rw [deleteOne_go crashed c hcount']
    exact List.mem_append_right _ (List.mem_singleton.mpr rfl)

/-- **C09.4 (check / import)** a verification writes one row in one statement and never touches
    storage: a crash leaves either the old or the new row -/
theorem C09_check_atomic (w : World) (snap : WCopy) (ok : Bool) :
    (w.checkStep snap ok).1.disk = w.disk ∧ (w.checkStep snap ok).2.length ≤ 1 := by
  unfold checkStep
  dsimp only
  split
  · exact ⟨rfl, Nat.zero_le _⟩
  · exact ⟨rfl, Nat.le_refl _⟩

end Alpen
