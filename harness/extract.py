#!/venv/bin/python
"""Translator / constants extractor: /repo source  ->  lean/Alpen/Generated.lean

Everything the theorems depend on that is a *literal fact of the source* is
re-read from the Python AST on every run, so that the Lean build re-checks the
theorems against what the code says now:

  * `invalid_import_path` is translated statement by statement into a Lean
    function (`invalidImportPathGen`);
  * numeric / enum constants (copies_required, reserve_factor, block sizes,
    GET_PERIOD, EnumField value lists, the ArchiveFileCopy.state table ...).

If a piece of source no longer has the shape the translator understands, the
corresponding definition is emitted as a comment only; the Lean build then
fails at the theorem that needs it, and ./check reports that as a broken
proof obligation (followed by the failing-input search).
"""
from __future__ import annotations

import ast
import os
import sys

REPO = os.environ.get("ALPEN_REPO", "/repo")
HERE = os.path.dirname(os.path.abspath(__file__))
OUT = os.path.join(HERE, "..", "lean", "Alpen", "Generated.lean")


def src(rel):
    with open(os.path.join(REPO, rel)) as f:
        return f.read()


def find_func(tree, name, cls=None):
    for node in ast.walk(tree):
        if cls is not None:
            if isinstance(node, ast.ClassDef) and node.name == cls:
                for sub in node.body:
                    if isinstance(sub, (ast.FunctionDef, ast.AsyncFunctionDef)) and sub.name == name:
                        return sub
        elif isinstance(node, (ast.FunctionDef, ast.AsyncFunctionDef)) and node.name == name:
            return node
    return None


def lean_str(s: str) -> str:
    """Lean `List Char` literal for python str"""
    return "[" + ", ".join(f"Char.ofNat {ord(c)}" for c in s) + "]"


class Untranslatable(Exception):
    pass


# ---------------------------------------------------------------- invalid_import_path
def tr_iip_cond(e, var):
    """Translate a boolean expression over `var` to a Lean Bool term."""
    if isinstance(e, ast.BoolOp):
        op = " || " if isinstance(e.op, ast.Or) else " && "
        return "(" + op.join(tr_iip_cond(v, var) for v in e.values) + ")"
    if isinstance(e, ast.UnaryOp) and isinstance(e.op, ast.Not):
        return "(!" + tr_iip_cond(e.operand, var) + ")"
    if isinstance(e, ast.Compare) and len(e.ops) == 1:
        l, r, op = e.left, e.comparators[0], e.ops[0]
        if isinstance(op, (ast.Eq, ast.NotEq)):
            if isinstance(l, ast.Name) and l.id == var and isinstance(r, ast.Constant) and isinstance(r.value, str):
                t = f"decide (s = {lean_str(r.value)})"
            elif isinstance(r, ast.Name) and r.id == var and isinstance(l, ast.Constant) and isinstance(l.value, str):
                t = f"decide (s = {lean_str(l.value)})"
            else:
                raise Untranslatable(ast.dump(e))
            return t if isinstance(op, ast.Eq) else f"(!{t})"
        if isinstance(op, (ast.In, ast.NotIn)):
            if isinstance(l, ast.Constant) and isinstance(l.value, str) and isinstance(r, ast.Name) and r.id == var:
                t = f"isInfixB {lean_str(l.value)} s"
                return t if isinstance(op, ast.In) else f"(!{t})"
        raise Untranslatable(ast.dump(e))
    if isinstance(e, ast.Call) and isinstance(e.func, ast.Attribute) and isinstance(e.func.value, ast.Name) \
            and e.func.value.id == var and len(e.args) == 1 and isinstance(e.args[0], ast.Constant) \
            and isinstance(e.args[0].value, str) and not e.keywords:
        lit = lean_str(e.args[0].value)
        if e.func.attr == "startswith":
            return f"List.isPrefixOf {lit} s"
        if e.func.attr == "endswith":
            return f"List.isSuffixOf {lit} s"
    raise Untranslatable(ast.dump(e))


def tr_invalid_import_path():
    tree = ast.parse(src("alpenhorn/common/util.py"))
    fn = find_func(tree, "invalid_import_path")
    if fn is None:
        raise Untranslatable("invalid_import_path not found")
    var = fn.args.args[0].arg
    body = [s for s in fn.body if not (isinstance(s, ast.Expr) and isinstance(s.value, ast.Constant))]
    clauses = []
    reasons = []
    for st in body[:-1]:
        if not (isinstance(st, ast.If) and not st.orelse and len(st.body) == 1 and isinstance(st.body[0], ast.Return)
                and isinstance(st.body[0].value, ast.Constant) and isinstance(st.body[0].value.value, str)):
            raise Untranslatable("statement shape: " + ast.dump(st)[:200])
        clauses.append(tr_iip_cond(st.test, var))
        reasons.append(st.body[0].value.value)
    last = body[-1]
    if not (isinstance(last, ast.Return) and isinstance(last.value, ast.Constant) and last.value.value is None):
        raise Untranslatable("final return")
    lines = ["/-- translated from alpenhorn/common/util.py:invalid_import_path; `some i` = i-th rejection -/",
             "def invalidImportPathGen (s : Str) : Option Nat :="]
    for i, c in enumerate(clauses):
        lines.append(f"  {'if' if i == 0 else 'else if'} {c} then some {i}")
    lines.append("  else none" if clauses else "  none")
    lines.append("")
    lines.append("def invalidImportPathReasons : List String := [" + ", ".join('"' + r.replace('\\', '\\\\').replace('"', '\\"') + '"' for r in reasons) + "]")
    return "\n".join(lines)


# ---------------------------------------------------------------- constants
def const_from_assign(fn_or_tree, name):
    for node in ast.walk(fn_or_tree):
        if isinstance(node, ast.Assign) and len(node.targets) == 1 and isinstance(node.targets[0], ast.Name) \
                and node.targets[0].id == name:
            return node.value
    return None


def int_const(e):
    """evaluate small constant integer expressions (literals, +,-,*,**, <<)"""
    if isinstance(e, ast.Constant) and isinstance(e.value, int) and not isinstance(e.value, bool):
        return e.value
    if isinstance(e, ast.BinOp):
        a, b = int_const(e.left), int_const(e.right)
        if isinstance(e.op, ast.Add):
            return a + b
        if isinstance(e.op, ast.Sub):
            return a - b
        if isinstance(e.op, ast.Mult):
            return a * b
        if isinstance(e.op, ast.Pow):
            return a ** b
        if isinstance(e.op, ast.LShift):
            return a << b
    raise Untranslatable("not an int constant: " + ast.dump(e))


def extract_copies_required():
    """`copies_required = 3 if copies[0].node.archive else 2` in delete_async; and the
    comparison `ncopies < copies_required` guarding `continue`."""
    tree = ast.parse(src("alpenhorn/io/_default_asyncs.py"))
    fn = find_func(tree, "delete_async")
    v = const_from_assign(fn, "copies_required")
    if not isinstance(v, ast.IfExp):
        raise Untranslatable("copies_required shape")
    test = ast.unparse(v.test)
    if not test.endswith(".node.archive"):
        raise Untranslatable("copies_required test: " + test)
    a, b = int_const(v.body), int_const(v.orelse)
    # find the guard
    guard = None
    for node in ast.walk(fn):
        if isinstance(node, ast.If) and isinstance(node.test, ast.Compare):
            t = ast.unparse(node.test)
            if "copies_required" in t:
                guard = (t, any(isinstance(s, ast.Continue) for s in node.body))
    if guard is None:
        raise Untranslatable("no guard on copies_required")
    # normalise the guard to: skip iff ncopies < required  (Lt) ; other spellings are recorded
    return a, b, guard[0], guard[1]


def extract_archive_count():
    tree = ast.parse(src("alpenhorn/db/acquisition.py"))
    fn = find_func(tree, "archive_count", "ArchiveFile")
    text = ast.unparse(fn)
    has_type = "StorageNode.storage_type == 'A'" in text
    has_y = "ArchiveFileCopy.has_file == 'Y'" in text
    return has_type, has_y


def extract_reserve_factor():
    tree = ast.parse(src("alpenhorn/io/default.py"))
    for node in ast.walk(tree):
        if isinstance(node, ast.ClassDef) and node.name == "DefaultNodeIO":
            for sub in node.body:
                if isinstance(sub, ast.Assign) and isinstance(sub.targets[0], ast.Name) and sub.targets[0].id == "reserve_factor":
                    return int_const(sub.value)
    raise Untranslatable("reserve_factor")


def extract_md5_consts():
    tree = ast.parse(src("alpenhorn/common/util.py"))
    fn = find_func(tree, "_md5sum_file")
    bs = const_from_assign(fn, "block_size")
    bpc = None
    for nm in ("blocks_per_chunk", "BLOCKS_PER_CHUNK", "chunk_blocks"):
        v = const_from_assign(fn, nm)
        if v is not None:
            bpc = v
    return (int_const(bs) if bs is not None else None, int_const(bpc) if bpc is not None else None)


def extract_get_period():
    tree = ast.parse(src("alpenhorn/scheduler/queue.py"))
    fn = find_func(tree, "get", "FairMultiFIFOQueue")
    return int_const(const_from_assign(fn, "GET_PERIOD"))


def extract_enum_fields():
    out = {}
    for rel, cls in (("alpenhorn/db/archive.py", "ArchiveFileCopy"), ("alpenhorn/db/storage.py", "StorageNode")):
        tree = ast.parse(src(rel))
        for node in ast.walk(tree):
            if isinstance(node, ast.ClassDef) and node.name == cls:
                for sub in node.body:
                    if isinstance(sub, ast.Assign) and isinstance(sub.value, ast.Call) \
                            and getattr(sub.value.func, "id", None) == "EnumField":
                        vals = [c.value for c in sub.value.args[0].elts]
                        default = None
                        for kw in sub.value.keywords:
                            if kw.arg == "default":
                                default = kw.value.value
                        out[f"{cls}.{sub.targets[0].id}"] = (vals, default)
    return out


def extract_idle_cleanup_period():
    tree = ast.parse(src("alpenhorn/io/default.py"))
    return int_const(const_from_assign(tree, "_IDLE_CLEANUP_PERIOD"))


def lean_strlist(xs):
    return "[" + ", ".join('"' + x + '"' for x in xs) + "]"


def generate() -> str:
    parts = ["/- GENERATED by harness/extract.py from /repo on every run — do not edit. -/",
             "import Alpen.Model.Str", "", "namespace Alpen.Gen", "open Alpen", ""]
    notes = []

    def section(title, fn):
        try:
            parts.append(fn())
        except Exception as e:  # noqa
            notes.append(f"{title}: {type(e).__name__}: {e}")
            parts.append(f"-- UNTRANSLATABLE {title}: {type(e).__name__}: {str(e)[:300]}")
        parts.append("")

    section("invalid_import_path", tr_invalid_import_path)

    def cr():
        a, b, guard, cont = extract_copies_required()
        lt = guard.replace(" ", "") == "ncopies<copies_required"
        return "\n".join([
            "/-- `copies_required = A if node.archive else B` (delete_async) -/",
            f"def copiesRequired (archive : Bool) : Nat := if archive then {a} else {b}",
            f"/-- guard text: `{guard}`; body skips (continue): {str(cont).lower()} -/",
            f"def deleteGuardIsLt : Bool := {'true' if (lt and cont) else 'false'}",
        ])
    section("copies_required", cr)

    def ac():
        t, y = extract_archive_count()
        return "\n".join([
            "/-- archive_count counts copies with node.storage_type == 'A' (first) and has_file == 'Y' (second) -/",
            f"def archiveCountFiltersType : Bool := {'true' if t else 'false'}",
            f"def archiveCountFiltersHealthy : Bool := {'true' if y else 'false'}"])
    section("archive_count", ac)

    section("reserve_factor", lambda: f"def reserveFactor : Nat := {extract_reserve_factor()}")

    def md5c():
        bs, bpc = extract_md5_consts()
        out = []
        if bs is not None:
            out.append(f"def md5BlockSize : Nat := {bs}")
        if bpc is not None:
            out.append(f"def md5BlocksPerChunk : Nat := {bpc}")
        return "\n".join(out)
    section("md5 consts", md5c)

    section("GET_PERIOD", lambda: f"def getPeriod : Nat := {extract_get_period()}")
    section("_IDLE_CLEANUP_PERIOD", lambda: f"def idleCleanupPeriod : Nat := {extract_idle_cleanup_period()}")

    def enums():
        e = extract_enum_fields()
        out = []
        for k, (vals, default) in sorted(e.items()):
            nm = k.replace(".", "_")
            out.append(f"def enum_{nm} : List String := {lean_strlist(vals)}")
            out.append(f"def enumDefault_{nm} : String := \"{default}\"")
        return "\n".join(out)
    section("enum fields", enums)

    parts.append("end Alpen.Gen")
    return "\n".join(parts) + "\n", notes


def main():
    text, notes = generate()
    out = os.path.normpath(OUT)
    old = None
    if os.path.exists(out):
        with open(out) as f:
            old = f.read()
    if old != text:
        tmp = out + f".tmp{os.getpid()}"
        with open(tmp, "w") as f:
            f.write(text)
        os.replace(tmp, out)
    for n in notes:
        print("extract-note:", n)
    return 0


if __name__ == "__main__":
    sys.exit(main())
