"""C11 — task queue under the deterministic scheduler: real FairMultiFIFOQueue vs Lean Q model vs sequential oracle."""
import json
import os
import random

import common
import qharness

MODULE = "Alpen.Props.C11"
EXCL_P = 0.15
DEFER_P = 0.2


def gen_programs(rng, excl_p=EXCL_P, defer_p=DEFER_P, maxops=5):
    keys = rng.choice([[1], [1, 2], [1, 2, 3]])
    nth = rng.choice([2, 3, 3, 4])
    nid = [0]
    progs = []
    nput = 0
    for t in range(nth):
        role = rng.choice(["prod", "cons", "cons", "mixed", "join"]) if t > 0 else "prod"
        prog = []
        if role == "join":
            prog.append(("join",))
            if rng.random() < 0.3:
                prog.append(("size", "qsize", 0))
        else:
            for _ in range(rng.randint(1, maxops)):
                r = rng.random()
                if role == "prod" or (role == "mixed" and r < 0.5):
                    nid[0] += 1
                    wait = rng.choice([1, 2, 5, 11]) if rng.random() < defer_p else 0
                    prog.append(("put", nid[0], rng.random() < excl_p, rng.choice(keys), wait))
                    nput += 1
                elif r < 0.85:
                    prog.append(("get", rng.choice([1, 3, 12])))
                    if rng.random() < 0.7:
                        prog.append(("done",))
                elif r < 0.9:
                    prog.append(("donekey", rng.choice(keys + [9])))
                else:
                    prog.append(("size", rng.choice(["qsize", "inprogress", "deferred", "fifo"]), rng.choice(keys + [9])))
        progs.append(prog)
    return progs, keys + [9] if any(op[0] == "donekey" and op[1] == 9 for p in progs for op in p) else keys


def corpus():
    # two joiners and two getters (notify vs notify_all), exclusive blocking, deferred expiry ordering
    return [
        ([[("put", 1, False, 1, 0)], [("join",)], [("join",)], [("get", 3), ("done",)]], [1]),
        ([[("put", 1, True, 1, 0), ("put", 2, False, 1, 0), ("put", 3, False, 2, 0)],
          [("get", 3), ("get", 3), ("done",), ("done",)], [("get", 3), ("done",)]], [1, 2]),
        ([[("put", 1, False, 1, 5), ("put", 2, False, 1, 2), ("put", 3, False, 1, 0)],
          [("get", 12), ("done",), ("get", 12), ("done",), ("get", 12), ("done",)]], [1]),
    ]


def gen_size_programs(rng):
    """readers of the four size queries running against producers/consumers"""
    progs, keys = gen_programs(rng, maxops=4)
    kinds = ["qsize", "inprogress", "deferred", "fifo", "fifo", "fifo"]
    for _ in range(rng.randint(1, 2)):
        progs.append([("size", rng.choice(kinds), rng.choice(keys)) for _ in range(rng.randint(2, 5))])
    return progs, keys


def run_many(ctx, gen, nrandom, tag, mid_cs=False):
    runs = []
    for progs, keys in corpus():
        for seed in range(40 if ctx.quick() else 400):
            runs.append(qharness.execute(progs, keys, rng=random.Random(seed), mid_cs=mid_cs))
    for i in range(nrandom):
        progs, keys = gen(ctx.rng)
        runs.append(qharness.execute(progs, keys, rng=random.Random(ctx.rng.getrandbits(32)), mid_cs=mid_cs))
    if mid_cs:
        # dumps taken by threads outside the lock can see another thread's half-finished critical section in this mode, so
        # the field-by-field comparison with the model is left to the lock-granular stage; only the oracles judge these runs
        for r in runs:
            nget = sum(1 for e in r["log"] if e[0] == "getend" and e[2] is not None)
            nsz = sum(1 for e in r["log"] if e[0] == "size")
            ctx.count(f"midcs:{r['result']}:sizes={min(nsz, 4)}")
            ctx.case((json.dumps(r["progs"]), tuple(r["taken"]), "midcs"), nontrivial=nget > 0 and nsz > 0)
            yield r
        return
    drv = common.Driver()
    all_lines, spans, exps = [], [], []
    for r in runs:
        lines, exp = qharness.to_model(r)
        spans.append((len(all_lines), len(all_lines) + len(lines)))
        all_lines += lines
        exps += exp
    outs = drv.batch(all_lines)
    for r, (a, b) in zip(runs, spans):
        bad = qharness.compare(all_lines[a:b], exps[a:b], outs[a:b])
        nget = sum(1 for e in r["log"] if e[0] == "getend" and e[2] is not None)
        nwait = sum(1 for e in r["log"] if e[0] == "wait")
        ctx.count(f"{r['result']}:delivered={min(nget, 3)}:waits={min(nwait, 2)}")
        ctx.case((json.dumps(r["progs"]), tuple(r["taken"])), nontrivial=nget > 0,
                 sample={"programs": r["progs"], "keys": r["keys"], "schedule": r["taken"][:40],
                         "model_ops": all_lines[a:b][:12], "final": r["final"]} if len(ctx.samples) < 3 and nwait else None)
        if bad and len(ctx.corr_broken) < 4:
            i, l, e, o = bad[0]
            ctx.corr_broken.append({"stream": f"FairMultiFIFOQueue-vs-Q({tag})", "programs": r["progs"], "keys": r["keys"],
                                    "schedule": r["taken"], "first_divergence": {"op": l, "real": e, "model": o},
                                    "ops_before": all_lines[a:a + i][-8:]})
        elif bad:
            ctx.corr_broken.append({"stream": f"FairMultiFIFOQueue-vs-Q({tag})"}) if len(ctx.corr_broken) < 5 else None
        yield r


def stage_serial_consumer(ctx, n):
    """the main loop's own consumer (`update.serial_io`, used when there are no worker threads) over real Tasks that yield
    and re-queue themselves: every get is answered by a task_done, so that when all tasks have finished the queue's sizes
    are truthful again (0 queued, 0 in progress, no FIFO locked) and a join returns"""
    import importlib
    import alpenhorn.scheduler.queue as qmod
    import alpenhorn.scheduler.task as tmod
    import alpenhorn.daemon.update as upd
    import env as envmod
    rng = ctx.rng
    with envmod.Env() as e:
        for it in range(n):
            importlib.reload(qmod)
            vclock = [0.0]

            def _mono():
                vclock[0] += 1e-7
                return vclock[0]
            qmod.monotonic = _mono
            qmod.sleep = lambda d: vclock.__setitem__(0, vclock[0] + max(d, 0))
            class FastQ(qmod.FairMultiFIFOQueue):
                def get(self, timeout=None):          # serial_io asks for get(timeout=1): no real waiting here
                    if self.qsize == 0:
                        if not self.deferred_size:
                            return None
                        vclock[0] += 5                # the deferred puts become due while the loop waits
                    return super().get(timeout=0.0005)
            q = FastQ()
            steps = {}
            specs = []
            for tid in range(rng.randint(1, 4)):
                nyield = rng.choice([0, 0, 1, 2, 3])
                excl = rng.random() < 0.3
                key = rng.choice(["a", "b"])
                specs.append((tid, nyield, excl, key))

                def body(task, _tid=tid, _n=nyield):
                    for k in range(_n):
                        steps[_tid] = steps.get(_tid, 0) + 1
                        yield rng.choice([0, 1, 3])
                    steps[_tid] = steps.get(_tid, 0) + 1

                def plain(task, _tid=tid):
                    steps[_tid] = steps.get(_tid, 0) + 1
                tmod.Task(func=body if nyield else plain, queue=q, key=key, exclusive=excl, name=f"T{tid}")
            passes = 0
            while (q.qsize or q.deferred_size) and passes < 30:
                upd.serial_io(q)
                passes += 1
                vclock[0] += 5          # time passes between main-loop iterations: deferred puts become due
            left = dict(qsize=q.qsize, inprogress=q.inprogress_size, deferred=q.deferred_size, locked=sorted(q._fifo_locks),
                        fifo={k: q.fifo_size(k) for k in ("a", "b")})
            ctx.count(f"serial:tasks={len(specs)}:yields={min(sum(s[1] for s in specs), 3)}")
            ctx.case(("serial", tuple(specs)), nontrivial=any(s[1] for s in specs),
                     sample={"tasks(id,yields,exclusive,key)": specs, "passes": passes, "left": left} if it < 2 else None)
            want = {tid: ny + 1 for tid, ny, _, _ in specs}
            if steps != want:
                ctx.violation("serial:steps", f"tasks {specs} run by serial_io executed steps {steps}, expected {want}",
                              {"kind": "serial", "tasks": specs})
            if left["qsize"] or left["inprogress"] or left["deferred"] or left["locked"] or any(left["fifo"].values()):
                ctx.violation("serial:leftover", f"all tasks finished under serial_io but the queue reports {left} "
                              f"(a get without its task_done; join would never return)", {"kind": "serial", "tasks": specs, "left": left})
    importlib.reload(qmod)


def stage_once_drain(ctx):
    """"waiting for the queue to drain returns only when nothing is queued or running": the daemon's own drain wait (the real
    `update_loop(once=True)`), with the harness playing the worker threads from inside the loop's waits.  A pass over a node
    with 1-3 copies to check queues that many tasks; every script of worker actions - take a task (it is running from then
    on), finish the oldest running task, put a deferred follow-up task, let its delay expire - is played one action per wait.
    Oracle: at the instant the loop returns no task has been taken and not finished, none is queued and none is deferred; and
    the loop does return once that is so."""
    import itertools
    import shutil
    import alpenhorn.daemon.update as upd
    import alpenhorn.scheduler.task as tmod
    import env as envmod
    import world as worldmod
    from alpenhorn.scheduler import FairMultiFIFOQueue
    scripts = []
    for ntask in (1, 2, 3):
        for order in (["take", "finish"] * ntask, ["take"] * ntask + ["finish"] * ntask, ["take", "defer", "finish", "expire", "take", "finish"] +
                      ["take", "finish"] * (ntask - 1), ["take", "take", "finish", "defer", "finish", "expire", "take", "finish"] if ntask > 1 else None):
            if order:
                scripts.append((ntask, order))

    class Stop(Exception):
        pass
    with envmod.Env() as e:
        for ntask, script in scripts:
            w = worldmod.World(e)
            db = w.db
            for m in (db.StorageTransferAction, db.ArchiveFileCopyRequest, db.ArchiveFileImportRequest, db.ArchiveFileCopy,
                      db.ArchiveFile, db.ArchiveAcq, db.StorageNode, db.StorageGroup):
                m.delete().execute()
            shutil.rmtree(os.path.join(e.tmp, "roots"), ignore_errors=True)
            n1 = w.node("n1", w.group("g1"))
            acq = w.acq("acq")
            for i in range(ntask):
                w.copy(w.file(acq, f"f{i}.dat", b"data %d" % i), n1, has="M")
            q = FairMultiFIFOQueue()
            held, todo, log = [], list(script), []

            class Abort:
                waits = 0

                def is_set(self):
                    return False

                def wait(self, timeout=None):
                    Abort.waits += 1
                    if Abort.waits > 60:
                        raise Stop()
                    act = todo.pop(0) if todo else ("finish" if held else "take")
                    if act == "take":
                        item = q.get(timeout=0.001)
                        if item is not None:
                            held.append(item)
                        log.append(f"a worker takes {item[0] if item else None}")
                    elif act == "finish" and held:
                        task, key = held.pop(0)
                        task()
                        q.task_done(key)
                        log.append(f"the worker running {task} finishes it")
                    elif act == "defer":
                        q.put(lambda: None, "follow-up", wait=10 ** 6)
                        log.append("a deferred follow-up task is put (delay not elapsed)")
                    elif act == "expire":
                        q._deferrals = [(k * 1e-9, *d[1:]) for k, d in enumerate(q._deferrals)]
                        log.append("the delay elapses")
                    return False
            saved = (upd.serial_io, upd.global_abort)
            upd.serial_io = lambda q_: None
            upd.global_abort = Abort()
            e.set_host("h1")
            rc = "never-returned"
            try:
                rc = upd.update_loop(q, _Pool(), once=True)
            except Stop:
                pass
            finally:
                upd.serial_io, upd.global_abort = saved
            state = dict(running=len(held), queued=q.qsize, deferred=q.deferred_size, inprogress=q.inprogress_size)
            ctx.case(("once-drain", ntask, tuple(script)), nontrivial=True,
                     sample={"script": script, "log": log, "returned": rc, "state_at_return": state} if (ntask, len(script)) == (2, 4) else None)
            ctx.count(f"once-drain:{'returned' if rc != 'never-returned' else 'never'}")
            if rc == "never-returned":
                if not (held or q.qsize or q.deferred_size):
                    ctx.violation("drain:never-returns", f"update_loop(once=True) did not return within 60 waits although nothing is queued, "
                                  f"deferred or running ({log[-4:]})", {"kind": "once-drain", "script": script, "log": log})
            elif held or q.qsize or q.deferred_size or todo:
                ctx.violation("drain:returned-early", f"update_loop(once=True) declared the update complete and returned while {len(held)} task(s) "
                              f"were running on workers, {q.qsize} queued and {q.deferred_size} deferred (worker actions so far: {log})",
                              {"kind": "once-drain", "script": script, "log": log, "state": state})


def stage_worker_stop(ctx):
    """exactly-once at the consumer's end: a real pool Worker that is told to stop (worker removal) while it waits in `get`,
    for every position of the stop among 0-3 queued tasks and for plain and yielding tasks.  Whatever the worker was handed
    it runs and reports done: when it has exited nothing is "in progress", every handed-out task ran, the others are still
    queued for the remaining workers."""
    import importlib
    import itertools
    import alpenhorn.scheduler.queue as qmod
    import alpenhorn.scheduler.task as tmod
    import alpenhorn.scheduler.pool as pmod
    for ntask, stop_at, yielding in itertools.product([0, 1, 2, 3], [0, 1, 2, 3], [False, True]):
        if stop_at > ntask:
            continue
        importlib.reload(qmod)
        vclock = [0.0]

        def _mono():
            vclock[0] += 1e-4
            return vclock[0]
        qmod.monotonic = _mono
        qmod.sleep = lambda d: None
        handed, ran = [], []

        class Q(qmod.FairMultiFIFOQueue):
            __slots__ = ["worker", "ngets"]

            def get(self, timeout=None):
                k = self.ngets
                self.ngets += 1
                if k == stop_at:
                    self.worker._worker_stop.set()        # the pool is shrunk while this worker waits for a task
                if k > 12:
                    self.worker._worker_stop.set()
                    return None
                if self.qsize == 0 and self.deferred_size:
                    vclock[0] = min(d[0] for d in self._deferrals) + 0.001
                r = super().get(timeout=0.0005)
                if r is not None:
                    handed.append(str(r[0]))
                return r
        q = Q()
        q.ngets = 0

        def plain(task, _i=None):
            ran.append(str(task))

        def gen(task):
            ran.append(str(task))
            yield 0
        for i in range(ntask):
            tmod.Task(func=gen if yielding else plain, queue=q, key=f"k{i % 2}", name=f"T{i}")
        pmod.global_abort.clear()
        w = pmod.Worker(queue=q, index=0)
        q.worker = w
        w.run()
        aborted = pmod.global_abort.is_set()
        pmod.global_abort.clear()
        state = dict(handed=list(handed), ran=list(ran), inprogress=q.inprogress_size, queued=q.qsize, deferred=q.deferred_size)
        ctx.case(("worker-stop", ntask, stop_at, yielding), nontrivial=ntask > 0, sample=state if (ntask, stop_at, yielding) == (2, 1, False) else None)
        ctx.count(f"worker-stop:handed={len(handed)}")
        if aborted:
            ctx.violation("worker-stop:abort", f"a worker told to stop raised the global abort ({state})", {"kind": "worker-stop", "state": state})
        if q.inprogress_size != 0 or sorted(set(handed)) != sorted(set(ran)):
            ctx.violation("worker-stop:lost", f"{ntask} task(s) queued, worker told to stop during its get #{stop_at + 1}: it was handed "
                          f"{handed} but ran {ran}; after it exited the queue still counts {q.inprogress_size} task(s) in progress "
                          f"(queued {q.qsize}, deferred {q.deferred_size}): a task was taken and never run or reported done",
                          {"kind": "worker-stop", "ntask": ntask, "stop_at": stop_at, "yielding": yielding, "state": state})
        elif len(set(handed)) + q.qsize + q.deferred_size < ntask:
            ctx.violation("worker-stop:vanished", f"{ntask} task(s) queued but only {len(set(handed))} handed out and {q.qsize}+{q.deferred_size} left",
                          {"kind": "worker-stop", "state": state})


class _Pool:
    """a worker pool of two as far as update_loop is concerned (the harness plays the workers)"""

    def __len__(self):
        return 2

    def check(self):
        pass

    def shutdown(self):
        pass


def run(ctx):
    ok = common.proof_stage(ctx, MODULE)
    n = 1500 if ctx.quick() else 40000
    for r in run_many(ctx, gen_programs, n, "C11"):
        probs = [p for p in qharness.oracle(r) if not p.startswith("exclusive") and "exclusive item is running" not in p
                 and not p.startswith("deferred item")]
        probs = refine_deadlock(r, probs)
        for p in probs:
            ctx.violation("queue:" + p.split(":")[0][:40].replace(" ", "_"), p,
                          {"kind": "qschedule", "programs": r["progs"], "keys": r["keys"], "schedule": r["taken"], "problem": p})
    # truthful sizes under finer interleavings: scheduling points inside the critical sections (at the metric updates)
    for r in run_many(ctx, gen_size_programs, 400 if ctx.quick() else 10000, "C11-midcs", mid_cs=True):
        probs = [p for p in qharness.oracle(r) if p.startswith("size query") or "delivered twice" in p]
        for p in probs:
            ctx.violation("queue:" + p.split("(")[0][:40].replace(" ", "_"), p,
                          {"kind": "qschedule", "mid_cs": True, "programs": r["progs"], "keys": r["keys"], "schedule": r["taken"], "problem": p})
    stage_serial_consumer(ctx, 150 if ctx.quick() else 4000)
    stage_once_drain(ctx)
    stage_worker_stop(ctx)
    ctx.coverage["rule"] = ("2-4 threads (producers with immediate/deferred puts, consumers with timed gets and task_done, joiners, size "
                            "queries, task_done on foreign keys) over 1-3 FIFO keys on the real queue with threading/monotonic/sleep "
                            "replaced by the cooperative shim; corpus under 40 seeded schedules each, then random programs and schedules; "
                            "after every critical section all private fields of the real queue are compared with the Lean model, and a "
                            "sequential reference judges exactly-once / per-FIFO order / join. distinct = (programs, schedule); "
                            "non-trivial = at least one delivery")
    from props.c06 import finish_search
    finish_search(ctx, ok)


def refine_deadlock(r, probs):
    out = []
    for p in probs:
        if p.startswith("deadlock"):
            # a joiner waiting while items are still queued/in progress and nobody consumes them is the program's fault
            if "tq=0 ti=0" in r["final"]:
                out.append("join blocked for ever although nothing is queued or running: " + p)
        else:
            out.append(p)
    return out


def replay(ctx, path):
    r = json.load(open(path))
    if "programs" not in r:
        import sys
        return common.replay_by_rerun(ctx, path, sys.modules[__name__])
    progs = [[tuple(op) for op in p] for p in r["programs"]]
    run = qharness.execute(progs, r["keys"], choices=list(r["schedule"]), mid_cs=bool(r.get("mid_cs")))
    probs = refine_deadlock(run, qharness.oracle(run))
    print("result:", run["result"], "final:", run["final"], "problems:", probs)
    return 1 if probs else 0
