import Alpen.Model.Reserve
/-
  Transport groups: which node of the group a pull is handed to (`TransportGroupIO.pull_force`).  Core Lean only.
-/
namespace Alpen

/-- what `TransportGroupIO.pull_force` looks at for each local transport node of the group -/
structure TNode where
  id : Nat
  availKiB : Option Int          -- `avail_gb` (KiB-exact); `none` = unknown
  underMin : Bool                -- `node.db.under_min`
  overMax : Bool                 -- `node.db.check_over_max()`
  fits : Bool                    -- `node.io.fits(size)` (free space minus reservations)
  deriving DecidableEq, Repr

/-- sort key: free space, unknown free space counts as enormous (`id * 1e9` GiB) -/
def TNode.key (n : TNode) : Int := match n.availKiB with
  | some a => a
  | none => (n.id : Int) * 1000000000 * 1048576

def TNode.eligible (n : TNode) : Bool := !n.underMin && !n.overMax && n.fits

/-- first node of minimal key (= first in a stable sort by key) -/
def minKey : Option TNode → List TNode → Option TNode
  | best, [] => best
  | none, n :: ns => minKey (some n) ns
  | some b, n :: ns => if n.key < b.key then minKey (some n) ns else minKey (some b) ns

/-- `pull_force`: non-local sources are ignored; otherwise the fullest node that can take the file -/
def transportPick (srcLocal : Bool) (nodes : List TNode) : Option Nat :=
  if srcLocal then (minKey none (nodes.filter TNode.eligible)).map (·.id) else none

/-- a local transport node as the whole dispatch (`pull_force`, then the chosen node's `pull`) sees it -/
structure TGNode where
  id : Nat
  availKiB : Option Int          -- `avail_gb` as recorded in the index
  underMin : Bool
  overMax : Bool
  bavail : Option Int            -- bytes free as the file system reports them (`bytes_avail`)
  reserved : Int                 -- `_reserved_bytes[node]`
  deriving DecidableEq, Repr

/-- what `pull_force` sees of the node: `fits` is a check-only reservation -/
def TGNode.view (factor size : Nat) (n : TGNode) : TNode :=
  ⟨n.id, n.availKiB, n.underMin, n.overMax, (reserveBytes factor n.bavail n.reserved size true).1⟩

/-- the chosen node's `DefaultNodeIO.pull`: (task created, node afterwards) -/
def TGNode.pull (factor size : Nat) (n : TGNode) : Bool × TGNode :=
  let r := pullAdmit factor n.underMin n.overMax n.bavail n.reserved size
  (r.1, { n with reserved := r.2 })

/-- `TransportGroupIO.pull_force` followed by the chosen node's `pull`:
    (node the request was handed to, whether a transfer task was created, nodes afterwards) -/
def tgDispatch (factor size : Nat) (srcLocal : Bool) (nodes : List TGNode) : Option Nat × Bool × List TGNode :=
  match transportPick srcLocal (nodes.map (TGNode.view factor size)) with
  | none => (none, false, nodes)
  | some i =>
    (some i, nodes.any (fun n => n.id == i && (n.pull factor size).1),
     nodes.map (fun n => if n.id == i then (n.pull factor size).2 else n))

end Alpen
