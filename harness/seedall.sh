#!/bin/bash
# usage: seedall.sh [seed ids...]   -- runs every stored seeded change against the check(s) expected to catch it; one line per seed
cd /verif
declare -A OVERRIDE=( [C06-1]="C04" [C06-2]="C04" [C05-2]="C05 C20" )
ids=${@:-$(ls seeded | grep -E '^C[0-9]+-[0-9]+$')}
for id in $ids; do
  props=${OVERRIDE[$id]:-${id%%-*}}
  out=$(harness/seedtest.sh /verif/seeded/$id $props 2>&1)
  nv=$(echo "$out" | grep -c "^VIOLATION")
  conc=$(echo "$out" | grep "^VIOLATION" | grep -vc "no-failing-input-found")
  echo "$id by=$props violations=$nv concrete=$conc $(echo "$out" | grep -E 'repo dirty|does not apply|INFRA' | head -1)"
done
