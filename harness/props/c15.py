"""C15 — discretionary cleaning: real UpdateableNode.update_delete vs Lean selectDelete vs property oracle."""
import json

import common
import env as envmod

MODULE = "Alpen.Props.C15"


def oracle(table, pend, avail_k, min_k, archive):
    """Reference written from the property text. table: list of dict rows of the node (any order).
    Returns list of problems with a given selection (checked below)."""
    press = (avail_k is not None and avail_k < min_k) and not archive
    short = (min_k - avail_k) * 1024 if press else 0
    return press, short


def judge(sel_ids, rows, pend, avail_k, min_k, archive):
    press, short = oracle(rows, pend, avail_k, min_k, archive)
    byid = {r["id"]: r for r in rows}
    probs = []
    if sel_ids != sorted(sel_ids):
        probs.append("not in record order")
    if len(set(sel_ids)) != len(sel_ids):
        probs.append("copy selected twice")
    need = short
    selset = set(sel_ids)
    for r in sorted(rows, key=lambda r: r["id"]):
        sel = r["id"] in selset
        if sel and (r["has"] == "N" or r["wants"] == "Y"):
            probs.append(f"copy {r['id']} selected but has={r['has']} wants={r['wants']}")
        if sel and r["file"] in pend:
            probs.append(f"copy {r['id']} selected although it is the source of a pending request")
        if r["wants"] == "M" and sel:
            if not press:
                probs.append(f"removable copy {r['id']} selected without space pressure")
            elif need <= 0:
                probs.append(f"removable copy {r['id']} selected although the shortfall was already covered")
        if r["wants"] == "N" and r["has"] != "N" and r["file"] not in pend and not sel:
            probs.append(f"released copy {r['id']} not selected")
        if r["wants"] == "M" and r["has"] != "N" and r["file"] not in pend and press and need > 0 and not sel:
            probs.append(f"removable copy {r['id']} not selected although {need} bytes are still needed")
        if sel and need > 0:
            cr = r["size"] if r["size"] else (r["fsize"] if r["fsize"] else 0)
            need -= cr
    return probs


def gen_case(rng):
    n = rng.choice([0, 1, 2, 3, 4, 6, 8, 11, 12, 21, 25])
    stype = rng.choice("ATF")
    r = rng.random()
    if r < 0.15:
        avail_k = None
    else:
        avail_k = rng.choice([0, 1, 5, 100, 1000, 4096])
    min_k = rng.choice([0, 1, 2, 6, 100, 2000, 5000])
    rows = []
    for i in range(n):
        size = rng.choice([None, 0, 1, 500, 1024, 3000, 100000])
        fsize = rng.choice([None, 0, 700, 2048, 50000])
        rows.append(dict(file=i + 1, has=rng.choice("YYYMXN"), wants=rng.choice("YMMNN"), size=size, fsize=fsize))
    pend = set(r["file"] for r in rows if rng.random() < 0.15)
    return stype, avail_k, min_k, rows, pend


def run_real(e, stype, avail_k, min_k, rows, pend):
    import alpenhorn.daemon.update as upd
    from alpenhorn.db import (ArchiveAcq, ArchiveFile, ArchiveFileCopy, ArchiveFileCopyRequest, StorageGroup, StorageNode)
    from alpenhorn.scheduler import FairMultiFIFOQueue
    for m in (ArchiveFileCopyRequest, ArchiveFileCopy, ArchiveFile, ArchiveAcq, StorageNode, StorageGroup):
        m.delete().execute()
    g = StorageGroup.create(name="g")
    g2 = StorageGroup.create(name="g2")
    node = StorageNode.create(name="n", group=g, root=e.root("n"), host="h1", active=True, storage_type=stype,
                              avail_gb=None if avail_k is None else avail_k / 2 ** 20, min_avail_gb=min_k / 2 ** 20)
    other = StorageNode.create(name="o", group=g2, root=e.root("o"), host="h1", active=True)
    acq = ArchiveAcq.create(name="a")
    for r in rows:
        f = ArchiveFile.create(acq=acq, name=f"f{r['file']}", size_b=r["fsize"], md5sum="0" * 32)
        r["file"] = f.id
        c = ArchiveFileCopy.create(file=f, node=node, has_file=r["has"], wants_file=r["wants"], size_b=r["size"])
        r["id"] = c.id
        # distractors: copies of the same file on another node, completed/cancelled requests
        ArchiveFileCopy.create(file=f, node=other, has_file="Y", wants_file="N")
    return node, other


def run(ctx):
    ok = common.proof_stage(ctx, MODULE)
    import alpenhorn.daemon.update as upd
    from alpenhorn.db import ArchiveFileCopyRequest, StorageNode, ArchiveFile
    from alpenhorn.scheduler import FairMultiFIFOQueue
    rng = ctx.rng
    drv = common.Driver()
    n = 700 if ctx.quick() else 20000
    cases = []
    with envmod.Env() as e:
        for it in range(n):
            stype, avail_k, min_k, rows, pend0 = gen_case(rng)
            fmap = {r["file"]: None for r in rows}
            node, other = run_real(e, stype, avail_k, min_k, rows, pend0)
            # map pend0 (generator file numbers were replaced by db ids in rows in order)
            pend = set()
            for r, orig in zip(rows, list(fmap)):
                if orig in pend0:
                    pend.add(r["file"])
            for fid in pend:
                ArchiveFileCopyRequest.create(file=fid, node_from=node, group_to=other.group, completed=0, cancelled=0)
            for r in rows:     # distractor requests that must not count as pending
                if rng.random() < 0.2:
                    ArchiveFileCopyRequest.create(file=r["file"], node_from=node, group_to=other.group,
                                                  completed=rng.choice([0, 1]), cancelled=1)
                if rng.random() < 0.1:
                    ArchiveFileCopyRequest.create(file=r["file"], node_from=other, group_to=node.group, completed=0, cancelled=0)
            un = upd.UpdateableNode(FairMultiFIFOQueue(), StorageNode.get(id=node.id))
            batches = []
            un.io.delete = lambda copies: batches.append([c.id for c in copies])
            un.update_delete()
            cases.append((stype, avail_k, min_k, rows, sorted(pend), batches))
    ops = []
    for stype, avail_k, min_k, rows, pend, batches in cases:
        cs = ",".join(f"{r['id']}:{r['file']}:{r['has']}:{r['wants']}:{'-' if r['size'] is None else r['size']}:"
                      f"{'-' if r['fsize'] is None else r['fsize']}" for r in sorted(rows, key=lambda r: r['id'])) or "-"
        ops.append(f"seldel {'-' if avail_k is None else avail_k} {min_k} {1 if stype == 'A' else 0} "
                   f"{','.join(map(str, pend)) or '-'} {cs}")
    outs = drv.batch(ops)
    for (stype, avail_k, min_k, rows, pend, batches), out, op in zip(cases, outs, ops):
        real_s = "|".join(",".join(map(str, b)) for b in batches) or "-"
        sel = [i for b in batches for i in b]
        press = avail_k is not None and avail_k < min_k and stype != "A"
        nM = sum(1 for r in rows if r["id"] in set(sel) and r["wants"] == "M")
        ctx.count(("pressure" if press else "no-pressure") + (":M-selected" if nM else "") + (":multi-batch" if len(batches) > 1 else ""))
        ctx.case(op, nontrivial=len(rows) > 0,
                 sample={"node_type": stype, "avail_KiB": avail_k, "min_KiB": min_k, "rows": rows, "pending_source_files": pend,
                         "io.delete batches": batches, "model": out} if nM and len(ctx.samples) < 4 else None)
        if real_s != out:
            ctx.corr_broken.append({"stream": "update_delete-vs-selectDelete", "op": op, "real": real_s, "model": out})
        probs = judge(sel, rows, set(pend), avail_k, min_k, stype == "A")
        for b in batches:
            if len(b) == 0:
                probs.append("empty batch handed to io.delete")
        if probs:
            ctx.violation("sel:" + probs[0][:50].replace(" ", "_"), probs[0],
                          {"kind": "seldel", "node_type": stype, "avail_KiB": avail_k, "min_KiB": min_k, "rows": rows,
                           "pending": pend, "batches": batches, "problems": probs})
    ctx.coverage["rule"] = ("random copy tables (0..25 rows; has in YMXN, wants in YMN; sizes on copy/file/neither/zero), node types A/T/F, "
                            "free space known/unknown vs minimum, pending/cancelled/completed/foreign requests; the real update_delete "
                            "runs with io.delete recorded; compared with the Lean model's batches and judged by an oracle written from "
                            "the property text; distinct = full input line; non-trivial = non-empty table")
    ctx.corr_broken = ctx.corr_broken[:5]
    from props.c06 import finish_search
    finish_search(ctx, ok)


def replay(ctx, path):
    import sys
    return common.replay_by_rerun(ctx, path, sys.modules[__name__])
