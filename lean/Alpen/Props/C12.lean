import Alpen.Model.Queue
import Alpen.Model.Task
import Alpen.Lemmas.Queue
import Alpen.Lemmas.Task
/-!
# C12 — exclusive tasks, fair FIFO choice, deferral timing and the Task contract

"An exclusive task runs only while no other task of its FIFO is running and nothing else from
that FIFO starts until it finishes; among eligible FIFOs the next task always comes from one
with the fewest running tasks; a deferred task is never started before its delay has elapsed
and is started once afterwards. A task that yields is re-queued in the same FIFO with the
same exclusivity, and a task's clean-up actions run exactly once, after its final step."
-/
namespace Alpen

/-- **exclusive alone (state form)** in every reachable state a locked FIFO (an exclusive item
    of it is in progress) has exactly one item in progress, and is not eligible for `get` -/
theorem C12_locked_alone (keys : List Nat) (hk : keys.Nodup) (ops : List QOp) (hin : OpsIn keys ops) (k : Nat) :
    let q := Q.run keys Q.init ops
    q.locked k = true → q.inprog k = 1 ∧ q.eligible k = false := by
  have h := QInv.reachable hk ops hin
  intro q hl
  exact ⟨h.lockOne k hl, eligible_false_of_locked _ k hl⟩

/-- **exclusive alone (delivery form)** an exclusive item is delivered only when nothing of its
    FIFO is in progress, it locks the FIFO, and nothing is ever delivered from a locked FIFO -/
theorem C12_exclusive_delivery (q : Q) (now : Nat) (keys : List Nat) (choice : Option Nat) (k : Nat) (it : QItem)
    (h : (q.getAttempt now keys choice).2 = .item k it) :
    (q.promote now).locked k = false ∧
    (it.excl = true → (q.promote now).inprog k = 0 ∧ (q.getAttempt now keys choice).1.locked k = true) ∧
    (q.getAttempt now keys choice).1.inprog k = (q.promote now).inprog k + 1 := by
  obtain ⟨t, hel, _, hf, he⟩ := getAttempt_item q now keys choice k it h
  obtain ⟨_, hlk, x', t', hf', hex⟩ := (eligible_iff _ k).1 hel
  rw [hf] at hf'
  obtain ⟨rfl, rfl⟩ := List.cons.inj hf'
  rw [he]
  refine ⟨hlk, ?_, ?_⟩
  · intro hx
    refine ⟨?_, ?_⟩
    · have : ¬ (q.promote now).inprog k > 0 := fun c => hex ⟨c, hx⟩
      omega
    · simp [Q.pop, hx, upd]
  · simp [Q.pop, upd]

/-- the lock is released only by `task_done` of that FIFO -/
theorem C12_lock_persists (keys : List Nat) (q : Q) (op : QOp) (k : Nat)
    (h : q.locked k = true) (hop : ∀ k', op = .taskDone k' → k' ≠ k) :
    (Q.step keys q op).locked k = true := by
  exact step_locked_of_locked keys q op k h hop

/-- **fair choice** the delivered item is the head of an eligible FIFO whose in-progress count
    is minimal among the eligible FIFOs -/
theorem C12_fair_choice (q : Q) (now : Nat) (keys : List Nat) (choice : Option Nat) (k : Nat) (it : QItem)
    (h : (q.getAttempt now keys choice).2 = .item k it) :
    let p := q.promote now
    p.eligible k = true ∧ (p.fifo k).head? = some it ∧
    ∀ k' ∈ keys, p.eligible k' = true → p.inprog k ≤ p.inprog k' := by
  obtain ⟨t, hel, hall, hf, _⟩ := getAttempt_item q now keys choice k it h
  refine ⟨hel, by simp [hf], ?_⟩
  intro k' hk' hel'
  have := List.all_eq_true.1 hall k' hk'
  simpa [hel'] using this

/-- work conservation: `get` comes back empty-handed only when nothing is eligible -/
theorem C12_none_only_if_blocked (q : Q) (now : Nat) (keys : List Nat) (choice : Option Nat)
    (h : (q.getAttempt now keys choice).2 = .none) :
    ∀ k ∈ keys, (q.promote now).eligible k = false ∨ (q.promote now).totalQueued = 0 := by
  rcases getAttempt_spec q now keys choice with ⟨_, _, h3⟩ | ⟨k', x, t, _, _, _, _, _, he⟩
  · intro k hk
    rcases h3 h with h4 | h4
    · exact Or.inr (by omega)
    · left
      have := List.any_eq_false.1 h4 k hk
      simpa using this
  · rw [he] at h; cases h

/-- **deferral timing** a put with `wait > 0` at time `now` is filed with expiry `now + wait`
    and touches no FIFO -/
theorem C12_deferred_filed (q : Q) (it : QItem) (key wait now : Nat) (hj : q.joining = false) :
    let r := q.putDeferred it key wait now
    r.2 = true ∧ (⟨now + wait, it, key⟩ : Deferred) ∈ r.1.deferrals ∧
    r.1.fifo = q.fifo ∧ r.1.enq = q.enq ∧ r.1.delivered = q.delivered := by
  simp only [Q.putDeferred, hj]
  exact ⟨rfl, mem_insertDeferred.2 (Or.inl rfl), rfl, rfl, rfl⟩

/-- not before its time: a deferral whose expiry is later than `now` survives a `get` at `now`
    untouched, and nothing of it enters a FIFO -/
theorem C12_deferral_not_early (q : Q) (now : Nat) (keys : List Nat) (choice : Option Nat) (d : Deferred)
    (hd : d ∈ q.deferrals) (hlate : now < d.expiry) :
    d ∈ (q.getAttempt now keys choice).1.deferrals := by
  rw [getAttempt_deferrals]
  exact List.mem_filter.2 ⟨hd, by simp; omega⟩

/-- once due, a deferral leaves the deferred set and is appended to its FIFO by the first `get`
    at or after its expiry -/
theorem C12_deferral_promoted (q : Q) (now : Nat) (d : Deferred)
    (hd : d ∈ q.deferrals) (hdue : d.expiry ≤ now) :
    d ∉ (q.promote now).deferrals ∧ d.item ∈ (q.promote now).enq d.key ∧
    (∀ d' ∈ (q.promote now).deferrals, now < d'.expiry) := by
  rw [promote_deferrals]
  refine ⟨?_, promote_enq_mem q now d hd hdue, ?_⟩
  · intro hm
    have := (List.mem_filter.1 hm).2
    simp at this
    omega
  · intro d' hm
    have := (List.mem_filter.1 hm).2
    simp at this
    omega

/-- **Task contract: yield** a yielding task is re-queued in the same FIFO with the same
    exclusivity and the yielded delay (0 when nothing is yielded); no clean-up runs -/
theorem C12_yield_requeues (beh : Nat → CleanBeh) (t : TaskSt) (s : Seg) (ss : List Seg) (v : Option Nat)
    (hs : t.segs = s :: ss) (hy : s.ending = .yield v) :
    taskCall beh t = ({ t with segs := ss, cleanup := register t.cleanup s.regs },
                      [.reput t.key t.excl (v.getD 0)], .yielded) := by
  simp [taskCall, hs, hy]

/-- pinned behaviour drops the exclusive flag on re-queue (finding F1) -/
theorem C12_legacy_yield_drops_exclusive :
    ∃ (t : TaskSt) (beh : Nat → CleanBeh), t.excl = true ∧
      (taskCallLegacy beh t).2.1 = [.reput t.key false 0] := by
  exact ⟨⟨0, true, false, [⟨[], .yield none⟩], []⟩, fun _ => .ok, rfl, rfl⟩

/-- run a task to completion (fault-free): call it once per segment -/
def runAll (beh : Nat → CleanBeh) : Nat → TaskSt → List TEv
  | 0, _ => []
  | fuel + 1, t =>
    let (t', evs, r) := taskCall beh t
    match r with
    | .yielded => evs ++ runAll beh fuel t'
    | _ => evs

/-- **Task contract: clean-ups** for a task that yields any number of times and then returns,
    with clean-ups that do not fail: the trace is one re-put per yield, followed — after the
    final step — by every registered clean-up exactly once, in deque order (stack/FIFO pushes
    as registered). -/
theorem C12_cleanups_once_after_final (t : TaskSt) (ys : List Seg) (last : Seg)
    (hsegs : t.segs = ys ++ [last]) (hcl : t.cleanup = [])
    (hys : ∀ s ∈ ys, ∃ v, s.ending = .yield v) (hlast : last.ending = .done) :
    runAll (fun _ => .ok) (ys.length + 1) t =
      ys.map (fun s => TEv.reput t.key t.excl ((match s.ending with | .yield v => v | _ => none).getD 0)) ++
      (register [] ((ys ++ [last]).flatMap (·.regs))).map TEv.cleanupStarted := by
  have aux : ∀ (ys : List Seg) (t : TaskSt), t.segs = ys ++ [last] →
      (∀ s ∈ ys, ∃ v, s.ending = .yield v) →
      runAll (fun _ => .ok) (ys.length + 1) t =
        ys.map (fun s => TEv.reput t.key t.excl
          ((match s.ending with | .yield v => v | _ => none).getD 0)) ++
        (register t.cleanup ((ys ++ [last]).flatMap (·.regs))).map TEv.cleanupStarted := by
    intro ys
    induction ys with
    | nil =>
      intro t hs _
      simp [runAll, taskCall, hs, hlast, doCleanup_allOk]
    | cons y ys ih =>
      intro t hs hy
      obtain ⟨v, hv⟩ := hy y List.mem_cons_self
      have := ih { t with segs := ys ++ [last], cleanup := register t.cleanup y.regs } rfl
        (fun s hs => hy s (List.mem_cons_of_mem _ hs))
      simp [runAll, taskCall, hs, hv, this, register_append]
  have := aux ys t hsegs hys
  rw [hcl] at this
  exact this

end Alpen
