"""Running the real FairMultiFIFOQueue under the deterministic scheduler and translating the run into
model operations (one per critical section).  Shared by C11 and C12."""
import importlib
import json
import random

import common
import sched as schedmod


def real_dump(q, keys):
    per = []
    for k in sorted(keys):
        if k in q._fifos:
            ids = ",".join(str(it[0]) for it in q._fifos[k]) or "-"
            per.append(f"{k}:[{ids}]:{q._inprogress_counts[k]}:{int(k in q._fifo_locks)}")
    kb = "|".join((",".join(str(k) for k in sorted(s)) or "-") for s in q._keys_by_inprogress)
    df = ",".join(f"{int(d[0])}/{d[1]}/{d[2]}" for d in sorted(q._deferrals, key=lambda d: (d[0], d[1])))
    return (f"tq={q._total_queued} ti={q._total_inprogress} joining={int(q._joining)} fifos={' '.join(per)}; "
            f"keysBy={kb} deferrals={df}")


def execute(progs, keys, choices=None, rng=None, max_steps=4000, mid_cs=False):
    """progs: list of thread programs; each a list of ops:
       ("put", id, excl, key, wait) | ("get", timeout) | ("done",) [task_done of oldest held key] | ("donekey", key)
       | ("join",) | ("size", kind, arg)"""
    import alpenhorn.scheduler.queue as qmod
    importlib.reload(qmod)
    s = schedmod.Scheduler(choices=choices, rng=rng, max_steps=max_steps)
    qmod.threading = s.threading_module()
    qmod.monotonic = s.monotonic
    qmod.sleep = s.sleep
    log = s.log

    class ObsQueue(qmod.FairMultiFIFOQueue):
        __slots__ = []

        # mid_cs: scheduling points INSIDE the queue's critical sections (at the metric updates, where the counters are
        # half-updated); threads that take the lock cannot run there, a reader that forgot the lock can
        def _inc_metrics(self, *a, **k):
            if mid_cs and self._lock.owner is s.me() and s.me() is not None:
                s.yield_point()
            return super()._inc_metrics(*a, **k)

        def _dec_metrics(self, *a, **k):
            if mid_cs and self._lock.owner is s.me() and s.me() is not None:
                s.yield_point()
            return super()._dec_metrics(*a, **k)

        def put(self, item, key, exclusive=False, wait=0):
            r = super().put(item, key, exclusive, wait)
            now = s.clock      # the clock cannot advance between the critical section and this point
            log.append(("put", s.me().idx, item, exclusive, key, wait, now, r, real_dump(self, keys)))
            return r

        def _get(self, t):
            log.append(("getbegin", s.me().idx))
            r = super()._get(t)
            log.append(("getend", s.me().idx, r, real_dump(self, keys)))
            return r

        def task_done(self, key):
            try:
                super().task_done(key)
                log.append(("done", s.me().idx, key, "ok", real_dump(self, keys)))
            except ValueError:
                log.append(("done", s.me().idx, key, "valueError", real_dump(self, keys)))
                raise

        def join(self):
            joining.add(s.me().idx)
            log.append(("joinbegin", s.me().idx))
            super().join()
            joining.discard(s.me().idx)
            log.append(("joinend", s.me().idx, real_dump(self, keys)))
    joining = set()
    q = ObsQueue()
    lockname = q._lock.name
    dlockname = q._dlock.name

    def hook(ev):
        if ev[0] == "acq" and ev[2] == lockname and ev[1] in joining:
            log.append(("joincheck", ev[1], q._total_queued, q._total_inprogress,
                        sum(len(f) for f in q._fifos.values()), sum(q._inprogress_counts.values())))
    s.on_event = hook
    delivered = []

    def mk(tid, prog):
        def body():
            held = []
            for op in prog:
                if op[0] == "put":
                    q.put(op[1], op[3], exclusive=op[2], wait=op[4])
                elif op[0] == "get":
                    r = q.get(timeout=op[1])
                    log.append(("got", tid, r))
                    if r is not None:
                        held.append(r[1])
                        delivered.append((tid, r[0], r[1], s.clock))
                elif op[0] == "done":
                    if held:
                        q.task_done(held.pop(0))
                elif op[0] == "donekey":
                    try:
                        q.task_done(op[1])
                    except ValueError:
                        pass
                elif op[0] == "join":
                    q.join()
                elif op[0] == "size":
                    kind, arg = op[1], op[2]
                    v = {"qsize": lambda: q.qsize, "inprogress": lambda: q.inprogress_size,
                         "deferred": lambda: q.deferred_size, "fifo": lambda: q.fifo_size(arg)}[kind]()
                    log.append(("size", tid, kind, arg, v))
            # finish whatever is still held so that joiners can leave
            while held:
                q.task_done(held.pop(0))
        return body
    for i, p in enumerate(progs):
        s.spawn(mk(i, p), f"T{i}")
    res = s.run()
    return dict(result=res, log=list(log), taken=list(s.taken), lock=lockname, dlock=dlockname, progs=progs,
                keys=list(keys), final=real_dump(q, keys), blocked=getattr(s, "blocked_desc", []), delivered=delivered,
                clock=s.clock)


def to_model(run):
    """-> (lines, expectations) where expectations[i] is the real-side value to compare with the model's answer
       to lines[i] (or None)."""
    lines = ["q.reset " + (",".join(map(str, run["keys"])) or "-")]
    exp = [None]
    in_get = {}      # tid -> index in `lines` of the pending promote placeholder
    in_join = {}     # tid -> list of indices of joinCheck lines
    clock = 0
    for ev in run["log"]:
        k = ev[0]
        if k == "tick":
            clock += ev[1]
        elif k == "put":
            _, tid, item, excl, key, wait, now, r, dump = ev
            if wait > 0:
                lines.append(f"q.putd {item} {int(excl)} {key} {int(wait)} {int(now)}")
                exp.append(str(int(bool(r))))
            else:
                lines.append(f"q.put {item} {int(excl)} {key}")
                exp.append("1")
            lines.append("q.dump"); exp.append(dump)
        elif k == "getbegin":
            in_get[ev[1]] = None
        elif k == "acq":
            _, tid, name = ev
            if tid in in_get and name == run["dlock"]:
                # a _dlock section inside _get: the *last* one is the promotion; emit provisional promote
                if in_get[tid] is not None:
                    # previous one was the read-only section: retract it
                    lines[in_get[tid]] = "q.size deferred 0"
                    exp[in_get[tid]] = None
                lines.append(f"q.promote {int(clock)}"); exp.append(None)
                in_get[tid] = len(lines) - 1
                in_get[(tid, "now")] = clock
            elif tid in in_join:
                if name == run["dlock"]:
                    if in_join[tid]["stage"] == 0:
                        lines.append("q.joinBegin"); exp.append(None)
                        in_join[tid]["stage"] = 1
                    else:
                        lines.append("q.joinEnd"); exp.append(None)
                elif name == run["lock"]:
                    lines.append(f"q.joinCheck {tid}"); exp.append("0")
                    in_join[tid]["checks"].append(len(lines) - 1)
        elif k == "getend":
            _, tid, r, dump = ev
            now = in_get.get((tid, "now"), clock)
            if r is None:
                lines.append(f"q.get {int(now)} -"); exp.append("none")
            else:
                lines.append(f"q.get {int(now)} {r[1]}"); exp.append(f"item {r[1]} {r[0]}")
            lines.append("q.dump"); exp.append(dump)
            in_get.pop(tid, None); in_get.pop((tid, "now"), None)
        elif k == "done":
            _, tid, key, out, dump = ev
            lines.append(f"q.done {key}"); exp.append(out)
            lines.append("q.dump"); exp.append(dump)
        elif k == "joinbegin":
            in_join[ev[1]] = {"stage": 0, "checks": []}
        elif k == "joinend":
            _, tid, dump = ev
            st = in_join.pop(tid)
            if st["checks"]:
                exp[st["checks"][-1]] = "1"       # the joiner left after its last guard evaluation
            lines.append("q.dump"); exp.append(dump)
        elif k == "size":
            _, tid, kind, arg, v = ev
            lines.append(f"q.size {kind} {arg}"); exp.append(str(v))
    return lines, exp


def compare(lines, exp, outs):
    """returns list of (index, line, expected, model)"""
    bad = []
    for i, (l, e, o) in enumerate(zip(lines, exp, outs)):
        if e is None:
            continue
        if l.startswith("q.get") and e.startswith("item"):
            # model prints the exclusive flag too
            if not o.startswith(e + " "):
                bad.append((i, l, e, o))
        elif e != o:
            bad.append((i, l, e, o))
    return bad


def oracle(run):
    """Model-independent judgement of one real execution (sequential reference over the event log)."""
    probs = []
    puts = {}          # id -> (key, excl, accepted, deferred_until)
    order = {}         # key -> list of ids in the order they entered the FIFO (immediate puts; deferred ones unknown)
    delivered = []
    running = {}       # key -> list of (id, excl)
    clock = 0
    put_time = {}
    for ev in run["log"]:
        k = ev[0]
        if k == "tick":
            clock += ev[1]
        elif k == "put":
            _, tid, item, excl, key, wait, now, r, dump = ev
            if r:
                puts[item] = (key, excl, wait, now)
                if wait <= 0:
                    order.setdefault(key, []).append(item)
        elif k == "getend" and ev[2] is not None:
            item, key = ev[2]
            if item in [d[0] for d in delivered]:
                probs.append(f"item {item} delivered twice")
            if item not in puts:
                probs.append(f"item {item} delivered but never accepted")
            else:
                pk, excl, wait, now = puts[item]
                if pk != key:
                    probs.append(f"item {item} put in FIFO {pk} delivered from FIFO {key}")
                if wait > 0 and clock < now + wait:
                    probs.append(f"deferred item {item} (put at {now}, wait {wait}) delivered at {clock}")
                run_k = running.setdefault(key, [])
                if excl and run_k:
                    probs.append(f"exclusive item {item} started while {run_k} of FIFO {key} still running")
                if any(e for (_, e) in run_k):
                    probs.append(f"item {item} started in FIFO {key} while an exclusive item is running")
                # fairness: any other FIFO with an immediately available head and fewer running tasks?
                run_k.append((item, excl))
            delivered.append((item, key))
        elif k == "done" and ev[3] == "ok":
            key = ev[2]
            if running.get(key):
                running[key].pop(0)
            else:
                probs.append(f"task_done({key}) by T{ev[1]} was accepted although no task of FIFO {key} was in progress "
                             f"(in progress elsewhere: { {kk: len(v) for kk, v in running.items() if v} }): the sizes are no longer truthful")
        elif k == "done" and ev[3] == "valueError":
            key = ev[2]
            if running.get(key):
                probs.append(f"task_done({key}) by T{ev[1]} was refused although {len(running[key])} task(s) of FIFO {key} are in progress")
    # per-FIFO order of immediate puts
    for key, ids in order.items():
        got = [i for (i, kk) in delivered if kk == key and i in ids]
        exp_prefix = [i for i in ids if i in got]
        if got != exp_prefix:
            probs.append(f"FIFO {key}: items put in order {ids} were delivered in order {got}")
    last_check = {}
    for ev in run["log"]:
        if ev[0] == "joincheck":
            last_check[ev[1]] = ev
        elif ev[0] == "joinend":
            c = last_check.get(ev[1])
            if c is not None and (c[4] != 0 or c[5] != 0):
                probs.append(f"join returned although, when it last held the queue lock, {c[4]} items were queued and {c[5]} in progress")
    probs += size_oracle(run)
    if run["result"] == "deadlock":
        probs.append(f"deadlock: {run['blocked']}")
    return probs


def sizes_of_dump(dump):
    import re
    m = re.match(r"tq=(\d+) ti=(\d+) joining=\d fifos=(.*); keysBy=\S* deferrals=(.*)$", dump)
    tq, ti, fifos, df = int(m.group(1)), int(m.group(2)), m.group(3), m.group(4)
    per = {}
    for part in fifos.split():
        k, ids, inp, _lk = part.split(":")
        per[int(k)] = (0 if ids == "[-]" else len(ids.strip("[]").split(","))) + int(inp)
    return {"qsize": tq, "inprogress": ti, "deferred": 0 if not df else len(df.split(",")), "fifo": per}


def size_oracle(run):
    """truthful sizes: a size query returns the value of the state before or after the critical section that is in
    progress (if any) when it is answered; never a value from the middle of one"""
    probs = []
    log = run["log"]
    dumps = [(i, ev[-1]) for i, ev in enumerate(log) if ev[0] in ("put", "getend", "done") and isinstance(ev[-1], str)]
    init = {"qsize": 0, "inprogress": 0, "deferred": 0, "fifo": {}}
    for i, ev in enumerate(log):
        if ev[0] != "size" or ev[2] == "deferred":
            continue     # the deferral list lives under its own lock and changes (promotion, join) without a dump: model stage
        _, tid, kind, arg, v = ev
        before = [d for j, d in dumps if j < i]
        after = [d for j, d in dumps if j > i]
        cands = [sizes_of_dump(before[-1]) if before else init]
        if after:
            cands.append(sizes_of_dump(after[0]))
        allowed = set((c["fifo"].get(arg, 0) if kind == "fifo" else c[kind]) for c in cands)
        if v not in allowed:
            probs.append(f"size query {kind}({arg}) by T{tid} returned {v}, but the queue held {sorted(allowed)} before/after the "
                         f"critical section in progress: the value was read from a half-updated queue")
    return probs
