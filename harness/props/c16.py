"""C16 — autosync/autoclean: real ioutil.post_add vs Lean postAdd vs rule oracle."""
import json

import common
import env as envmod

MODULE = "Alpen.Props.C16"


def gen_case(rng):
    ng = rng.randint(1, 3)
    nn = rng.randint(1, 5)
    nodes = [(i + 1, rng.randint(1, ng)) for i in range(nn)]
    pairs = [(n[0], g) for n in nodes for g in range(1, ng + 1)]
    rng.shuffle(pairs)
    edges = [(a, b, rng.random() < 0.6, rng.random() < 0.6) for (a, b) in pairs[:rng.randint(0, len(pairs))]]
    copies = []
    for fid in (1, 2):
        for n in nodes:
            if rng.random() < 0.6:
                copies.append((fid, n[0], rng.choice("YYYMXN"), rng.choice("YYMN")))
    node = rng.choice(nodes)[0]
    return ng, nodes, edges, copies, node


def oracle(nodes, edges, copies, node, file):
    """Reference evaluator from the property text / StorageTransferAction docs."""
    grp = dict(nodes)
    def healthy_in(g):
        return any(f == file and grp[n] == g and h == "Y" for (cid, f, n, h, w) in copies)
    newreq = sorted((file, node, g) for (eid, a, g, sync, clean) in edges
                    if a == node and sync and grp[a] != g and not healthy_in(g))
    rel_nodes = {a for (eid, a, g, sync, clean) in edges if clean and g == grp[node] and grp[a] != g}
    newcopies = []
    for (cid, f, n, h, w) in copies:
        if f == file and n in rel_nodes and h == "Y" and w == "Y":
            newcopies.append((cid, h, "N"))
        else:
            newcopies.append((cid, h, w))
    return newreq, sorted(newcopies)


def run(ctx):
    ok = common.proof_stage(ctx, MODULE)
    from alpenhorn.io import ioutil
    from alpenhorn.db import (ArchiveAcq, ArchiveFile, ArchiveFileCopy, ArchiveFileCopyRequest, StorageGroup, StorageNode,
                              StorageTransferAction)
    rng = ctx.rng
    drv = common.Driver()
    n = 1200 if ctx.quick() else 30000
    cases = []
    with envmod.Env() as e:
        for it in range(n):
            ng, nodes, edges, copies, node = gen_case(rng)
            for m in (StorageTransferAction, ArchiveFileCopyRequest, ArchiveFileCopy, ArchiveFile, ArchiveAcq, StorageNode, StorageGroup):
                m.delete().execute()
            for g in range(1, ng + 1):
                StorageGroup.insert(id=g, name=f"g{g}").execute()
            for (i, g) in nodes:
                StorageNode.insert(id=i, name=f"n{i}", group=g, root=f"/r{i}", host="h1", active=True).execute()
            acq = ArchiveAcq.create(name="a")
            for fid in (1, 2):
                ArchiveFile.insert(id=fid, acq=acq, name=f"f{fid}", size_b=1, md5sum="0" * 32).execute()
            erows = []
            for (a, b, s, c) in edges:
                ed = StorageTransferAction.create(node_from=a, group_to=b, autosync=s, autoclean=c)
                erows.append((ed.id, a, b, s, c))
            crows = []
            for (f, nd, h, w) in copies:
                c = ArchiveFileCopy.create(file=f, node=nd, has_file=h, wants_file=w)
                crows.append((c.id, f, nd, h, w))
            # pre-existing requests (must stay untouched)
            pre = []
            for _ in range(rng.randint(0, 2)):
                r = ArchiveFileCopyRequest.create(file=rng.choice([1, 2]), node_from=rng.choice(nodes)[0], group_to=rng.randint(1, ng))
                pre.append(r.id)
            before_req = sorted((r.id, r.file_id, r.node_from_id, r.group_to_id, r.completed, r.cancelled) for r in ArchiveFileCopyRequest.select())
            ioutil.post_add(StorageNode.get(id=node), ArchiveFile.get(id=1))
            after_req = sorted((r.id, r.file_id, r.node_from_id, r.group_to_id, r.completed, r.cancelled) for r in ArchiveFileCopyRequest.select())
            newreq = sorted((r[1], r[2], r[3]) for r in after_req if r[0] not in pre)
            kept = [r for r in after_req if r[0] in pre]
            after_copies = sorted((c.id, c.has_file, c.wants_file) for c in ArchiveFileCopy.select())
            after_files = sorted((c.id, c.file_id, c.node_id) for c in ArchiveFileCopy.select())
            cases.append((nodes, erows, crows, node, newreq, after_copies, kept == before_req and
                          after_files == sorted((c[0], c[1], c[2]) for c in crows)))
    ops = []
    for (nodes, erows, crows, node, newreq, after_copies, frame_ok) in cases:
        ns = ",".join(f"{i}:{g}" for i, g in nodes)
        es = ",".join(f"{i}:{a}:{b}:{int(s)}:{int(c)}" for (i, a, b, s, c) in erows) or "-"
        cs = ",".join(f"{i}:{f}:{n}:{h}:{w}" for (i, f, n, h, w) in crows) or "-"
        ops.append(f"postadd {ns} {es} {cs} {node} 1")
    outs = drv.batch(ops)
    for (nodes, erows, crows, node, newreq, after_copies, frame_ok), out, op in zip(cases, outs, ops):
        mr, mc = out.split()
        m_req = sorted(tuple(map(int, x.split(":"))) for x in mr.split(",")) if mr != "-" else []
        m_cop = sorted((int(x.split(":")[0]), x.split(":")[1], x.split(":")[2]) for x in mc.split(",")) if mc != "-" else []
        grp = dict(nodes)
        selfloops = sum(1 for (i, a, b, s, c) in erows if grp[a] == b)
        fired = len(newreq) + sum(1 for a, b in zip(sorted(after_copies), sorted((c[0], c[3], c[4]) for c in crows)) if a != b)
        ctx.count(f"selfloops={min(selfloops, 2)}:fired={min(fired, 2)}")
        ctx.case(op, nontrivial=len(erows) > 0,
                 sample={"nodes(id,group)": nodes, "edges(id,from,to,sync,clean)": erows, "copies": crows, "node": node, "file": 1,
                         "new_requests": newreq, "copies_after": after_copies} if fired and selfloops and len(ctx.samples) < 4 else None)
        if m_req != newreq or m_cop != after_copies:
            ctx.corr_broken.append({"stream": "post_add-vs-postAdd", "op": op, "real": [newreq, after_copies], "model": out})
        o_req, o_cop = oracle(nodes, erows, crows, node, 1)
        if newreq != o_req:
            ctx.violation("autosync:" + op[:60], f"post_add created requests {newreq}; the rules give {o_req}",
                          {"kind": "postadd", "op": op, "real_requests": newreq, "expected": o_req, "nodes": nodes, "edges": erows, "copies": crows, "node": node})
        if after_copies != o_cop:
            diff = [(a, b) for a, b in zip(after_copies, o_cop) if a != b]
            ctx.violation("autoclean:" + str(len(diff)), f"post_add left copies {diff[:3]} (real, expected)",
                          {"kind": "postadd", "op": op, "real_copies": after_copies, "expected": o_cop, "nodes": nodes, "edges": erows, "copies": crows, "node": node})
        if not frame_ok:
            ctx.violation("frame", "post_add changed a pre-existing request or a copy's file/node",
                          {"kind": "postadd", "op": op})
    ctx.corr_broken = ctx.corr_broken[:5]
    ctx.coverage["rule"] = ("random rule graphs (1-3 groups, 1-5 nodes, any subset of the unique (node,group) pairs incl. self-loops through "
                            "sibling nodes, both flags), copies of two files in all has/wants states, pre-existing requests; real "
                            "ioutil.post_add on SQLite vs Lean postAdd vs a rule evaluator written from the property text; "
                            "distinct = input line; non-trivial = at least one rule")
    from props.c06 import finish_search
    finish_search(ctx, ok)


def replay(ctx, path):
    r = json.load(open(path))
    print(json.dumps(r, indent=1)[:3000])
    return 1
