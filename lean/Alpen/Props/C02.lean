import Alpen.Model.WorldOps
import Alpen.Lemmas.World
/-!
# C02 — transfers are all-or-nothing and byte-faithful

"A copy request is marked completed only when the destination node holds a file byte-identical
to the source (and matching the registered digest whenever the transport reports one) and a
healthy copy record for the destination is recorded in the same index transaction. If the
transfer fails or the digest mismatches, the request stays pending, no healthy destination copy
is recorded, no partial file remains at the destination path, and the source copy is flagged for
re-verification when it may be at fault. A pull never overwrites an existing destination file
that has not first been verified corrupt."

`Transfer.ok` is the tool contract: exit 0 and a matching digest ⇒ the destination path holds
the source's bytes (hard link: same inode; internal copy: digest of the destination re-computed;
bbcp: reported digest compared; rsync: its exit code) — trusted base.
-/
namespace Alpen
open World

/-- COUNTEREXAMPLE to the statement of `C02_completed_only_if` as originally given (without
    unique copy ids): `applyPostAdd` looks the updated row up by copy id.  Here the only stored
    row (the source copy on node 2) has id 5 = `nextId`, so the freshly recorded destination
    row gets the same id; the autoclean rule 2 → group 1 releases the source row and the lookup
    by id then writes `wants = N` onto the destination row too. -/
theorem C02_completed_only_if_original_false :
    ∃ (w : World) (r : WReq) (dest : Nat) (t : World.Transfer),
      Eff.reqCompleted r.id ∈ (w.pullTask r dest t).2 ∧
      ¬ ∃ c ∈ (w.pullTask r dest t).1.copies,
          c.file = r.file ∧ c.node = dest ∧ c.has = .Y ∧ c.wants = .Y ∧ c.ready = true := by
  refine ⟨⟨[⟨1, 1, 0, true, .A, none, 0, none, false⟩, ⟨2, 2, 0, true, .A, none, 0, none, false⟩], [],
      [⟨5, 1, 2, .Y, .Y, true⟩], [], [⟨1, 2, 1, false, true⟩], [((2, 1), ⟨1, 1⟩)], [], 5⟩,
    ⟨1, 1, 2, 1, false, false⟩, 1, .ok, ?_, ?_⟩
  · decide
  · decide

/-- **C02.1** the request is completed by a pull step only when the transfer succeeded; then, in
    the same step, the destination holds exactly the source's bytes and a healthy, wanted, ready
    copy row for (file, destination) exists.
    CHANGED w.r.t. the original statement: hypotheses `hids` (copy ids are unique) and `hlt`
    (every copy id is below the id counter, so a freshly allocated id is new) added — both hold
    of real index states (primary key / autoincrement).  Without them the last conjunct is false:
    `C02_completed_only_if_original_false`. -/
theorem C02_completed_only_if (w : World) (r : WReq) (dest : Nat) (t : World.Transfer)
    (hids : (w.copies.map (·.id)).Nodup) (hlt : ∀ c ∈ w.copies, c.id < w.nextId)
    (h : Eff.reqCompleted r.id ∈ (w.pullTask r dest t).2) :
    t = .ok ∧ w.filecopyState r.file dest ≠ .Y ∧
    (w.pullTask r dest t).1.diskAt dest r.file = w.diskAt r.nodeFrom r.file ∧
    (w.diskAt r.nodeFrom r.file).isSome ∧
    ∃ c ∈ (w.pullTask r dest t).1.copies, c.file = r.file ∧ c.node = dest ∧ c.has = .Y ∧ c.wants = .Y ∧ c.ready = true := by
  obtain ⟨rfl, hne, bytes, hb⟩ := pullTask_completed w r dest t h
  rw [pullTask_ok_eq w r dest bytes hne hb]
  refine ⟨rfl, hne, ?_, by simp [hb], ?_⟩
  · rw [hb, diskAt_congr (pullOkPre_disk w r dest bytes), diskAt_setDisk, if_pos rfl]
  · have hI : (pullOkPre w r dest bytes).IdsWF :=
      IdsWF_of_copies_eq rfl rfl (IdsWF_upsertHealthy _ _
        (IdsWF_of_copies_eq (w := w) (w' := w.setDisk dest r.file (some bytes)) rfl rfl ⟨hids, hlt⟩))
    obtain ⟨c, hc, hf, hn, hY, hW, hR⟩ :=
      upsertHealthy_row (w.setDisk dest r.file (some bytes)) r.file dest
    exact ⟨c, applyPostAdd_keeps _ _ _ hI.1 c hc hn, hf, hn, hY, hW, hR⟩

/-- conversely an honest successful transfer of an existing source onto a destination not yet
    recorded healthy completes the request -/
theorem C02_ok_completes (w : World) (r : WReq) (dest : Nat)
    (hs : (w.diskAt r.nodeFrom r.file).isSome) (hd : w.filecopyState r.file dest ≠ .Y) :
    Eff.reqCompleted r.id ∈ (w.pullTask r dest .ok).2 := by
  obtain ⟨bytes, hb⟩ := Option.isSome_iff_exists.mp hs
  rw [pullTask_ok_eq w r dest bytes hd hb]
  simp

/-- **C02.2** on every failure (non-zero exit, digest mismatch) of a pull that was not already
    satisfied: the request is not completed and not cancelled by this step, nothing is left at
    the destination path, the set of copy rows recorded healthy does not grow, and the source
    copy is flagged suspect exactly when it may be at fault. -/
theorem C02_failure_clean (w : World) (r : WReq) (dest : Nat) (t : World.Transfer)
    (hd : w.filecopyState r.file dest ≠ .Y) (ht : t ≠ .ok) (hr : t ≠ .noRoute) :
    let w' := (w.pullTask r dest t).1
    let effs := (w.pullTask r dest t).2
    Eff.reqCompleted r.id ∉ effs ∧ Eff.reqCancelled r.id ∉ effs ∧ w'.reqs = w.reqs ∧
    w'.diskAt dest r.file = none ∧
    (∀ c ∈ w'.copies, c.has = .Y → ∃ c0 ∈ w.copies, c0.id = c.id ∧ c0.has = .Y) ∧
    (Eff.sourceSuspect r.file r.nodeFrom ∈ effs ↔ (t = .failedCheckSrc ∨ t = .digestMismatch)) := by
  dsimp only
  rw [pullTask_fail_eq w r dest t hd ht hr]
  obtain ⟨h1, h2, h3⟩ := pullFailWorld_frame w r dest t.checksSrc
  refine ⟨?_, ?_, h1, h2, h3, ?_⟩
  · dsimp only
    split <;> split <;> simp
  · dsimp only
    split <;> split <;> simp
  · dsimp only
    cases t <;> simp [Transfer.checksSrc] <;> split <;> simp

/-- an unroutable request changes nothing at all -/
theorem C02_no_route_noop (w : World) (r : WReq) (dest : Nat) (hd : w.filecopyState r.file dest ≠ .Y) :
    w.pullTask r dest .noRoute = (w, []) := by
  have hd' : ¬ ((w.filecopyState r.file dest == .Y) = true) := by simpa using hd
  unfold pullTask
  rw [if_neg hd']

/-- a pull onto a destination the index already records healthy only cancels the request -/
theorem C02_already_present (w : World) (r : WReq) (dest : Nat) (t : World.Transfer)
    (hd : w.filecopyState r.file dest = .Y) :
    (w.pullTask r dest t).2 = [.reqCancelled r.id] ∧ (w.pullTask r dest t).1.disk = w.disk ∧
    (w.pullTask r dest t).1.copies = w.copies := by
  have hd' : (w.filecopyState r.file dest == .Y) = true := by simp [hd]
  unfold pullTask
  rw [if_pos hd']
  exact ⟨rfl, rfl, rfl⟩

/-- **C02.4** the only route to overwriting is a request whose destination group records the
    file corrupt: the main loop dispatches with `force` exactly when the group state is X, and
    the pre-pull search never lets a request through when a file is already on disk — it
    records/flags it for a check instead and leaves the bytes alone. -/
theorem C02_force_iff_corrupt (w : World) (r : WReq) (sr : Bool) (force : Bool)
    (h : w.updatePull r sr = .dispatch force) :
    (force = true ↔ w.groupState r.groupTo r.file = .X) ∧
    (force = false → w.groupState r.groupTo r.file = .N) := by
  unfold updatePull at h
  cases hg : w.groupState r.groupTo r.file <;> simp only [hg] at h
  all_goals (repeat' split at h)
  all_goals first | (cases h; done) | (injection h with h; subst h; simp)

/-- the group's state for a file is decided by precedence over *all* copy rows of the group's nodes, whatever their
    order: healthy wins, then suspect, then corrupt.  In particular the state is X (the only state in which a pull is
    dispatched with `force`, C02_force_iff_corrupt) only if no node of the group holds a copy recorded healthy or
    awaiting a check. -/
theorem C02_group_state_precedence (w : World) (g f : Nat) :
    let cs := w.copies.filter (fun c => c.file == f && w.groupOfNode c.node == some g)
    (w.groupState g f = .Y ↔ ∃ c ∈ cs, c.has = .Y) ∧
    (w.groupState g f = .M ↔ (∀ c ∈ cs, c.has ≠ .Y) ∧ ∃ c ∈ cs, c.has = .M) ∧
    (w.groupState g f = .X ↔ (∀ c ∈ cs, c.has ≠ .Y) ∧ (∀ c ∈ cs, c.has ≠ .M) ∧ ∃ c ∈ cs, c.has = .X) := by
  intro cs
  have hdef : w.groupState g f = (if cs.any (·.has == .Y) then Has.Y else if cs.any (·.has == .M) then .M
      else if cs.any (·.has == .X) then .X else .N) := rfl
  rw [hdef]
  generalize cs = l
  cases a : l.any (·.has == .Y) <;> cases b : l.any (·.has == .M) <;> cases c : l.any (·.has == .X) <;>
    simp only [List.any_eq_true, List.any_eq_false, beq_iff_eq] at a b c <;> grind

theorem C02_search_never_overwrites (w : World) (r : WReq) (dest : Nat) :
    (w.groupSearch r dest true).2.2 = false ∧ (w.groupSearch r dest true).1.disk = w.disk ∧
    (∀ od, (w.groupSearch r dest od).1.disk = w.disk) := by
  have hdisk : ∀ od, (w.groupSearch r dest od).1.disk = w.disk := by
    intro od
    unfold groupSearch
    split
    · rfl
    · rfl
    · split
      · split <;> rfl
      · rfl
  refine ⟨?_, hdisk true, hdisk⟩
  unfold groupSearch
  split
  · rfl
  · rfl
  · rw [if_pos rfl]
    split <;> rfl

/-- the pre-pull search hands the request on only when the group state is N or X and nothing is
    on disk, and then changes nothing -/
theorem C02_search_passes_on (w : World) (r : WReq) (dest : Nat) (od : Bool)
    (h : (w.groupSearch r dest od).2.2 = true) :
    od = false ∧ (w.groupSearch r dest od).1 = w ∧
    (w.groupState r.groupTo r.file = .N ∨ w.groupState r.groupTo r.file = .X) := by
  unfold groupSearch at h ⊢
  cases hg : w.groupState r.groupTo r.file <;> simp only [hg] at h ⊢
  · cases od
    · simp
    · simp only [if_true] at h; split at h <;> cases h
  · cases h
  · cases h
  · cases od
    · simp
    · simp only [if_true] at h; split at h <;> cases h

end Alpen
