"""C15 — discretionary cleaning: real UpdateableNode.update_delete vs Lean selectDelete vs property oracle."""
import json
import os

import common
import env as envmod

MODULE = "Alpen.Props.C15"


def oracle(table, pend, avail_k, min_k, archive):
    """Reference written from the property text. table: list of dict rows of the node (any order).
    Returns list of problems with a given selection (checked below)."""
    press = (avail_k is not None and avail_k < min_k) and not archive
    short = (min_k - avail_k) * 1024 if press else 0
    return press, short


def judge(sel_ids, rows, pend, avail_k, min_k, archive):
    press, short = oracle(rows, pend, avail_k, min_k, archive)
    byid = {r["id"]: r for r in rows}
    probs = []
    if sel_ids != sorted(sel_ids):
        probs.append("not in record order")
    if len(set(sel_ids)) != len(sel_ids):
        probs.append("copy selected twice")
    need = short
    selset = set(sel_ids)
    for r in sorted(rows, key=lambda r: r["id"]):
        sel = r["id"] in selset
        if sel and (r["has"] == "N" or r["wants"] == "Y"):
            probs.append(f"copy {r['id']} selected but has={r['has']} wants={r['wants']}")
        if sel and r["file"] in pend:
            probs.append(f"copy {r['id']} selected although it is the source of a pending request")
        if r["wants"] == "M" and sel:
            if not press:
                probs.append(f"removable copy {r['id']} selected without space pressure")
            elif need <= 0:
                probs.append(f"removable copy {r['id']} selected although the shortfall was already covered")
        if r["wants"] == "N" and r["has"] != "N" and r["file"] not in pend and not sel:
            probs.append(f"released copy {r['id']} not selected")
        if r["wants"] == "M" and r["has"] != "N" and r["file"] not in pend and press and need > 0 and not sel:
            probs.append(f"removable copy {r['id']} not selected although {need} bytes are still needed")
        if sel and need > 0:
            cr = r["size"] if r["size"] else (r["fsize"] if r["fsize"] else 0)
            need -= cr
    return probs


def gen_case(rng):
    n = rng.choice([0, 1, 2, 3, 4, 6, 8, 11, 12, 21, 25])
    stype = rng.choice("ATF")
    r = rng.random()
    if r < 0.15:
        avail_k = None
    else:
        avail_k = rng.choice([0, 1, 5, 100, 1000, 4096])
    min_k = rng.choice([0, 1, 2, 6, 100, 2000, 5000])
    rows = []
    for i in range(n):
        size = rng.choice([None, 0, 1, 500, 1024, 3000, 100000])
        fsize = rng.choice([None, 0, 700, 2048, 50000])
        rows.append(dict(file=i + 1, has=rng.choice("YYYMXN"), wants=rng.choice("YMMNN"), size=size, fsize=fsize))
    pend = set(r["file"] for r in rows if rng.random() < 0.15)
    return stype, avail_k, min_k, rows, pend


def run_real(e, stype, avail_k, min_k, rows, pend):
    import alpenhorn.daemon.update as upd
    from alpenhorn.db import (ArchiveAcq, ArchiveFile, ArchiveFileCopy, ArchiveFileCopyRequest, StorageGroup, StorageNode)
    from alpenhorn.scheduler import FairMultiFIFOQueue
    for m in (ArchiveFileCopyRequest, ArchiveFileCopy, ArchiveFile, ArchiveAcq, StorageNode, StorageGroup):
        m.delete().execute()
    g = StorageGroup.create(name="g")
    g2 = StorageGroup.create(name="g2")
    node = StorageNode.create(name="n", group=g, root=e.root("n"), host="h1", active=True, storage_type=stype,
                              avail_gb=None if avail_k is None else avail_k / 2 ** 20, min_avail_gb=min_k / 2 ** 20)
    other = StorageNode.create(name="o", group=g2, root=e.root("o"), host="h1", active=True)
    acq = ArchiveAcq.create(name="a")
    for r in rows:
        f = ArchiveFile.create(acq=acq, name=f"f{r['file']}", size_b=r["fsize"], md5sum="0" * 32)
        r["file"] = f.id
        c = ArchiveFileCopy.create(file=f, node=node, has_file=r["has"], wants_file=r["wants"], size_b=r["size"])
        r["id"] = c.id
        # distractors: copies of the same file on another node, completed/cancelled requests
        ArchiveFileCopy.create(file=f, node=other, has_file="Y", wants_file="N")
    return node, other


def stage_passes(ctx, n):
    """several main-loop passes on a real node whose free space (scripted statvfs) follows the files actually deleted: the
    cleaning of removable copies is driven by the free space measured in the same pass, stops once the minimum is met, and
    is minimal over the whole run"""
    import alpenhorn.daemon.update as upd
    import world as worldmod
    from alpenhorn.scheduler import FairMultiFIFOQueue
    rng = ctx.rng
    GiB = 2 ** 30
    real_statvfs = os.statvfs
    with envmod.Env() as e:
        for it in range(n):
            w = worldmod.World(e)
            db = w.db
            for m in (db.StorageTransferAction, db.ArchiveFileCopyRequest, db.ArchiveFileImportRequest, db.ArchiveFileCopy,
                      db.ArchiveFile, db.ArchiveAcq, db.StorageNode, db.StorageGroup):
                m.delete().execute()
            import shutil
            shutil.rmtree(os.path.join(e.tmp, "roots"), ignore_errors=True)
            gf, ga, gb = w.group("gf"), w.group("ga"), w.group("gb")
            minimum = rng.choice([5, 10, 10.25, 7.5])        # GiB; not always whole numbers
            node = w.node("fld", gf, stype="F", min_kib=int(minimum * 2 ** 20))
            a1, a2 = w.node("a1", ga, stype="A"), w.node("a2", gb, stype="A")
            acq = w.acq("acq")
            sizes = {}
            nfiles = rng.randint(3, 7)
            for i in range(nfiles):
                f = w.file(acq, f"f{i}.dat", b"x" * (i + 1), size=rng.choice([1, 1, 2]) * GiB)
                w.copy(f, node, has="Y", wants=rng.choice("MMMY"), size_b=f.size_b)
                w.copy(f, a1, has="Y")
                w.copy(f, a2, has="Y")
                sizes[f.id] = f.size_b
            # shortfalls of 0.5 / 1.5 / 2.5 GiB; or free space above the minimum by 1 GiB, by half a GiB, or by 600 bytes
            base_free = int((minimum - rng.choice([0.5, 1.5, 2.5, -1, -0.5])) * GiB) + rng.choice([0, 0, 600])

            class SV:
                def __init__(self, b):
                    self.f_bavail, self.f_bsize = b, 1

            def free_now():
                gone = sum(sizes[c.file_id] for c in db.ArchiveFileCopy.select().where(db.ArchiveFileCopy.node == node.id)
                           if w.file_on(node, db.ArchiveFile.get(id=c.file_id)) is None)
                return base_free + gone

            def fake_statvfs(path):
                if str(path).rstrip("/") == node.root.rstrip("/"):
                    return SV(free_now())
                return real_statvfs(path)
            os.statvfs = fake_statvfs
            deleted_per_pass = []
            try:
                e.set_host("h1")
                q = FairMultiFIFOQueue()
                un = upd.UpdateableNode(q, db.StorageNode.get(id=node.id))
                # worker timing: "prompt" = the tasks of a pass are finished before the next pass; "late" = the worker is still
                # busy when the next pass begins and finishes right after that pass has measured the free space (the pass
                # found the node busy at its start)
                timing = rng.choice(["prompt", "prompt", "late"])

                def drain_all():
                    item = q.get(timeout=0.001)
                    while item is not None:
                        item[0](); q.task_done(item[1]); item = q.get(timeout=0.001)
                real_ufs = un.update_free_space

                def ufs_then_worker():
                    real_ufs()
                    if timing == "late":
                        drain_all()
                un.update_free_space = ufs_then_worker
                for p in range(4 if timing == "prompt" else 7):
                    un.reinit(db.StorageNode.get(id=node.id))
                    before = set(c.id for c in db.ArchiveFileCopy.select().where(db.ArchiveFileCopy.node == node.id, db.ArchiveFileCopy.has_file == "Y"))
                    un.update()
                    if timing == "prompt" or p == 6:
                        drain_all()
                    after = set(c.id for c in db.ArchiveFileCopy.select().where(db.ArchiveFileCopy.node == node.id, db.ArchiveFileCopy.has_file == "Y"))
                    deleted_per_pass.append(sorted(before - after))
                final_free = free_now()
            finally:
                os.statvfs = real_statvfs
            removable_left = db.ArchiveFileCopy.select().where(db.ArchiveFileCopy.node == node.id, db.ArchiveFileCopy.has_file == "Y",
                                                               db.ArchiveFileCopy.wants_file == "M").count()
            all_deleted = [c for p_ in deleted_per_pass for c in p_]
            ctx.count(f"passes:{timing}:deleted={min(len(all_deleted), 3)}")
            ctx.case(("passes", timing, minimum, base_free, tuple(sorted(sizes.values())), tuple(map(tuple, deleted_per_pass))), nontrivial=bool(all_deleted),
                     sample={"minimum_GiB": minimum, "free_GiB_at_start": base_free / GiB, "deleted_per_pass": deleted_per_pass,
                             "free_GiB_at_end": final_free / GiB} if all_deleted and len(ctx.samples) < 6 else None)
            need0 = minimum * GiB - base_free
            if need0 <= 0 and all_deleted:
                ctx.violation("passes:needless", f"free space {base_free / GiB} GiB was above the minimum {minimum} GiB but removable copies "
                              f"{all_deleted} were deleted", {"kind": "passes", "deleted_per_pass": deleted_per_pass})
            if need0 > 0:
                if final_free < minimum * GiB and removable_left:
                    ctx.violation("passes:not-cleaned", f"after {4 if timing == 'prompt' else 7} passes (worker timing: {timing}) the node is still below its minimum ({final_free / GiB} < {minimum} GiB) "
                                  f"with {removable_left} removable copies left", {"kind": "passes", "deleted_per_pass": deleted_per_pass})
                if all_deleted:
                    last = all_deleted[-1]
                    last_size = sizes[db.ArchiveFileCopy.get(id=last).file_id]
                    if final_free - last_size >= minimum * GiB:
                        ctx.violation("passes:too-many", f"cleaning went on after the minimum was met (worker timing: {timing}): shortfall {need0 / GiB} GiB, deleted per pass "
                                      f"{deleted_per_pass} (sizes GiB {[sizes[db.ArchiveFileCopy.get(id=c).file_id] // GiB for c in all_deleted]}), "
                                      f"free at the end {final_free / GiB} GiB; without the last deletion the node would already be at "
                                      f"{(final_free - last_size) / GiB} GiB", {"kind": "passes", "deleted_per_pass": deleted_per_pass})


def run(ctx):
    ok = common.proof_stage(ctx, MODULE)
    import alpenhorn.daemon.update as upd
    from alpenhorn.db import ArchiveFileCopyRequest, StorageNode, ArchiveFile
    from alpenhorn.scheduler import FairMultiFIFOQueue
    rng = ctx.rng
    drv = common.Driver()
    n = 700 if ctx.quick() else 20000
    cases = []
    with envmod.Env() as e:
        for it in range(n):
            stype, avail_k, min_k, rows, pend0 = gen_case(rng)
            fmap = {r["file"]: None for r in rows}
            node, other = run_real(e, stype, avail_k, min_k, rows, pend0)
            # map pend0 (generator file numbers were replaced by db ids in rows in order)
            pend = set()
            for r, orig in zip(rows, list(fmap)):
                if orig in pend0:
                    pend.add(r["file"])
            for fid in pend:
                ArchiveFileCopyRequest.create(file=fid, node_from=node, group_to=other.group, completed=0, cancelled=0)
            for r in rows:     # distractor requests that must not count as pending
                if rng.random() < 0.2:
                    ArchiveFileCopyRequest.create(file=r["file"], node_from=node, group_to=other.group,
                                                  completed=rng.choice([0, 1]), cancelled=1)
                if rng.random() < 0.1:
                    ArchiveFileCopyRequest.create(file=r["file"], node_from=other, group_to=node.group, completed=0, cancelled=0)
            un = upd.UpdateableNode(FairMultiFIFOQueue(), StorageNode.get(id=node.id))
            batches = []
            un.io.delete = lambda copies: batches.append([c.id for c in copies])
            un.update_delete()
            cases.append((stype, avail_k, min_k, rows, sorted(pend), batches))
    ops = []
    for stype, avail_k, min_k, rows, pend, batches in cases:
        cs = ",".join(f"{r['id']}:{r['file']}:{r['has']}:{r['wants']}:{'-' if r['size'] is None else r['size']}:"
                      f"{'-' if r['fsize'] is None else r['fsize']}" for r in sorted(rows, key=lambda r: r['id'])) or "-"
        ops.append(f"seldel {'-' if avail_k is None else avail_k} {min_k} {1 if stype == 'A' else 0} "
                   f"{','.join(map(str, pend)) or '-'} {cs}")
    outs = drv.batch(ops)
    for (stype, avail_k, min_k, rows, pend, batches), out, op in zip(cases, outs, ops):
        real_s = "|".join(",".join(map(str, b)) for b in batches) or "-"
        sel = [i for b in batches for i in b]
        press = avail_k is not None and avail_k < min_k and stype != "A"
        nM = sum(1 for r in rows if r["id"] in set(sel) and r["wants"] == "M")
        ctx.count(("pressure" if press else "no-pressure") + (":M-selected" if nM else "") + (":multi-batch" if len(batches) > 1 else ""))
        ctx.case(op, nontrivial=len(rows) > 0,
                 sample={"node_type": stype, "avail_KiB": avail_k, "min_KiB": min_k, "rows": rows, "pending_source_files": pend,
                         "io.delete batches": batches, "model": out} if nM and len(ctx.samples) < 4 else None)
        if real_s != out:
            ctx.corr_broken.append({"stream": "update_delete-vs-selectDelete", "op": op, "real": real_s, "model": out})
        probs = judge(sel, rows, set(pend), avail_k, min_k, stype == "A")
        for b in batches:
            if len(b) == 0:
                probs.append("empty batch handed to io.delete")
        if probs:
            ctx.violation("sel:" + probs[0][:50].replace(" ", "_"), probs[0],
                          {"kind": "seldel", "node_type": stype, "avail_KiB": avail_k, "min_KiB": min_k, "rows": rows,
                           "pending": pend, "batches": batches, "problems": probs})
    stage_passes(ctx, 120 if ctx.quick() else 3000)
    ctx.coverage["rule"] = ("random copy tables (0..25 rows; has in YMXN, wants in YMN; sizes on copy/file/neither/zero), node types A/T/F, "
                            "free space known/unknown vs minimum, pending/cancelled/completed/foreign requests; the real update_delete "
                            "runs with io.delete recorded; compared with the Lean model's batches and judged by an oracle written from "
                            "the property text; distinct = full input line; non-trivial = non-empty table")
    ctx.corr_broken = ctx.corr_broken[:5]
    from props.c06 import finish_search
    finish_search(ctx, ok)


def replay(ctx, path):
    import sys
    return common.replay_by_rerun(ctx, path, sys.modules[__name__])
