import Alpen.Model.Str
/-!
Line-protocol driver: one operation per line on stdin, one canonical answer line on
stdout.  Strings travel as comma-separated code points (`-` = empty string).
Core Lean only (so this links as a `lean_exe`).
-/
open Alpen

namespace Drv

def decStr (t : String) : Option Str :=
  if t = "-" then some [] else
  (t.splitOn ",").mapM (fun x => x.toNat?.map Char.ofNat)

def encStr (s : Str) : String :=
  if s.isEmpty then "-" else ",".intercalate (s.map (fun c => toString c.toNat))

def encBool (b : Bool) : String := if b then "1" else "0"

def pure1 (toks : List String) : Option String :=
  match toks with
  | ["iip", s] => do
      let s ← decStr s
      match invalidImportPath s with
      | none => pure "none"
      | some i => pure s!"some {i}"
  | ["normpath", s] => do
      let s ← decStr s
      pure (encStr (normpath s))
  | ["canon", s] => do
      let s ← decStr s
      pure (encBool (decide (Canonical s)))
  | _ => none

end Drv

partial def loop (h : IO.FS.Stream) (out : IO.FS.Stream) : IO Unit := do
  let line ← h.getLine
  if line.isEmpty then return ()
  let toks := (line.trimAscii.toString.splitOn " ").filter (· ≠ "")
  match Drv.pure1 toks with
  | some r => out.putStrLn r
  | none => out.putStrLn "bad-op"
  loop h out

def main : IO Unit := do
  let out ← IO.getStdout
  loop (← IO.getStdin) out
  out.flush
